"""Shared plumbing for every check: environment, verdicts, evidence, known findings.

Conventions (DESIGN.md 1.5):
  exit 0  every deciding monitor was reached, no unlisted violation observed
  exit 1  + line "VIOLATION property=<id> replay=<path>"
  exit 3  + line "INCONCLUSIVE property=<id> reason=..."  (monitor never reached, watchdog)
Evidence is rewritten on every run from measured counters only.
"""
from __future__ import annotations

import hashlib
import json
import os
import random
import shutil
import signal
import sys
import tempfile
import time
import typing as T

VERIF = os.path.dirname(os.path.dirname(os.path.abspath(__file__)))
REPO = os.environ.get('VERIF_REPO', '/repo')
DEPS = os.path.join(VERIF, '.deps')


def env_seed() -> int:
    try:
        return int(os.environ.get('VERIF_SEED', '0'))
    except ValueError:
        return int(hashlib.sha256(os.environ['VERIF_SEED'].encode()).hexdigest()[:8], 16)


def env_jobs() -> int:
    try:
        return max(1, int(os.environ.get('VERIF_JOBS', '0')) or (os.cpu_count() or 4))
    except ValueError:
        return os.cpu_count() or 4


def use_repo() -> None:
    """Put the repository under test first on sys.path (never a cached copy)."""
    if REPO not in sys.path:
        sys.path.insert(0, REPO)
    sys.dont_write_bytecode = True


def ensure_deps() -> None:
    """icontract/deal live in /verif/.deps (git-ignored); install from the offline wheelhouse if absent."""
    if not os.path.isdir(os.path.join(DEPS, 'icontract')):
        import subprocess
        subprocess.run(['/venv/bin/pip', 'install', '-q', '--no-index', '--find-links', '/opt/veriftools/wheels',
                        '--target', DEPS, 'icontract', 'deal'], check=False,
                       stdout=subprocess.DEVNULL, stderr=subprocess.DEVNULL)
    if DEPS not in sys.path:
        sys.path.append(DEPS)


_SCRATCH: T.List[str] = []


def scratch_dir(prefix: str = 'vf') -> str:
    """A scratch directory under $TMPDIR removed at exit (also on SIGTERM/SIGINT)."""
    d = tempfile.mkdtemp(prefix=f'{prefix}-')
    if not _SCRATCH:
        import atexit
        atexit.register(_cleanup)
        for sig in (signal.SIGTERM, signal.SIGINT, signal.SIGHUP):
            try:
                signal.signal(sig, _on_signal)
            except (ValueError, OSError):
                pass
    _SCRATCH.append(d)
    return d


_MAIN_PID = os.getpid()


def _cleanup() -> None:
    if os.getpid() != _MAIN_PID:
        return
    for d in _SCRATCH:
        shutil.rmtree(d, ignore_errors=True)


def _on_signal(signum: int, frame: T.Any) -> None:
    _cleanup()
    os._exit(128 + signum)


def digest(obj: T.Any) -> str:
    return hashlib.sha256(json.dumps(obj, sort_keys=True, default=repr).encode('utf-8', 'surrogatepass')).hexdigest()[:16]


def load_known_findings() -> T.List[dict]:
    """known_findings.json (committed; never written at run time) plus per-property drafts in known_findings.d/."""
    out: T.List[dict] = []
    paths = [os.path.join(VERIF, 'known_findings.json')]
    d = os.path.join(VERIF, 'known_findings.d')
    if os.path.isdir(d):
        paths += [os.path.join(d, n) for n in sorted(os.listdir(d)) if n.endswith('.json')]
    for p in paths:
        try:
            with open(p, encoding='utf-8') as f:
                out += json.load(f).get('findings', [])
        except (FileNotFoundError, ValueError):
            pass
    return out


class Check:
    """Verdict/evidence accumulator of one run of one property's check."""

    def __init__(self, pid: str, level: str = 'exploration') -> None:
        self.pid = pid
        self.level = level
        self.seed = env_seed()
        self.tier = os.environ.get('VERIF_TIER', 'quick')
        if self.tier not in ('quick', 'thorough'):
            self.tier = 'quick'
        self.jobs = env_jobs()
        self.rng = random.Random(f'{pid}:{self.seed}')
        self.t0 = time.time()
        self.counters: T.Dict[str, int] = {}
        self.distinct: T.Set[str] = set()
        self.samples: T.List[T.Any] = []
        self.violations: T.List[dict] = []     # unlisted
        self.known_hits: T.Dict[str, int] = {}  # mechanism -> count
        self.known_sample: T.Dict[str, T.Any] = {}
        self.inconclusive: T.List[str] = []
        self.notes: T.Dict[str, T.Any] = {}
        self.findings = [f for f in load_known_findings() if f.get('property') == pid]
        self.known = {f['mechanism']: f for f in self.findings if f.get('status') == 'known'}
        self.evaluations = 0

    # ---- counting -------------------------------------------------------------------
    def count(self, name: str, n: int = 1) -> None:
        self.counters[name] = self.counters.get(name, 0) + n

    def merge_counts(self, d: T.Mapping[str, int]) -> None:
        for k, v in d.items():
            self.count(k, v)

    def case(self, key: T.Any = None, nontrivial: bool = True) -> None:
        """One explored case; key identifies it structurally for distinct_nontrivial."""
        self.evaluations += 1
        if nontrivial and key is not None:
            self.distinct.add(key if isinstance(key, str) and len(key) <= 16 else digest(key))

    def sample(self, obj: T.Any, limit: int = 8) -> None:
        if len(self.samples) < limit:
            self.samples.append(obj)

    # ---- verdicts -------------------------------------------------------------------
    def violation(self, mechanism: str, witness: dict) -> None:
        """Record a violation. `mechanism` is the classifier's name for WHY it fails; it is
        matched against known_findings.json (status known). Unlisted mechanisms are reported."""
        if mechanism in self.known:
            self.known_hits[mechanism] = self.known_hits.get(mechanism, 0) + 1
            self.known_sample.setdefault(mechanism, witness)
            return
        if len(self.violations) < 50:
            w = dict(witness)
            w['mechanism'] = mechanism
            self.violations.append(w)
        else:
            self.count('violations_not_stored')

    def inconclusive_case(self, reason: str) -> None:
        self.count('inconclusive:' + reason)

    def require(self, name: str, minimum: int = 1) -> None:
        """A deciding monitor/counter that must have been reached, else the run is inconclusive."""
        if self.counters.get(name, 0) < minimum:
            self.inconclusive.append(f'{name}<{minimum} (got {self.counters.get(name, 0)})')

    def write_replay(self, witness: dict) -> str:
        d = os.path.join(VERIF, 'replay', self.pid)
        os.makedirs(d, exist_ok=True)
        w = {'property': self.pid, 'seed': self.seed, 'tier': self.tier, **witness}
        p = os.path.join(d, digest(w) + '.json')
        with open(p, 'w', encoding='utf-8') as f:
            json.dump(w, f, indent=1, default=repr, ensure_ascii=True)
        return p

    def finish(self, rule: str, assumptions: T.Sequence[str] = (), exhaustive: bool = False,
               extra: T.Optional[dict] = None) -> int:
        wall = time.time() - self.t0
        coverage: T.Dict[str, T.Any] = {
            'evaluations': self.evaluations,
            'distinct_nontrivial': len(self.distinct),
            'rule': rule,
            'samples': self.samples or ['<none>'],
            'exhaustive': exhaustive,
            'monitors': dict(sorted(self.counters.items())),
            'known_findings_observed': dict(sorted(self.known_hits.items())),
            'inconclusive': self.inconclusive,
        }
        if self.notes:
            coverage['notes'] = self.notes
        if extra:
            coverage.update(extra)
        ev = {
            'property_id': self.pid, 'tier': self.tier, 'seed': self.seed, 'level': self.level,
            'coverage': coverage, 'assumptions': list(assumptions), 'wall_s': round(wall, 2),
            'violations': len(self.violations) + self.counters.get('violations_not_stored', 0),
        }
        evdir = os.environ.get('VERIF_EVIDENCE_DIR') or os.path.join(VERIF, 'evidence')  # override: mutation runs only
        os.makedirs(evdir, exist_ok=True)
        evp = os.path.join(evdir, f'{self.pid}.json')
        tmp = evp + '.tmp'
        with open(tmp, 'w', encoding='utf-8') as f:
            json.dump(ev, f, indent=1, default=repr, ensure_ascii=True)
            f.write('\n')
        os.replace(tmp, evp)

        for mech, f in sorted(self.known.items()):
            n = self.known_hits.get(mech, 0)
            print(f'KNOWN-FINDING: property={self.pid} {mech}: {f.get("what", "")} (observed {n}x this run)')
        print(f'[{self.pid}] tier={self.tier} seed={self.seed} evaluations={self.evaluations} '
              f'distinct={len(self.distinct)} wall={wall:.1f}s')
        for k, v in sorted(self.counters.items()):
            print(f'[{self.pid}]   {k} = {v}')
        if self.violations:
            by_mech: T.Dict[str, T.List[dict]] = {}
            for w in self.violations:
                by_mech.setdefault(w['mechanism'], []).append(w)
            for i, (mech, ws) in enumerate(sorted(by_mech.items())):
                p = self.write_replay(ws[0])
                for w in ws[1:4]:
                    self.write_replay(w)
                if i < 20:
                    print(f'VIOLATION property={self.pid} replay={p}')
                    print(f'  mechanism={mech} count={len(ws)} first=' + json.dumps(
                        {k: v for k, v in ws[0].items() if k != 'mechanism'}, default=repr, ensure_ascii=True)[:700])
            if len(by_mech) > 20:
                print(f'  ... and {len(by_mech) - 20} more mechanisms')
            return 1
        if self.inconclusive or self.evaluations == 0:
            print(f'INCONCLUSIVE property={self.pid} reason=' + ('; '.join(self.inconclusive) or 'nothing explored'))
            return 3
        print(f'[{self.pid}] HELD on everything explored')
        return 0


def chunks(seq: T.Sequence, n: int) -> T.List[T.Sequence]:
    n = max(1, n)
    k = (len(seq) + n - 1) // n
    return [seq[i:i + k] for i in range(0, len(seq), k)] if k else []


def pmap(fn: T.Callable, items: T.Sequence, jobs: int, timeout: float = 3600.0) -> T.List:
    """Run fn over items in forked worker processes (fork keeps the already-imported repo modules).
    A worker that dies makes the whole map raise (BrokenProcessPool) instead of hanging."""
    import concurrent.futures as cf
    import multiprocessing as mp
    if jobs <= 1 or len(items) <= 1:
        return [fn(x) for x in items]
    ctx = mp.get_context('fork')
    with cf.ProcessPoolExecutor(max_workers=min(jobs, len(items)), mp_context=ctx) as ex:
        return list(ex.map(fn, items, timeout=timeout))
