"""C19 monitors installed inside the forked meson child (runner.meson(monitors=[install])).

Wrappers on the real Range.intersect / Range.always / version_check_to_range /
version_compare_condition_with_min / version_compare_many.  They only *record* the observed call
(arguments and result as plain data) and return the real result; the offline checker in
vf/checks/c19.py decides.  A wrapper never raises through meson.
"""
from __future__ import annotations

import functools
import typing as T


def range_data(r: T.Any) -> T.Any:
    """Plain description of a Range (or of whatever else was passed)."""
    try:
        return {
            'min': None if r.min is None else str(r.min),
            'min_eq': bool(r.min_eq),
            'max': None if r.max is None else str(r.max),
            'max_eq': bool(r.max_eq),
            'is_empty': bool(r.is_empty),
        }
    except Exception:
        return {'repr': repr(r)}


def install(rec: T.Callable[[dict], None]) -> None:
    from mesonbuild.utils import universal
    from mesonbuild import mesonlib
    import mesonbuild.interpreter.primitives.string as mstring

    Range = universal.Range
    real_intersect = Range.intersect
    real_always = Range.always

    @functools.wraps(real_intersect)
    def intersect(self: T.Any, x: T.Any) -> T.Any:
        before = range_data(self)
        res = real_intersect(self, x)
        try:
            rec({'ev': 'intersect', 'self': before, 'self_after': range_data(self), 'x': range_data(x),
                 'result': range_data(res), 'stack': _caller()})
        except Exception:
            pass
        return res

    @functools.wraps(real_always)
    def always(self: T.Any, inner: T.Any) -> T.Any:
        res = real_always(self, inner)
        try:
            rec({'ev': 'always', 'self': range_data(self), 'inner': range_data(inner), 'result': res,
                 'stack': _caller()})
        except Exception:
            pass
        return res

    Range.intersect = intersect   # type: ignore[method-assign]
    Range.always = always         # type: ignore[method-assign]

    real_to_range = universal.version_check_to_range

    @functools.wraps(real_to_range)
    def version_check_to_range(checks: T.Any, *a: T.Any, **kw: T.Any) -> T.Any:
        res = real_to_range(checks, *a, **kw)
        try:
            rec({'ev': 'to_range', 'checks': list(checks), 'has_start': bool(a or kw), 'result': range_data(res),
                 'stack': _caller()})
        except Exception:
            pass
        return res

    real_cond_min = universal.version_compare_condition_with_min

    @functools.wraps(real_cond_min)
    def version_compare_condition_with_min(condition: T.Any, minimum: str) -> bool:
        res = real_cond_min(condition, minimum)
        try:
            rec({'ev': 'cond_min', 'condition': condition if isinstance(condition, str) else range_data(condition),
                 'minimum': minimum, 'result': res, 'stack': _caller()})
        except Exception:
            pass
        return res

    real_many = universal.version_compare_many

    @functools.wraps(real_many)
    def version_compare_many(vstr1: str, conditions: T.Any) -> T.Any:
        conds = [conditions] if isinstance(conditions, str) else list(conditions)
        res = real_many(vstr1, conds)
        try:
            rec({'ev': 'many', 'v': vstr1, 'conditions': conds, 'result': [res[0], list(res[1]), list(res[2])],
                 'stack': _caller()})
        except Exception:
            pass
        return res

    for mod in (universal, mesonlib, mstring):
        for name, fn in (('version_check_to_range', version_check_to_range),
                         ('version_compare_condition_with_min', version_compare_condition_with_min),
                         ('version_compare_many', version_compare_many)):
            if hasattr(mod, name):
                setattr(mod, name, fn)


def _caller() -> str:
    """Nearest mesonbuild frame outside utils/universal.py: shows that the interpreter reached us."""
    import sys
    f = sys._getframe(2)
    while f is not None:
        fn = f.f_code.co_filename
        if 'mesonbuild' in fn and not fn.endswith('universal.py'):
            return fn.rsplit('mesonbuild/', 1)[-1] + ':' + f.f_code.co_name
        f = f.f_back
    return '?'
