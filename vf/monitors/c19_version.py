"""C19 monitors installed inside the forked meson child (runner.meson(monitors=[install])).

Wrappers on the real Range.intersect / Range.always / version_check_to_range /
version_compare_condition_with_min / version_compare_many.  They only *record* the observed call
(arguments and result as plain data) and return the real result; the offline checker in
vf/checks/c19.py decides.  A wrapper never raises through meson.
"""
from __future__ import annotations

import functools
import typing as T


def range_data(r: T.Any) -> T.Any:
    """Plain description of a Range (or of whatever else was passed)."""
    try:
        return {
            'min': None if r.min is None else str(r.min),
            'min_eq': bool(r.min_eq),
            'max': None if r.max is None else str(r.max),
            'max_eq': bool(r.max_eq),
            'is_empty': bool(r.is_empty),
        }
    except Exception:
        return {'repr': repr(r)}


def install(rec: T.Callable[[dict], None]) -> None:
    from mesonbuild.utils import universal
    from mesonbuild import mesonlib
    import mesonbuild.interpreter.primitives.string as mstring

    Range = universal.Range
    real_intersect = Range.intersect
    real_always = Range.always

    @functools.wraps(real_intersect)
    def intersect(self: T.Any, x: T.Any) -> T.Any:
        before = range_data(self)
        res = real_intersect(self, x)
        try:
            rec({'ev': 'intersect', 'self': before, 'self_after': range_data(self), 'x': range_data(x),
                 'result': range_data(res), 'stack': _caller()})
        except Exception:
            pass
        return res

    @functools.wraps(real_always)
    def always(self: T.Any, inner: T.Any) -> T.Any:
        res = real_always(self, inner)
        try:
            rec({'ev': 'always', 'self': range_data(self), 'inner': range_data(inner), 'result': res,
                 'stack': _caller()})
        except Exception:
            pass
        return res

    Range.intersect = intersect   # type: ignore[method-assign]
    Range.always = always         # type: ignore[method-assign]

    real_to_range = universal.version_check_to_range

    @functools.wraps(real_to_range)
    def version_check_to_range(checks: T.Any, *a: T.Any, **kw: T.Any) -> T.Any:
        res = real_to_range(checks, *a, **kw)
        try:
            rec({'ev': 'to_range', 'checks': list(checks), 'has_start': bool(a or kw), 'result': range_data(res),
                 'stack': _caller()})
        except Exception:
            pass
        return res

    real_cond_min = universal.version_compare_condition_with_min

    @functools.wraps(real_cond_min)
    def version_compare_condition_with_min(condition: T.Any, minimum: str) -> bool:
        res = real_cond_min(condition, minimum)
        try:
            rec({'ev': 'cond_min', 'condition': condition if isinstance(condition, str) else range_data(condition),
                 'minimum': minimum, 'result': res, 'stack': _caller()})
        except Exception:
            pass
        return res

    real_many = universal.version_compare_many

    @functools.wraps(real_many)
    def version_compare_many(vstr1: str, conditions: T.Any) -> T.Any:
        conds = [conditions] if isinstance(conditions, str) else list(conditions)
        res = real_many(vstr1, conds)
        try:
            rec({'ev': 'many', 'v': vstr1, 'conditions': conds, 'result': [res[0], list(res[1]), list(res[2])],
                 'stack': _caller()})
        except Exception:
            pass
        return res

    for mod in (universal, mesonlib, mstring):
        for name, fn in (('version_check_to_range', version_check_to_range),
                         ('version_compare_condition_with_min', version_compare_condition_with_min),
                         ('version_compare_many', version_compare_many)):
            if hasattr(mod, name):
                setattr(mod, name, fn)


    _install_clause_markers(rec)


def _install_clause_markers(rec: T.Callable[[dict], None]) -> None:
    """Per-clause attribution for `if`/`elif` chains: which clause condition is being evaluated, what it
    evaluated to, when an if statement is entered/left and when an else block starts.  Record only."""
    try:
        from mesonbuild.interpreterbase import interpreterbase as ib
        from mesonbuild import mparser
    except Exception:
        return
    IB = ib.InterpreterBase
    real_if = IB.evaluate_if
    real_stmt = IB.evaluate_statement
    real_block = IB.evaluate_codeblock
    cond_ids: T.Dict[int, T.Tuple[int, int]] = {}     # id(condition node) -> (if serial, clause index)
    else_ids: T.Dict[int, int] = {}                   # id(else block) -> if serial
    serial = [0]

    @functools.wraps(real_if)
    def evaluate_if(self: T.Any, node: T.Any) -> T.Any:
        serial[0] += 1
        me = serial[0]
        mine: T.List[int] = []
        try:
            for k, clause in enumerate(node.ifs):
                cond_ids[id(clause.condition)] = (me, k)
                mine.append(id(clause.condition))
            eb = getattr(node.elseblock, 'block', None)
            if eb is not None:
                else_ids[id(eb)] = me
            rec({'ev': 'if_enter', 'if': me, 'line': getattr(node, 'lineno', -1), 'clauses': len(node.ifs)})
        except Exception:
            pass
        try:
            return real_if(self, node)
        finally:
            try:
                rec({'ev': 'if_exit', 'if': me})
                for i in mine:
                    cond_ids.pop(i, None)
                else_ids.pop(id(getattr(node.elseblock, 'block', None)), None)
            except Exception:
                pass

    @functools.wraps(real_stmt)
    def evaluate_statement(self: T.Any, cur: T.Any) -> T.Any:
        tag = cond_ids.get(id(cur))
        if tag is None:
            return real_stmt(self, cur)
        try:
            rec({'ev': 'clause_begin', 'if': tag[0], 'clause': tag[1], 'line': getattr(cur, 'lineno', -1)})
        except Exception:
            pass
        res = None
        try:
            res = real_stmt(self, cur)
            return res
        finally:
            try:
                held = getattr(res, 'held_object', None)
                rec({'ev': 'clause_end', 'if': tag[0], 'clause': tag[1], 'value': held if isinstance(held, bool) else None})
            except Exception:
                pass

    @functools.wraps(real_block)
    def evaluate_codeblock(self: T.Any, node: T.Any, *a: T.Any, **kw: T.Any) -> T.Any:
        tag = else_ids.get(id(node))
        if tag is not None:
            try:
                rec({'ev': 'else_begin', 'if': tag})
            except Exception:
                pass
        return real_block(self, node, *a, **kw)

    IB.evaluate_if = evaluate_if                    # type: ignore[method-assign]
    IB.evaluate_statement = evaluate_statement      # type: ignore[method-assign]
    IB.evaluate_codeblock = evaluate_codeblock      # type: ignore[method-assign]


def _caller() -> str:
    """Nearest mesonbuild frame outside utils/universal.py: shows that the interpreter reached us."""
    import sys
    f = sys._getframe(2)
    while f is not None:
        fn = f.f_code.co_filename
        if 'mesonbuild' in fn and not fn.endswith('universal.py'):
            return fn.rsplit('mesonbuild/', 1)[-1] + ':' + f.f_code.co_name
        f = f.f_back
    return '?'
