"""C11 monitors: (1) sys.addaudithook recorder of file-system mutations inside the installing process,
(2) parser/classifier of `strace -f -y -e trace=%file` logs of a cold `meson install` (covers children: strip,
install scripts), (3) recursive snapshots and their comparison, (4) the offline oracles over what was recorded
(containment, tree == expected, install log, uninstall, dry-run, idempotence, --only-changed).

Nothing here imports mesonbuild; monitors never raise through the code they observe.
"""
from __future__ import annotations

import hashlib
import os
import re
import stat
import sys
import typing as T

# --------------------------------------------------------------------------------------------------------
# (1) audit hook
# --------------------------------------------------------------------------------------------------------

_WRITE_FLAGS = os.O_WRONLY | os.O_RDWR | os.O_CREAT | os.O_TRUNC | os.O_APPEND

# event -> list of (argument index of a mutated path, index of its dir_fd argument or None, follow last component)
_PATH_EVENTS: T.Dict[str, T.List[T.Tuple[int, T.Optional[int], bool]]] = {
    'os.mkdir': [(0, 2, False)],
    'os.rmdir': [(0, 1, False)],
    'os.remove': [(0, 1, False)],
    'os.rename': [(0, 2, False), (1, 3, False)],
    'os.symlink': [(1, 2, False)],
    'os.link': [(1, 3, False)],
    'os.chmod': [(0, 2, True)],
    'os.chown': [(0, 3, True)],
    'os.utime': [(0, 3, True)],
    'os.truncate': [(0, None, True)],
    'os.setxattr': [(0, None, True)],
    'os.removexattr': [(0, None, True)],
    'os.mkfifo': [(0, None, False)],
    'os.mknod': [(0, None, False)],
    'shutil.copyfile': [(1, None, True)],
    'shutil.copymode': [(1, None, True)],
    'shutil.copystat': [(1, None, True)],
    'shutil.copytree': [(1, None, False)],
    'shutil.move': [(0, None, False), (1, None, False)],
    'shutil.rmtree': [(0, 1, False)],
    'shutil.chown': [(0, None, True)],
    'shutil.unpack_archive': [(1, None, False)],
    'shutil.make_archive': [(0, None, False)],
    'tempfile.mkstemp': [(0, None, False)],
    'tempfile.mkdtemp': [(0, None, False)],
}
_SPAWN_EVENTS = {'subprocess.Popen', 'os.exec', 'os.posix_spawn', 'os.system', 'os.spawn', 'os.startfile', 'pty.spawn'}


def _resolve(path: T.Any, dir_fd: T.Any, follow_last: bool) -> str:
    """Absolute path an operation acts on: symlinks resolved in the directory part (and in the last component
    when the operation follows it), relative paths taken from dir_fd / the cwd at the time of the event."""
    if isinstance(path, int):
        try:
            return os.readlink(f'/proc/self/fd/{path}')
        except OSError:
            return f'<fd {path}>'
    try:
        p = os.fsdecode(path)
    except TypeError:
        return f'<{type(path).__name__}>'
    if not os.path.isabs(p):
        base = None
        if isinstance(dir_fd, int) and dir_fd >= 0:
            try:
                base = os.readlink(f'/proc/self/fd/{dir_fd}')
            except OSError:
                base = None
        if base is None:
            try:
                base = os.getcwd()
            except OSError:
                base = '/'
        p = os.path.join(base, p)
    if follow_last:
        return os.path.realpath(p)
    p = p.rstrip('/') or '/'
    head, tail = os.path.split(p)
    if tail in ('', '.', '..'):
        return os.path.realpath(p)
    return os.path.join(os.path.realpath(head), tail)


def audit_monitor(label: str = 'install', kill_at: T.Optional[int] = None) -> T.Callable[[T.Callable[[dict], None]], None]:
    """A runner.meson monitor: records every mutating file-system event of the process it is installed in.
    kill_at=N: fault injection - the process SIGKILLs itself when its N-th event is about to happen (the audit hook
    runs before the operation, so event N itself is not carried out)."""
    def install(rec: T.Callable[[dict], None]) -> None:
        state = {'busy': False, 'n': 0}
        pid = os.getpid()

        def maybe_kill() -> None:
            if kill_at is not None and state['n'] >= kill_at:
                rec({'ev': 'killed-by-monitor', 'seq': state['n']})
                import signal as _signal
                os.kill(pid, _signal.SIGKILL)

        def hook(event: str, args: tuple) -> None:
            if state['busy']:
                return
            if event != 'open' and event not in _PATH_EVENTS and event not in _SPAWN_EVENTS:
                return
            if os.getpid() != pid:
                return   # a forked child before exec: its own events are covered by strace, not by this hook
            state['busy'] = True
            try:
                if event == 'open':
                    path, _mode, flags = (tuple(args) + (None, None, None))[:3]
                    if not isinstance(flags, int) or not (flags & _WRITE_FLAGS):
                        return
                    if isinstance(path, int):
                        return   # re-wrapping an fd that is already open
                    state['n'] += 1
                    rec({'ev': 'audit', 'op': 'open-write', 'path': _resolve(path, None, True), 'raw': repr(path),
                         'flags': flags, 'seq': state['n']})
                    maybe_kill()
                elif event in _PATH_EVENTS:
                    for ai, di, follow in _PATH_EVENTS[event]:
                        if ai >= len(args):
                            continue
                        dfd = args[di] if di is not None and di < len(args) else None
                        state['n'] += 1
                        r = {'ev': 'audit', 'op': event, 'path': _resolve(args[ai], dfd, follow), 'raw': repr(args[ai]), 'seq': state['n']}
                        if event == 'os.chmod':
                            r['mode'] = args[1]
                        if event == 'shutil.copyfile':
                            r['src'] = repr(args[0])
                        rec(r)
                    maybe_kill()
                else:
                    state['n'] += 1
                    a0 = args[0] if args else None
                    a1 = args[1] if len(args) > 1 else None
                    rec({'ev': 'spawn', 'op': event, 'exe': repr(a0)[:200], 'args': repr(a1)[:400], 'seq': state['n']})
            except Exception as e:  # never raise through the observed code
                try:
                    rec({'ev': 'monitor-error', 'op': event, 'error': repr(e)})
                except Exception:
                    pass
            finally:
                state['busy'] = False
        sys.addaudithook(hook)
        rec({'ev': 'monitor-installed', 'label': label})
    return install


# --------------------------------------------------------------------------------------------------------
# (3) snapshots
# --------------------------------------------------------------------------------------------------------

def _digest(path: str) -> T.Tuple[str, str]:
    h = hashlib.sha256()
    head = b''
    with open(path, 'rb') as f:
        first = True
        while True:
            b = f.read(1 << 16)
            if not b:
                break
            if first:
                head = b[:4]
                first = False
            h.update(b)
    return h.hexdigest()[:24], head.hex()


def snapshot(root: str, exclude: T.Sequence[str] = ()) -> T.Dict[str, list]:
    """{path relative to root ('.' = root itself): [type, perm bits, uid, gid, link target | digest | '', head, mtime_ns]}.
    A missing root gives {}.  `exclude` = absolute paths not descended into / not listed."""
    out: T.Dict[str, list] = {}
    ex = {os.path.normpath(e) for e in exclude}

    def one(p: str, rel: str) -> None:
        try:
            st = os.lstat(p)
        except FileNotFoundError:
            return
        perm = stat.S_IMODE(st.st_mode)
        if stat.S_ISLNK(st.st_mode):
            out[rel] = ['symlink', perm, st.st_uid, st.st_gid, os.readlink(p), '', st.st_mtime_ns]
        elif stat.S_ISDIR(st.st_mode):
            out[rel] = ['dir', perm, st.st_uid, st.st_gid, '', '', st.st_mtime_ns]
            try:
                names = sorted(os.listdir(p))
            except OSError:
                names = []
            for n in names:
                c = os.path.join(p, n)
                if c in ex:
                    continue
                one(c, n if rel == '.' else rel + '/' + n)
        elif stat.S_ISREG(st.st_mode):
            try:
                dg, head = _digest(p)
            except OSError as e:
                dg, head = f'<unreadable {e.errno}>', ''
            out[rel] = ['file', perm, st.st_uid, st.st_gid, dg, head, st.st_mtime_ns]
        else:
            out[rel] = ['other', perm, st.st_uid, st.st_gid, '', '', st.st_mtime_ns]
    if os.path.lexists(root) and os.path.normpath(root) not in ex:
        one(root, '.')
    return out


def snap_diff(a: T.Dict[str, list], b: T.Dict[str, list], mtime: bool = False, limit: int = 12,
              ignore_dir_mtime: bool = True) -> T.List[dict]:
    """Differences between two snapshots (type, mode, owner, target/digest; mtime on request)."""
    out: T.List[dict] = []
    for k in sorted(set(a) | set(b)):
        x, y = a.get(k), b.get(k)
        if x is None:
            out.append({'path': k, 'change': 'appeared', 'now': y[:5]})
        elif y is None:
            out.append({'path': k, 'change': 'vanished', 'was': x[:5]})
        else:
            n = 7 if (mtime and not (ignore_dir_mtime and x[0] == 'dir')) else 5
            if x[:n] != y[:n]:
                out.append({'path': k, 'change': 'modified', 'was': x[:n], 'now': y[:n]})
        if len(out) >= limit:
            break
    return out


# --------------------------------------------------------------------------------------------------------
# containment
# --------------------------------------------------------------------------------------------------------

class Zones:
    """Where a path lies relative to the places the harness knows about."""

    def __init__(self, destdir: str, container: str, bdir: str, named: T.Mapping[str, str]) -> None:
        self.destdir = os.path.normpath(destdir)
        self.container = os.path.normpath(container)
        self.logs = os.path.join(os.path.normpath(bdir), 'meson-logs')
        self.named = {k: os.path.normpath(v) for k, v in named.items()}

    @staticmethod
    def under(p: str, root: str) -> bool:
        return p == root or p.startswith(root.rstrip('/') + '/')

    def classify(self, p: str, op: str) -> T.Optional[str]:
        """None if the mutation is allowed, else the name of the zone it escaped into."""
        p = os.path.normpath(p)
        if self.under(p, self.destdir):
            return None
        if self.under(p, self.logs):
            return None
        # creating (or, for uninstall, removing again) missing ancestors of DESTDIR is part of installing into it
        if op in ('os.mkdir', 'mkdir', 'os.rmdir', 'rmdir') and self.under(self.destdir, p) and self.under(p, self.container):
            return None
        if p in ('/dev/null', '/dev/tty') or p.startswith('/proc/') or p.startswith('/dev/pts/'):
            return None
        for name, root in sorted(self.named.items(), key=lambda kv: -len(kv[1])):
            if self.under(p, root):
                return name
        return 'elsewhere'


def check_audit_containment(records: T.Sequence[dict], zones: Zones, dry_run: bool = False) -> T.Tuple[T.List[T.Tuple[str, dict]], T.Dict[str, int]]:
    """-> (violations [(mechanism, witness)], counters).  With dry_run every mutation outside meson-logs is one."""
    viol: T.List[T.Tuple[str, dict]] = []
    cnt: T.Dict[str, int] = {'events': 0, 'spawns': 0, 'in_destdir': 0, 'log': 0, 'monitor_errors': 0}
    for r in records:
        if r.get('ev') == 'spawn':
            cnt['spawns'] += 1
            continue
        if r.get('ev') == 'monitor-error':
            cnt['monitor_errors'] += 1
            continue
        if r.get('ev') != 'audit':
            continue
        cnt['events'] += 1
        p = r['path']
        op = r['op']
        if Zones.under(os.path.normpath(p), zones.logs):
            cnt['log'] += 1
            continue
        if dry_run:
            if p.startswith('/proc/') or p == '/dev/null':
                continue
            viol.append((f'dry-run:mutation:{op}', {'event': r}))
            continue
        z = zones.classify(p, op)
        if z is None:
            cnt['in_destdir'] += 1
        else:
            viol.append((f'escape:{op}:{z}', {'event': r, 'destdir': zones.destdir}))
    return viol, cnt


# --------------------------------------------------------------------------------------------------------
# (2) strace
# --------------------------------------------------------------------------------------------------------

_SC = re.compile(r'^(\d+)\s+(\w+)\((.*)\)\s+=\s+(-?\d+|\?)(?:<([^>]*)>)?(.*)$')
_STR = re.compile(r'"((?:[^"\\]|\\.)*)"(\.\.\.)?')
_FDPATH = re.compile(r'^(AT_FDCWD|\d+)<([^>]*)>')

_MUT_SYSCALLS = {
    'mkdir': 'mkdir', 'mkdirat': 'mkdir', 'rmdir': 'rmdir', 'unlink': 'unlink', 'unlinkat': 'unlink',
    'rename': 'rename', 'renameat': 'rename', 'renameat2': 'rename', 'symlink': 'symlink', 'symlinkat': 'symlink',
    'link': 'link', 'linkat': 'link', 'chmod': 'chmod', 'fchmodat': 'chmod', 'fchmodat2': 'chmod', 'chown': 'chown', 'lchown': 'chown',
    'fchownat': 'chown', 'utime': 'utime', 'utimes': 'utime', 'utimensat': 'utime', 'futimesat': 'utime',
    'truncate': 'truncate', 'mknod': 'mknod', 'mknodat': 'mknod', 'setxattr': 'setxattr', 'lsetxattr': 'setxattr',
    'removexattr': 'removexattr', 'lremovexattr': 'removexattr', 'creat': 'open-write',
}


def _unescape(s: str) -> str:
    """strace -v-less string syntax (octal escapes for non-ASCII bytes) -> str."""
    out = bytearray()
    i = 0
    while i < len(s):
        c = s[i]
        if c == '\\' and i + 1 < len(s):
            n = s[i + 1]
            if n in '01234567':
                j = i + 1
                while j < len(s) and j < i + 4 and s[j] in '01234567':
                    j += 1
                out.append(int(s[i + 1:j], 8) & 0xff)
                i = j
                continue
            if n == 'x' and i + 3 < len(s):
                out.append(int(s[i + 2:i + 4], 16))
                i += 4
                continue
            out += {'n': b'\n', 't': b'\t', 'r': b'\r', 'v': b'\v', 'f': b'\f', '"': b'"', '\\': b'\\'}.get(n, n.encode())
            i += 2
            continue
        out += c.encode('utf-8')
        i += 1
    return out.decode('utf-8', 'surrogateescape')


def parse_strace(text: str) -> T.Tuple[T.List[dict], T.Dict[str, int]]:
    """Successful mutating path-based syscalls of a `strace -f -y -s 4096 -e trace=%file` log, with absolute paths."""
    muts: T.List[dict] = []
    cnt = {'lines': 0, 'syscalls': 0, 'mutating': 0, 'unparsed': 0, 'execve': 0, 'truncated_strings': 0}
    fdtab: T.Dict[T.Tuple[str, str], str] = {}
    pending: T.Dict[str, str] = {}
    cwds: T.Dict[str, str] = {}
    for raw in text.splitlines():
        cnt['lines'] += 1
        line = raw
        m0 = re.match(r'^(\d+)\s+(.*)$', line)
        if not m0:
            continue
        pid, rest = m0.group(1), m0.group(2)
        if rest.endswith('<unfinished ...>'):
            pending[pid] = rest[:-len('<unfinished ...>')]
            continue
        mres = re.match(r'^<\.\.\. (\w+) resumed>(.*)$', rest)
        if mres:
            line = f'{pid} {pending.pop(pid, mres.group(1) + "(")}{mres.group(2)}'
        if rest.startswith('+++') or rest.startswith('---'):
            continue
        m = _SC.match(line)
        if not m:
            cnt['unparsed'] += 1
            continue
        pid, name, args, ret, retpath = m.group(1), m.group(2), m.group(3), m.group(4), m.group(5)
        cnt['syscalls'] += 1
        # current directory of the process: -y annotates AT_FDCWD with it; chdir() changes it; a new process starts
        # in the directory of the process seen last (its parent forked just before)
        mc = re.search(r'AT_FDCWD<([^>]*)>', args)
        if mc:
            cwds[pid] = _unescape(mc.group(1))
        elif name == 'chdir' and ret == '0':
            ms0 = _STR.search(args)
            if ms0:
                nd = _unescape(ms0.group(1))
                cwds[pid] = nd if nd.startswith('/') else os.path.normpath(os.path.join(cwds.get(pid, cwds.get('*', '/')), nd))
        if pid not in cwds and '*' in cwds:
            cwds[pid] = cwds['*']
        if pid in cwds:
            cwds['*'] = cwds[pid]
        if name == 'execve':
            if ret == '0':
                cnt['execve'] += 1
            continue
        if ret == '?' or int(ret) < 0:
            continue
        strs = [(_unescape(s), bool(tr)) for s, tr in _STR.findall(args)]
        if name in ('open', 'openat', 'openat2'):
            if retpath is not None:
                retpath = _unescape(retpath)
                fdtab[(pid, ret)] = retpath
            if not re.search(r'O_WRONLY|O_RDWR|O_CREAT|O_TRUNC|O_APPEND', args):
                continue
            op = 'open-write'
            path = retpath if retpath else (strs[0][0] if strs else '?')
            muts.append({'pid': pid, 'op': op, 'syscall': name, 'path': path, 'line': raw[:300]})
            cnt['mutating'] += 1
            continue
        if name not in _MUT_SYSCALLS:
            continue
        op = _MUT_SYSCALLS[name]
        # split arguments into (dirfd path | string) tokens in order
        toks: T.List[T.Tuple[str, str]] = []
        pos = 0
        a = args
        while pos < len(a):
            mfd = _FDPATH.match(a, pos)
            if mfd:
                toks.append(('fd', _unescape(mfd.group(2))))
                pos = mfd.end()
                continue
            ms = _STR.match(a, pos)
            if ms:
                if ms.group(2):
                    cnt['truncated_strings'] += 1
                toks.append(('str', _unescape(ms.group(1))))
                pos = ms.end()
                continue
            pos += 1
        cwd = cwds.get(pid)
        paths: T.List[str] = []
        lastfd: T.Optional[str] = None
        for kind, val in toks:
            if kind == 'fd':
                lastfd = val
            else:
                p = val
                if not p.startswith('/'):
                    p = os.path.join(lastfd if lastfd is not None else (cwd or '/<unknown-cwd>'), p)
                paths.append(p)
                lastfd = None
        if op in ('symlink', 'link'):
            paths = paths[-1:]          # the first string is the link content / the existing file
        if not paths:
            continue
        for p in paths:
            mfdp = re.match(r'^/proc/self/fd/(\d+)$', p)
            if mfdp and (pid, mfdp.group(1)) in fdtab:
                p = fdtab[(pid, mfdp.group(1))]
            muts.append({'pid': pid, 'op': op, 'syscall': name, 'path': os.path.normpath(p), 'line': raw[:300]})
            cnt['mutating'] += 1
    return muts, cnt


def check_strace_containment(muts: T.Sequence[dict], zones: Zones) -> T.Tuple[T.List[T.Tuple[str, dict]], int]:
    viol: T.List[T.Tuple[str, dict]] = []
    inside = 0
    for mu in muts:
        z = zones.classify(mu['path'], mu['op'])
        if z is None:
            inside += 1
        else:
            viol.append((f'escape-syscall:{mu["op"]}:{z}', {'syscall': mu, 'destdir': zones.destdir}))
    return viol, inside


# --------------------------------------------------------------------------------------------------------
# (4) oracles
# --------------------------------------------------------------------------------------------------------

def rel_of(logical: str) -> str:
    """Logical absolute install path -> key in a snapshot rooted at DESTDIR."""
    return logical.lstrip('/') or '.'


def check_tree(post: T.Dict[str, list], expected: T.Mapping[str, dict], optional: T.Set[str], src_snap: T.Mapping[str, list],
               build_snap: T.Mapping[str, list], check_root_mode: T.Optional[int] = None,
               stripped: bool = False) -> T.Tuple[T.List[T.Tuple[str, dict]], T.Dict[str, int]]:
    """Installed tree == expected tree exactly: paths, types, link targets, contents, permission bits, owners."""
    viol: T.List[T.Tuple[str, dict]] = []
    cnt = {'paths': 0, 'modes': 0, 'contents': 0, 'targets': 0, 'owners': 0, 'explicit_modes': 0, 'default_modes': 0}
    exp_by_rel = {rel_of(k): v for k, v in expected.items()}
    opt_rel = {rel_of(k) for k in optional}
    for rel, e in sorted(exp_by_rel.items()):
        cnt['paths'] += 1
        got = post.get(rel)
        kind = e.get('kind', '?')
        if got is None:
            viol.append((f'tree:missing:{kind}', {'path': e['path'], 'expected': _brief(e)}))
            continue
        if e['type'] != 'any' and got[0] != e['type']:
            viol.append((f'tree:type:{kind}', {'path': e['path'], 'expected': e['type'], 'got': got[0], 'entry': _brief(e)}))
            continue
        if e['type'] == 'symlink':
            cnt['targets'] += 1
            if got[4] != e['target']:
                viol.append((f'tree:link-target:{kind}', {'path': e['path'], 'expected': e['target'], 'got': got[4]}))
            continue
        if e['type'] == 'any':
            continue
        if e.get('mode') is not None:
            cnt['modes'] += 1
            cnt['explicit_modes' if e.get('mode_src') == 'explicit' else 'default_modes'] += 1
            if got[1] != e['mode']:
                viol.append((f'mode:{e.get("mode_src", "?")}:{kind}', {'path': e['path'], 'expected': oct(e['mode']), 'got': oct(got[1]), 'entry': _brief(e)}))
        if e.get('uid') is not None and not e.get('by_script'):
            cnt['owners'] += 1
            if (got[2], got[3]) != (e['uid'], e['gid']):
                viol.append((f'tree:owner:{kind}', {'path': e['path'], 'expected': [e['uid'], e['gid']], 'got': [got[2], got[3]], 'entry': _brief(e)}))
        if e['type'] == 'file':
            src = e.get('src')
            content = e.get('content', 'src')
            if content == 'elf' or (stripped and e.get('can_strip')):
                cnt['contents'] += 1
                if got[5] != '7f454c46':
                    viol.append((f'tree:content:{kind}', {'path': e['path'], 'why': 'not an ELF file', 'head': got[5]}))
                elif not stripped and src and src.startswith('build:'):
                    b = build_snap.get(src[6:])
                    if b is None:
                        viol.append((f'tree:content:{kind}', {'path': e['path'], 'why': 'built file missing', 'src': src}))
            elif content == 'src' and src:
                cnt['contents'] += 1
                s = build_snap.get(src[6:]) if src.startswith('build:') else src_snap.get(src)
                if s is None:
                    viol.append((f'tree:content:{kind}', {'path': e['path'], 'why': 'source of the rule not found by the oracle', 'src': src}))
                elif s[4] != got[4]:
                    viol.append((f'tree:content:{kind}', {'path': e['path'], 'why': 'digest differs from the source', 'src': src}))
    for rel in sorted(set(post) - set(exp_by_rel) - opt_rel - {'.'}):
        viol.append(('tree:unexpected', {'path': '/' + rel, 'got': post[rel][:5]}))
    if check_root_mode is not None and '.' in post and post['.'][1] != check_root_mode:
        viol.append(('mode:ancestor:destdir-root', {'path': '.', 'expected': oct(check_root_mode), 'got': oct(post['.'][1])}))
    return viol, cnt


def _brief(e: T.Mapping[str, T.Any]) -> dict:
    return {k: e[k] for k in ('type', 'kind', 'rule', 'tag', 'subproject', 'mode_src', 'src') if k in e}


def read_log(path: str) -> T.Tuple[T.List[str], T.List[str]]:
    """install-log.txt -> (named paths in order, comment lines).  Lines are taken verbatim minus the newline."""
    names: T.List[str] = []
    comments: T.List[str] = []
    try:
        with open(path, encoding='utf-8', newline='\n') as f:
            for line in f:
                line = line[:-1] if line.endswith('\n') else line
                if line.startswith('#'):
                    comments.append(line)
                elif line:
                    names.append(line)
    except FileNotFoundError:
        pass
    return names, comments


def check_log(names: T.Sequence[str], pre: T.Mapping[str, list], post: T.Mapping[str, list], container: str,
              not_logged: T.Set[str]) -> T.Tuple[T.List[T.Tuple[str, dict]], T.Dict[str, int]]:
    """The log names everything this run created (pre/post = snapshots of `container`), and nothing that uninstall
    must not remove: a named path exists and is either new or not a directory."""
    viol: T.List[T.Tuple[str, dict]] = []
    named = set(names)
    cnt = {'created': 0, 'named': len(names)}

    def absof(rel: str) -> str:
        return container if rel == '.' else os.path.join(container, rel)
    for rel in sorted(set(post) - set(pre)):
        p = absof(rel)
        if p in not_logged:
            continue
        cnt['created'] += 1
        if p not in named:
            viol.append((f'log:unlisted:{post[rel][0]}', {'path': p, 'object': post[rel][:5]}))
    relof = {absof(rel): rel for rel in post}
    for n in names:
        rel = relof.get(n)
        if rel is None:
            viol.append(('log:phantom', {'path': n}))
        elif rel in pre and post[rel][0] == 'dir':
            viol.append(('log:preexisting-dir', {'path': n}))
    # uninstall removes in log order: a directory must come after everything inside it
    pos = {n: i for i, n in enumerate(names)}
    for n in names:
        d = os.path.dirname(n)
        if d in pos and pos[d] < pos[n]:
            viol.append(('log:directory-before-content', {'dir': d, 'content': n}))
            break
    return viol, cnt


def check_uninstalled(pre: T.Mapping[str, list], after: T.Mapping[str, list], leftovers_allowed: T.Set[str],
                      dirs_may_remain: bool = False) -> T.List[T.Tuple[str, dict]]:
    """After uninstall the container equals the pre-install snapshot (plus what install scripts made).
    dirs_may_remain: after a re-install only non-directories are required to disappear."""
    viol: T.List[T.Tuple[str, dict]] = []
    for rel in sorted(set(after) - set(pre)):
        if rel in leftovers_allowed:
            continue
        if dirs_may_remain and after[rel][0] == 'dir':
            continue
        viol.append((f'uninstall:leftover:{after[rel][0]}', {'path': rel, 'object': after[rel][:5]}))
    for rel in sorted(set(pre) - set(after)):
        viol.append(('uninstall:removed-foreign', {'path': rel, 'object': pre[rel][:5]}))
    for rel in sorted(set(pre) & set(after)):
        if pre[rel][:5] != after[rel][:5]:
            viol.append(('uninstall:modified-foreign', {'path': rel, 'was': pre[rel][:5], 'now': after[rel][:5]}))
    return viol


def check_log_after_kill(names: T.Sequence[str], pre: T.Mapping[str, list], post: T.Mapping[str, list], container: str,
                         not_logged: T.Set[str], in_flight: T.Set[str], max_in_flight: int) -> T.Tuple[T.List[T.Tuple[str, dict]], T.Dict[str, int], T.Set[str]]:
    """An install that was SIGKILLed: every file/symlink created so far is named by the log (each line is written and
    flushed right after the object is made), except at most the one object being made when the kill came.
    Directories are logged only when the installer finishes, so nothing is demanded for them.
    -> (violations, counters, the tolerated unlisted paths)."""
    viol: T.List[T.Tuple[str, dict]] = []
    named = set(names)

    def absof(rel: str) -> str:
        return container if rel == '.' else os.path.join(container, rel)
    created = {absof(rel): post[rel] for rel in set(post) - set(pre) if post[rel][0] != 'dir'}
    unlisted = {p for p in created if p not in named and p not in not_logged}
    cnt = {'created_nondirs': len(created), 'named': len(names), 'unlisted': len(unlisted)}
    bad = unlisted - in_flight
    if len(unlisted) > max_in_flight:
        bad = unlisted
    for p in sorted(bad)[:4]:
        viol.append((f'kill:log-misses-created:{created[p][0]}', {'path': p, 'created_nondirs': len(created), 'log_names': len(names),
                                                                    'unlisted_total': len(unlisted)}))
    existing = {absof(rel) for rel in post}
    for n in names:
        if n not in existing:
            viol.append(('kill:log-phantom', {'path': n}))
            break
    return viol, cnt, (unlisted - bad)
