"""C03 monitors installed inside the configuring process (runner.meson(monitors=[install])).

All of them record and return: they never raise through meson and never change what meson computes.
  * NinjaBuildElement.write  -> {'k': 'elem', rule, use_rsp, elems, text}: what meson was asked to emit and the lines
    it emitted (read back by mini-ninja + the real /bin/sh, or buildargv, in the driver: vf/checks/c03.elem_roundtrip)
  * layer contracts, evaluated on every element string that passes through write():
      shlex.split(quote_func(x)) == [x]                (the function the backend really calls)
      buildargv(gcc_rsp_quote(x)) == [x]
      mini-ninja-unescape(ninja_quote(q)) == q          for q = the shell-quoted spelling
    failures -> {'k': 'contract', ...}; evaluation counts are flushed at child exit ({'k': 'counts'}).
  * Backend.as_meson_exe_cmdline -> {'k': 'exe', ...}: string arguments in, command out, and (when a pickle was
    written) the unpickled ExecutableSerialisation's cmd_args / capture / feed / env.
"""
from __future__ import annotations

import io
import pickle
import shlex
import typing as T


def install(rec: T.Callable[[dict], None]) -> None:
    from mesonbuild.backend import ninjabackend as nb
    from mesonbuild.backend import backends as be
    from vf import mininja as mn
    from vf import runner
    from vf.ref import buildargv as ba

    # ninjabackend reads MESON_RSP_THRESHOLD once, at import; the fork server imported it long ago.  Re-run that
    # module-level statement under this child's environment (what a fresh `meson setup` process would have done).
    from mesonbuild import mesonlib
    nb.rsp_threshold = mesonlib.get_rsp_threshold()

    counts: T.Dict[str, int] = {'elem': 0, 'quote_arg': 0, 'rsp_quote': 0, 'ninja_quote': 0, 'exe': 0, 'exe_pickled': 0}
    seen: T.Set[str] = set()

    def ninja_unescape(q: str) -> T.Optional[str]:
        try:
            m = mn.parse_manifest_text('v = ' + q + '\n')
            return m.root.vars.get('v')
        except Exception:
            return None

    def contracts(x: str) -> None:
        if x in seen:
            return
        seen.add(x)
        try:
            q = nb.quote_func(x)
            counts['quote_arg'] += 1
            try:
                back = shlex.split(q)
            except ValueError as e:
                back = ['<shlex error: %s>' % e]
            if back != [x]:
                rec({'k': 'contract', 'name': 'quote_arg', 'x': x, 'quoted': q, 'back': back})
            r = nb.gcc_rsp_quote(x)
            counts['rsp_quote'] += 1
            back = ba.buildargv(r)
            if back != [x]:
                rec({'k': 'contract', 'name': 'gcc_rsp_quote', 'x': x, 'quoted': r, 'back': back})
            for spelled in ((q, r) if '\n' not in x else ()):
                nq = nb.ninja_quote(spelled)
                counts['ninja_quote'] += 1
                back1 = ninja_unescape(nq)
                if back1 != spelled:
                    rec({'k': 'contract', 'name': 'ninja_quote', 'x': spelled, 'quoted': nq, 'back': back1})
        except Exception as e:  # a monitor problem is data, not a crash
            rec({'k': 'monitor-error', 'where': 'contracts', 'err': repr(e), 'x': x})

    orig_write = nb.NinjaBuildElement.write

    def write(self: T.Any, outfile: T.TextIO) -> None:
        buf = io.StringIO()
        try:
            orig_write(self, buf)
        except BaseException:
            try:
                outfile.write(buf.getvalue())
                rec({'k': 'elem-raised', 'rule': self.rulename, 'outs': list(self.outfilenames)})
            except Exception:
                pass
            raise
        text = buf.getvalue()
        outfile.write(text)
        try:
            if self.rulename != 'phony':
                counts['elem'] += 1
                elems = [[name, [str(i) for i in el]] for name, el in self.elems]
                rec({'k': 'elem', 'rule': self.rulename, 'use_rsp': bool(self._should_use_rspfile),
                     'outs': list(self.outfilenames), 'elems': elems, 'text': text})
                for name, el in self.elems:
                    if name in nb.raw_names:
                        continue
                    for i in el:
                        if isinstance(i, str):
                            contracts(i)
        except Exception as e:
            rec({'k': 'monitor-error', 'where': 'write', 'err': repr(e)})

    nb.NinjaBuildElement.write = write  # type: ignore[method-assign]

    orig_exe = be.Backend.as_meson_exe_cmdline

    holder: T.Dict[str, T.Any] = {'backend': None, 'samples': []}

    def as_meson_exe_cmdline(self: T.Any, exe: T.Any, cmd_args: T.Any, *a: T.Any, **kw: T.Any) -> T.Any:
        cmd_args = list(cmd_args)
        res = orig_exe(self, exe, cmd_args, *a, **kw)
        try:
            counts['exe'] += 1
            holder['backend'] = self
            strs = [x for x in cmd_args if isinstance(x, str)]
            if strs and len(holder['samples']) < 6:
                holder['samples'].append(strs)
            cmd, reason = res
            env = kw.get('env')
            info: T.Dict[str, T.Any] = {
                'k': 'exe', 'reason': reason,
                'in_args': [x if isinstance(x, str) else None for x in cmd_args],
                'out': [x if isinstance(x, str) else None for x in cmd],
                'capture': kw.get('capture'), 'feed': kw.get('feed'),
                'env': env.get_env({}) if env is not None else None,
            }
            if len(cmd) >= 4 and list(cmd[-4:-1]) == ['--internal', 'exe', '--unpickle']:
                counts['exe_pickled'] += 1
                with open(cmd[-1], 'rb') as f:
                    es = pickle.load(f)
                info['pickled'] = {'cmd_args': list(es.cmd_args), 'capture': es.capture, 'feed': es.feed,
                                   'env': es.env.get_env({}) if es.env is not None else None,
                                   'workdir': es.workdir}
            rec(info)
        except Exception as e:
            rec({'k': 'monitor-error', 'where': 'exe', 'err': repr(e)})
        return res

    be.Backend.as_meson_exe_cmdline = as_meson_exe_cmdline  # type: ignore[method-assign]

    def flush(rec2: T.Callable[[dict], None]) -> None:
        # the response file meson itself writes for `rspable` custom targets (only modules create those, so no
        # build definition reaches it here): exercise the real writer on argument lists this configuration saw
        import os
        try:
            be_ = holder['backend']
            if be_ is not None and os.environ.get('MESON_RSP_THRESHOLD') == '0':
                for strs in holder['samples']:
                    es = be_.get_executable_serialisation(['c03-prog'] + strs, can_use_rsp_file=True)
                    counts['exe_rsp'] = counts.get('exe_rsp', 0) + 1
                    info: T.Dict[str, T.Any] = {'k': 'exe-rsp', 'args': strs, 'cmd_args': list(es.cmd_args)}
                    last = es.cmd_args[-1] if es.cmd_args else ''
                    if last.startswith('@') and os.path.isfile(last[1:]):
                        with open(last[1:], encoding='utf-8', newline='') as f:
                            info['content'] = f.read()
                    rec2(info)
        except Exception as e:
            rec2({'k': 'monitor-error', 'where': 'exe-rsp', 'err': repr(e)})
        rec2({'k': 'counts', 'counts': counts})
    runner.at_child_exit(flush)
