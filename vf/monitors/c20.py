"""C20 monitors: contracts around the real mesonbuild.cargo.version / mesonbuild.cargo.cfg.

install() replaces attributes of the imported modules with observing wrappers.  A wrapper calls
the real function, then hands (inputs, outcome) to an icontract-decorated observation function;
a breached contract is *recorded* (mechanism + witness), never raised through the observed code.
Counters (`COUNTS`) say how often each contract was evaluated; workers return take() to the parent.

Contracts
  semver-cmp      result of SemVer.__lt__/__gt__/__le__/__ge__/__eq__/__ne__ is a bool; the converse
                  operator agrees ((a<b) == (b>a), (a<=b) == (b>=a), == and != symmetric);
                  le == (lt or eq), ge == (gt or eq), ne == not eq; lt and gt exclude each other and
                  one of lt/eq/gt holds (totality).
  cargo_parse     returns a callable; never raises for the requirement grammar of the check.
  accept          the predicate returned by cargo_parse returns a bool and does not raise.
  lexer           token conservation: every character of the input except blanks outside "..." is
                  accounted for by exactly one token (keywords 3 chars, punctuation 1, identifier its
                  text, string its text + 2 quotes); any loss is a lexing defect (blank inside a string
                  dropped, unterminated quote dropped).
  cfg-outcome     cfg.lexer / cfg.parse / cfg.eval_cfg raise nothing but MesonException
                  (MesonBugException counts as an internal error); parse returns an IR node,
                  eval_cfg returns a bool.
"""
from __future__ import annotations

import typing as T

import icontract

COUNTS: T.Dict[str, int] = {}
BREACHES: T.List[T.Dict[str, T.Any]] = []
MAX_BREACHES = 400
_STATE: T.Dict[str, T.Any] = {'installed': False}


class Breach(Exception):
    def __init__(self, mechanism: str) -> None:
        super().__init__(mechanism)
        self.mechanism = mechanism


def _count(name: str, n: int = 1) -> None:
    COUNTS[name] = COUNTS.get(name, 0) + n


def _record(mechanism: str, witness: T.Dict[str, T.Any]) -> None:
    _count('breach:' + mechanism)
    if len(BREACHES) < MAX_BREACHES:
        w = dict(witness)
        w['contract'] = mechanism
        BREACHES.append(w)


def take() -> T.Tuple[T.Dict[str, int], T.List[T.Dict[str, T.Any]]]:
    """Counters and breaches since the last take() (used by forked workers)."""
    c, b = dict(COUNTS), list(BREACHES)
    COUNTS.clear()
    BREACHES.clear()
    return c, b


# ---- SemVer comparison contracts ------------------------------------------------------------
_ORIG: T.Dict[str, T.Callable[..., T.Any]] = {}
_CONVERSE = {'__lt__': '__gt__', '__gt__': '__lt__', '__le__': '__ge__', '__ge__': '__le__',
             '__eq__': '__eq__', '__ne__': '__ne__'}


def _o(name: str, a: T.Any, b: T.Any) -> T.Any:
    return _ORIG[name](a, b)


def cmp_result_is_bool(result: T.Any) -> bool:
    return result is True or result is False


def cmp_converse_agrees(a: T.Any, b: T.Any, op: str, result: T.Any) -> bool:
    return _o(_CONVERSE[op], b, a) == result


def cmp_family_consistent(a: T.Any, b: T.Any, op: str, result: T.Any) -> bool:
    lt, gt, eq = _o('__lt__', a, b), _o('__gt__', a, b), _o('__eq__', a, b)
    if (lt, gt, eq).count(True) != 1:
        return False
    want = {'__lt__': lt, '__gt__': gt, '__eq__': eq, '__ne__': not eq,
            '__le__': lt or eq, '__ge__': gt or eq}[op]
    return result == want


@icontract.require(cmp_result_is_bool, error=lambda: Breach('semver-cmp-result-not-bool'))
@icontract.require(cmp_converse_agrees, error=lambda: Breach('semver-cmp-converse-disagrees'))
@icontract.require(cmp_family_consistent, error=lambda: Breach('semver-cmp-operators-inconsistent'))
def observe_cmp(a: T.Any, b: T.Any, op: str, result: T.Any) -> None:
    _count('contract:semver-cmp')


def _wrap_cmp(cls: type, name: str) -> None:
    orig = getattr(cls, name)
    _ORIG[name] = orig

    def wrapper(self: T.Any, other: T.Any) -> T.Any:
        r = orig(self, other)
        if isinstance(other, cls):
            try:
                observe_cmp(self, other, name, r)
            except Breach as e:
                _record(e.mechanism, {'op': name, 'lhs': repr(self), 'rhs': repr(other),
                                      'lhs_v': list(self._v), 'rhs_v': list(other._v), 'result': repr(r)})
            except Exception as e:  # the contract itself failed on the real objects: that is a finding too
                _record('semver-cmp-contract-error', {'op': name, 'lhs': repr(self), 'rhs': repr(other),
                                                      'error': f'{type(e).__name__}: {e}'})
        return r
    wrapper.__name__ = name
    setattr(cls, name, wrapper)


# ---- cargo_parse / accept contracts -----------------------------------------------------------
def parse_returns_callable(result: T.Any) -> bool:
    return callable(result)


def accept_returns_bool(result: T.Any) -> bool:
    return result is True or result is False


@icontract.require(parse_returns_callable, error=lambda: Breach('cargo-parse-not-callable'))
def observe_parse(req: str, result: T.Any) -> None:
    _count('contract:cargo_parse')


@icontract.require(accept_returns_bool, error=lambda: Breach('accept-result-not-bool'))
def observe_accept(req: str, ver: str, result: T.Any) -> None:
    _count('contract:accept')


def _wrap_cargo_parse(mod: T.Any) -> None:
    orig = mod.cargo_parse
    _ORIG['cargo_parse'] = orig
    cache: T.Dict[str, T.Callable[[str], bool]] = {}

    def cargo_parse(cargo_ver: str) -> T.Callable[[str], bool]:
        if cargo_ver in cache:
            return cache[cargo_ver]
        try:
            pred = orig(cargo_ver)
        except Exception as e:
            _count('contract:cargo_parse')
            _record('cargo-parse-raised', {'req': cargo_ver, 'error': f'{type(e).__name__}: {e}'})
            raise
        try:
            observe_parse(cargo_ver, pred)
        except Breach as e:
            _record(e.mechanism, {'req': cargo_ver, 'result': repr(pred)})
            return pred

        def accept(ver: str) -> bool:
            try:
                r = pred(ver)
            except Exception as e:
                _count('contract:accept')
                _record('accept-raised', {'req': cargo_ver, 'ver': ver, 'error': f'{type(e).__name__}: {e}'})
                raise
            try:
                observe_accept(cargo_ver, ver, r)
            except Breach as e2:
                _record(e2.mechanism, {'req': cargo_ver, 'ver': ver, 'result': repr(r)})
            return r
        cache[cargo_ver] = accept
        return accept
    mod.cargo_parse = cargo_parse


# ---- cfg contracts -------------------------------------------------------------------------
_FIXED_WEIGHT = {'LPAREN': 1, 'RPAREN': 1, 'COMMA': 1, 'EQUAL': 1, 'ALL': 3, 'ANY': 3, 'NOT': 3}


def _token_weight(tok: T.Tuple[T.Any, T.Optional[str]]) -> T.Optional[int]:
    kind = getattr(tok[0], 'name', None)
    w = _FIXED_WEIGHT.get(kind)
    if w is not None:
        return w
    if kind == 'IDENTIFIER':
        return len(tok[1] or '')
    if kind == 'STRING':
        return len(tok[1] or '') + 2
    return None


def tokens_well_typed(tokens: T.List[T.Any]) -> bool:
    return all(isinstance(t, tuple) and len(t) == 2 and _token_weight(t) is not None for t in tokens)


def tokens_conserve_input(raw: str, tokens: T.List[T.Any]) -> bool:
    # characters that must end up in some token: everything except blanks outside "..."
    # (inside quotes - also after a quote that is never closed - every character counts)
    significant = 0
    in_string = False
    for ch in raw:
        if ch == '"':
            in_string = not in_string
            significant += 1
        elif in_string or not ch.isspace():
            significant += 1
    return sum(_token_weight(t) or 0 for t in tokens) == significant


@icontract.require(tokens_well_typed, error=lambda: Breach('lexer-token-malformed'))
@icontract.require(tokens_conserve_input, error=lambda: Breach('lexer-loses-input'))
def observe_lex(raw: str, tokens: T.List[T.Any]) -> None:
    _count('contract:lexer-conservation')


def _wrap_lexer(mod: T.Any, meson_exc: type) -> None:
    orig = mod.lexer
    _ORIG['lexer'] = orig

    def lexer(raw: str) -> T.Iterator[T.Any]:
        # materialise so that the stream can be observed as a whole; parse() only iterates it
        try:
            toks = list(orig(raw))
        except meson_exc:
            _count('contract:lexer-conservation')
            raise
        except Exception as e:
            _record('cfg-internal-error', {'where': 'lexer', 'raw': raw, 'error': f'{type(e).__name__}: {e}'})
            raise
        try:
            observe_lex(raw, toks)
        except Breach as e:
            _record(e.mechanism, {'raw': raw, 'tokens': [(getattr(t[0], 'name', repr(t[0])), t[1]) for t in toks
                                                         if isinstance(t, tuple) and len(t) == 2]})
        return iter(toks)
    mod.lexer = lexer


# exception-type / result-type policy of cfg.parse and cfg.eval_cfg
_IR: T.Dict[str, T.Any] = {}


def outcome_is_value_or_meson_exception(kind: str) -> bool:
    return kind in ('value', 'meson-exception')


def value_has_documented_type(fn: str, kind: str, value: T.Any) -> bool:
    if kind != 'value':
        return True
    if fn == 'eval_cfg':
        return value is True or value is False
    return isinstance(value, _IR['base'])


@icontract.require(outcome_is_value_or_meson_exception, error=lambda: Breach('cfg-foreign-exception'))
@icontract.require(value_has_documented_type, error=lambda: Breach('cfg-result-type'))
def observe_cfg_outcome(fn: str, kind: str, value: T.Any) -> None:
    _count('contract:cfg-outcome-policy')


def _wrap_cfg_fn(mod: T.Any, name: str, meson_exc: type, bug_exc: T.Optional[type]) -> None:
    orig = getattr(mod, name)
    _ORIG[name] = orig

    def wrapper(*args: T.Any, **kwargs: T.Any) -> T.Any:
        exc: T.Optional[BaseException] = None
        value: T.Any = None
        try:
            value = orig(*args, **kwargs)
            kind = 'value'
        except Exception as e:
            exc = e
            if bug_exc is not None and isinstance(e, bug_exc):
                kind = 'foreign:' + type(e).__name__
            elif isinstance(e, meson_exc):
                kind = 'meson-exception'
            else:
                kind = 'foreign:' + type(e).__name__
        try:
            observe_cfg_outcome(name, kind, value)
        except Breach as b:
            text = args[0] if args and isinstance(args[0], str) else None
            _record(b.mechanism, {'fn': name, 'raw': text, 'outcome': kind,
                                  'detail': repr(exc if exc is not None else value)[:200]})
        if exc is not None:
            raise exc
        return value
    wrapper.__name__ = name
    setattr(mod, name, wrapper)


def install(version_mod: T.Any, cfg_mod: T.Any, meson_exc: type, bug_exc: T.Optional[type] = None) -> None:
    if _STATE['installed']:
        return
    _STATE['installed'] = True
    for name in _CONVERSE:
        _wrap_cmp(version_mod.SemVer, name)
    _wrap_cargo_parse(version_mod)
    _wrap_lexer(cfg_mod, meson_exc)
    _IR['base'] = cfg_mod.IR
    _wrap_cfg_fn(cfg_mod, 'parse', meson_exc, bug_exc)
    _wrap_cfg_fn(cfg_mod, 'eval_cfg', meson_exc, bug_exc)


def original(name: str) -> T.Callable[..., T.Any]:
    return _ORIG[name]
