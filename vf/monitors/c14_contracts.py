"""Contracts on the real template functions of mesonbuild.utils.universal (property C14).

install() replaces do_replacement_meson / do_replacement_cmake / do_define_meson / do_conf_str /
do_conf_file / dump_conf_header in mesonbuild.utils.universal AND in mesonbuild.mesonlib (which re-exports
them by value) by wrappers that call the original, then evaluate icontract postconditions on
(arguments, result) through a pass-through function.  A broken contract is RECORDED (mechanism + witness),
never raised through meson; exceptions of the original propagate untouched.

Every condition is a named function; every evaluation is counted in REC.counts['contract:<fn>:<cond>'].
"""
from __future__ import annotations

import os
import typing as T

from vf import common

common.ensure_deps()
import icontract  # noqa: E402

from vf.ref import reftemplate as R  # noqa: E402


class Recorder:
    def __init__(self) -> None:
        self.reset()

    def reset(self) -> None:
        self.counts: T.Dict[str, int] = {}
        self.violations: T.List[dict] = []
        self.events: T.List[dict] = []
        self.keep_events = False

    def count(self, k: str, n: int = 1) -> None:
        self.counts[k] = self.counts.get(k, 0) + n

    def violation(self, mechanism: str, witness: dict) -> None:
        self.count('contract-broken:' + mechanism)
        if sum(1 for v in self.violations if v['mechanism'] == mechanism) < 3:
            self.violations.append({'mechanism': mechanism, 'witness': witness})

    def snapshot(self) -> dict:
        return {'counts': dict(self.counts), 'violations': list(self.violations)}


REC = Recorder()


class ContractBroken(Exception):
    def __init__(self, fn: str, cond: str) -> None:
        super().__init__(f'{fn}:{cond}')
        self.fn = fn
        self.cond = cond


def plain_data(confdata: T.Any) -> T.Dict[str, T.Any]:
    vals = getattr(confdata, 'values', None)
    if isinstance(vals, dict):
        return {k: v[0] for k, v in vals.items()}
    return {k: (v[0] if isinstance(v, tuple) else v) for k, v in dict(confdata).items()}


# ------------------------------------------------------------------------------------------------
# named conditions: cond(result, a) where a is the tuple of normalised arguments
# ------------------------------------------------------------------------------------------------
# do_replacement_meson: a = (line, data)
def repl_result_types(result: T.Any, a: tuple) -> bool:
    return isinstance(result, tuple) and len(result) == 2 and isinstance(result[0], str) and \
        isinstance(result[1], set) and all(isinstance(m, str) for m in result[1])


def repl_missing_are_undefined(result: T.Any, a: tuple) -> bool:
    return all(m not in a[1] for m in result[1])


def repl_terminator_preserved(result: T.Any, a: tuple) -> bool:
    e = R.eol_of(a[0])
    return e == '' or result[0].endswith(e)


def repl_without_at_is_identity(result: T.Any, a: tuple) -> bool:
    return '@' in a[0] or (result[0] == a[0] and not result[1])


def repl_meson_agrees_with_scanner(result: T.Any, a: tuple) -> bool:
    sc = R.scan_meson(a[0], a[1])
    if sc.flags:
        REC.count('contract-soft:do_replacement_meson')
        return sc.missing == result[1]
    return sc.out == result[0] and sc.missing == result[1]


def repl_cmake_without_markers_is_identity(result: T.Any, a: tuple) -> bool:
    return '@' in a[0] or '$' in a[0] or (result[0] == a[0] and not result[1])


# do_define_meson: a = (line, data)
def define_is_one_terminated_line(result: T.Any, a: tuple) -> bool:
    return isinstance(result, str) and result.endswith('\n')


def define_has_documented_form(result: T.Any, a: tuple) -> bool:
    lr = R.render_line(a[0], a[1], R.MESON)
    if lr.kind != 'define':
        REC.count('contract-unspec:do_define_meson')
        return True
    return R.body_matches(lr, R.split_eol(result)[0])


# do_conf_str: a = (lines, data, fmt)
def confstr_result_types(result: T.Any, a: tuple) -> bool:
    return isinstance(result, tuple) and len(result) == 3 and isinstance(result[0], list) and \
        all(isinstance(x, str) for x in result[0]) and isinstance(result[1], set) and isinstance(result[2], bool)


def confstr_line_count_preserved(result: T.Any, a: tuple) -> bool:
    return len(result[0]) == len(a[0])


def confstr_inert_lines_verbatim(result: T.Any, a: tuple) -> bool:
    for src, out in zip(a[0], result[0]):
        if '@' not in src and '$' not in src and '#' not in src and src != out:
            return False
    return True


def confstr_missing_are_undefined(result: T.Any, a: tuple) -> bool:
    return all(m not in a[1] for m in result[1])


# dump_conf_header: a = (ofilename, data, output_format, macro_name)
def header_defines_exactly_the_keys_sorted_once(result: T.Any, a: tuple) -> bool:
    try:
        with open(a[0], encoding='utf-8', newline='') as f:
            text = f.read()
    except OSError:
        return False
    if any(isinstance(v, str) and ('\n' in v or '\r' in v) for v in a[1].values()):
        REC.count('contract-unspec:dump_conf_header')
        return True
    return R.check_header(text, a[1], a[2], a[3]) is None


def header_leaves_no_temporary(result: T.Any, a: tuple) -> bool:
    return not os.path.exists(a[0] + '~')


CONDITIONS: T.Dict[str, T.List[T.Callable[[T.Any, tuple], bool]]] = {
    'do_replacement_meson': [repl_result_types, repl_missing_are_undefined, repl_terminator_preserved,
                             repl_without_at_is_identity, repl_meson_agrees_with_scanner],
    'do_replacement_cmake': [repl_result_types, repl_missing_are_undefined, repl_terminator_preserved,
                             repl_cmake_without_markers_is_identity],
    'do_define_meson': [define_is_one_terminated_line, define_has_documented_form],
    'do_conf_str': [confstr_result_types, confstr_line_count_preserved, confstr_inert_lines_verbatim,
                    confstr_missing_are_undefined],
    'dump_conf_header': [header_defines_exactly_the_keys_sorted_once, header_leaves_no_temporary],
}


def _counted(fn: str, cond: T.Callable[[T.Any, tuple], bool]) -> T.Callable[[T.Any, tuple], bool]:
    key = f'contract:{fn}:{cond.__name__}'

    def counted(result: T.Any, a: tuple) -> bool:
        REC.counts[key] = REC.counts.get(key, 0) + 1
        return cond(result, a)
    counted.__name__ = cond.__name__
    return counted


def _error(fn: str, name: str) -> T.Callable[[T.Any, tuple], Exception]:
    def make(result: T.Any, a: tuple) -> Exception:
        return ContractBroken(fn, name)
    return make


def _make_checked(fn: str) -> T.Callable[[T.Any, tuple], T.Any]:
    """Pass-through function carrying fn's postconditions as icontract.ensure decorators."""
    def observed_call(observed: T.Any, a: tuple) -> T.Any:
        return observed
    f: T.Callable[[T.Any, tuple], T.Any] = observed_call
    for cond in CONDITIONS[fn]:     # icontract evaluates the innermost decorator first -> list order
        f = icontract.ensure(_counted(fn, cond), description=cond.__name__, error=_error(fn, cond.__name__))(f)
    return f


def classify(fn: str, cond: str, a: tuple, result: T.Any) -> str:
    """Mechanism key of a broken contract (WHY), narrow for the known deviations."""
    try:
        if fn == 'do_define_meson' and cond == 'define_has_documented_form':
            lr = R.render_line(a[0], a[1], R.MESON)
            v = a[1].get(lr.name) if lr.name is not None else None
            if isinstance(v, str):
                body = R.rstrip_blank(R.split_eol(result)[0])
                for b in lr.bodies:
                    if R.rstrip_blank(R.scan_meson(b.strip(), a[1]).out) == body:
                        return 'mesondefine-str-value-rescanned'
    except Exception:
        pass
    return f'contract:{fn}:{cond}'


_ORIG: T.Dict[str, T.Callable[..., T.Any]] = {}
_CHECKED: T.Dict[str, T.Callable[[T.Any, tuple], T.Any]] = {}


def _normalise(fn: str, args: tuple, kw: dict) -> tuple:
    if fn == 'do_replacement_meson':     # (regex, line, confdata)
        line = args[1] if len(args) > 1 else kw['line']
        cd = args[2] if len(args) > 2 else kw['confdata']
        return (line, plain_data(cd))
    if fn == 'do_replacement_cmake':     # (line, at_only, confdata)
        line = args[0] if args else kw['line']
        cd = args[2] if len(args) > 2 else kw['confdata']
        return (line, plain_data(cd))
    if fn == 'do_define_meson':          # (regex, line, confdata, subproject)
        line = args[1] if len(args) > 1 else kw['line']
        cd = args[2] if len(args) > 2 else kw['confdata']
        return (line, plain_data(cd))
    if fn == 'do_conf_str':              # (src, data, confdata, variable_format, subproject)
        lines = args[1] if len(args) > 1 else kw['data']
        cd = args[2] if len(args) > 2 else kw['confdata']
        fmt = args[3] if len(args) > 3 else kw['variable_format']
        return (list(lines), plain_data(cd), fmt)
    if fn == 'dump_conf_header':         # (ofilename, cdata, output_format, macro_name)
        of = args[0] if args else kw['ofilename']
        cd = args[1] if len(args) > 1 else kw['cdata']
        fmt = args[2] if len(args) > 2 else kw['output_format']
        mn = args[3] if len(args) > 3 else kw['macro_name']
        return (of, plain_data(cd), fmt, mn)
    raise KeyError(fn)


def _wrap(fn: str, orig: T.Callable[..., T.Any]) -> T.Callable[..., T.Any]:
    checked = _CHECKED[fn]

    def wrapper(*args: T.Any, **kw: T.Any) -> T.Any:
        a = None
        try:
            a = _normalise(fn, args, kw)    # before the call: do_conf_str's list is not mutated, but be safe
        except Exception as e:
            REC.count('contract-internal-error:' + type(e).__name__)
        res = orig(*args, **kw)
        if a is None:
            return res
        try:
            REC.counts['calls:' + fn] = REC.counts.get('calls:' + fn, 0) + 1
            checked(res, a)
        except ContractBroken as e:
            mech = classify(fn, e.cond, a, res)
            REC.violation(mech, {'function': fn, 'condition': e.cond, 'args': _jsonable(a), 'result': _jsonable(res)})
        except Exception as e:      # a bug of the monitor must never reach meson
            REC.count('contract-internal-error:' + type(e).__name__)
        return res
    wrapper.__name__ = orig.__name__
    wrapper.__wrapped_by_c14__ = True   # type: ignore[attr-defined]
    return wrapper


def _jsonable(x: T.Any) -> T.Any:
    if isinstance(x, (str, int, bool)) or x is None:
        return x
    if isinstance(x, (set, frozenset)):
        return sorted(map(str, x))
    if isinstance(x, (list, tuple)):
        return [_jsonable(y) for y in x]
    if isinstance(x, dict):
        return {str(k): _jsonable(v) for k, v in x.items()}
    return repr(x)


def install() -> None:
    """Idempotent.  Must be called after common.use_repo()."""
    import mesonbuild.utils.universal as U
    import mesonbuild.mesonlib as ML
    for fn in CONDITIONS:
        cur = getattr(U, fn)
        if getattr(cur, '__wrapped_by_c14__', False):
            continue
        _ORIG[fn] = cur
        _CHECKED[fn] = _make_checked(fn)
        w = _wrap(fn, cur)
        setattr(U, fn, w)
        if hasattr(ML, fn):
            setattr(ML, fn, w)
    # recorder (not a contract) for the file level: what configure_file() handed down
    cur = U.do_conf_file
    if not getattr(cur, '__wrapped_by_c14__', False):
        orig_cf = cur

        def do_conf_file(src: str, dst: str, confdata: T.Any, variable_format: str, encoding: str = 'utf-8',
                         subproject: T.Any = None) -> T.Any:
            res = orig_cf(src, dst, confdata, variable_format, encoding, subproject)
            try:
                REC.counts['calls:do_conf_file'] = REC.counts.get('calls:do_conf_file', 0) + 1
                if REC.keep_events:
                    REC.events.append({'ev': 'conf_file', 'src': os.path.basename(src), 'dst': os.path.basename(dst),
                                       'fmt': variable_format, 'encoding': encoding, 'data': plain_data(confdata),
                                       'missing': sorted(res[0])})
            except Exception as e:
                REC.count('contract-internal-error:' + type(e).__name__)
            return res
        do_conf_file.__wrapped_by_c14__ = True   # type: ignore[attr-defined]
        U.do_conf_file = do_conf_file
        ML.do_conf_file = do_conf_file
    hdr = U.dump_conf_header
    if not getattr(hdr, '__records_c14__', False):
        inner = hdr

        def dump_conf_header(ofilename: str, cdata: T.Any, output_format: str, macro_name: T.Any) -> None:
            inner(ofilename, cdata, output_format, macro_name)
            try:
                if REC.keep_events:
                    REC.events.append({'ev': 'header', 'dst': os.path.basename(ofilename), 'fmt': output_format,
                                       'macro': macro_name, 'data': plain_data(cdata)})
            except Exception as e:
                REC.count('contract-internal-error:' + type(e).__name__)
        dump_conf_header.__wrapped_by_c14__ = True   # type: ignore[attr-defined]
        dump_conf_header.__records_c14__ = True      # type: ignore[attr-defined]
        U.dump_conf_header = dump_conf_header
        ML.dump_conf_header = dump_conf_header


def child_monitor(rec: T.Callable[[dict], None]) -> None:
    """runner.meson(monitors=[child_monitor]): contracts active inside the forked meson; the counters,
    broken contracts and file-level events are written as records when meson returns."""
    from vf import runner
    install()
    REC.reset()
    REC.keep_events = True

    def flush(rec2: T.Callable[[dict], None]) -> None:
        for ev in REC.events:
            rec2(ev)
        rec2({'ev': 'contracts', **REC.snapshot()})
    runner.at_child_exit(flush)
