"""C05 configure-time monitors: which ordering mechanisms of the ninja backend were exercised.

Installed in the forked meson child (runner.meson(monitors=[install])).  Wraps five methods of
NinjaBackend from outside; the wrappers only count (never raise, never change arguments) and flush one
record {'c05': {...counters...}} when meson returns.
"""
from __future__ import annotations

import functools
import typing as T


def install(rec: T.Callable[[dict], None]) -> None:
    from mesonbuild.backend import ninjabackend
    from mesonbuild import build
    from vf import runner

    counts: T.Dict[str, int] = {}

    def bump(k: str, n: int = 1) -> None:
        counts[k] = counts.get(k, 0) + n

    NB = ninjabackend.NinjaBackend

    def wrap(name: str, observe: T.Callable[..., None]) -> None:
        orig = getattr(NB, name)

        @functools.wraps(orig)
        def wrapper(self, *a, **kw):  # type: ignore[no-untyped-def]
            try:
                observe(self, *a, **kw)
            except Exception:
                bump(f'{name}:monitor_error')
            return orig(self, *a, **kw)
        setattr(NB, name, wrapper)

    def obs_compile(self, target, src, is_generated=False, header_deps=None, order_deps=None, extra_args=None,
                    unity_sources=None):  # type: ignore[no-untyped-def]
        bump('single_compile')
        if is_generated:
            bump('single_compile:generated_source')
        if header_deps:
            bump('single_compile:with_header_deps')
        if order_deps:
            bump('single_compile:with_order_deps')
            bump('single_compile:order_deps_total', len(order_deps))
        if unity_sources:
            bump('single_compile:unity')
        if isinstance(target, build.CompileTarget):
            bump('single_compile:compile_target')
        try:
            if target.link_targets or target.link_whole_targets:
                own = sum(1 for g in target.get_generated_sources())
                if order_deps and not own:
                    bump('single_compile:order_deps_only_from_linked_libs')
        except Exception:
            pass

    def obs_custom(self, target):  # type: ignore[no-untyped-def]
        bump('custom_target')
        if target.get_dependencies():
            bump('custom_target:with_target_in_command')
        if target.depend_files:
            bump('custom_target:with_depend_files')
        if target.extra_depends:
            bump('custom_target:with_depends')
        if target.capture:
            bump('custom_target:capture')
        if len(target.get_outputs()) > 1:
            bump('custom_target:multi_output')
        if any(isinstance(s, build.GeneratedList) for s in target.sources):
            bump('custom_target:genlist_input')
        if any(isinstance(s, (build.CustomTarget, build.CustomTargetIndex)) for s in target.sources):
            bump('custom_target:custom_target_input')
        if any(isinstance(s, build.BuildTarget) for s in target.sources):
            bump('custom_target:build_target_input')

    def obs_link(self, target, outname, obj_list, linker, extra_objs=None, stdlib_args=None):  # type: ignore[no-untyped-def]
        bump('link')
        bump('link:' + type(target).__name__)
        if target.link_targets:
            bump('link:with_link_targets')
        if target.link_whole_targets:
            bump('link:with_link_whole')
        if target.link_depends:
            bump('link:with_link_depends')
            for ld in target.link_depends:
                if isinstance(ld, build.BuildTarget):
                    bump('link:link_depends_on_build_target')
                elif isinstance(ld, (build.CustomTarget, build.CustomTargetIndex)):
                    bump('link:link_depends_on_custom_target')
                else:
                    bump('link:link_depends_on_file')
        if any(isinstance(t, (build.CustomTarget, build.CustomTargetIndex)) for t in target.link_targets):
            bump('link:custom_target_library')
        if target.objects:
            bump('link:with_objects')

    def obs_genlist(self, genlist, target):  # type: ignore[no-untyped-def]
        bump('genlist')
        g = genlist.get_generator()
        if genlist.extra_depends or g.depends:
            bump('genlist:with_depends')
        if isinstance(target, build.CustomTarget):
            bump('genlist:for_custom_target')
        if genlist.depends:
            bump('genlist:input_is_target_or_genlist')
        if len(g.outputs) > 1:
            bump('genlist:multi_output')

    def obs_pch(self, target, header_deps=None):  # type: ignore[no-untyped-def]
        bump('pch')
        for lang in ('c', 'cpp'):
            if target.pch.get(lang):
                bump('pch:' + lang)
        if header_deps:
            bump('pch:with_header_deps')
            bump('pch:header_deps_total', len(header_deps))
            if any(not str(getattr(h, 'fname', h)).endswith(('.h', '.hpp')) for h in header_deps):
                bump('pch:with_non_header_suffix_deps')

    wrap('generate_single_compile', obs_compile)
    wrap('generate_pch', obs_pch)
    wrap('generate_custom_target', obs_custom)
    wrap('generate_link', obs_link)
    wrap('generate_genlist_for_target', obs_genlist)

    def flush(rec2: T.Callable[[dict], None]) -> None:
        rec2({'c05': counts})
    runner.at_child_exit(flush)
