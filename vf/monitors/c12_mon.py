"""C12 monitors installed inside the forked `meson test` process (runner.meson(monitors=[make(...)])).

All wrappers are applied from outside on attributes of mesonbuild.mtest; they record and continue, they never
raise through meson (rule 6).  Records (JSON lines through rec):
  h_start   SingleTestRunner.run entered   {name, it, par, t, active:[names running in the harness' view]}
  h_end     ... left                        {name, it, res|'cancelled'|'exception', t}
  h_overlap diagnostics: run() entered while a non-parallel run() is active / non-parallel entered while any is
  h_result  TestHarness.process_test_result {name, it, res, counts}
  h_waited  TestSubprocess.wait returned with TIMEOUT/INTERRUPT {pid, returncode}            (diagnostics)
  h_signal  every os.killpg / os.kill the harness issues {pid, sig}
  h_reported SingleTestRunner.run returned a TIMEOUT/INTERRUPT result {pid, alive: is the process still running
            at the moment the harness reports the result}
  h_limit_passed  complete_all(timeout=N>0) inside TestSubprocess.wait raised TimeoutError: by the harness' own
            clock the limit of this test has passed while the process or its output pipes were still pending
  h_final   TestHarness.doit returned       {ret, counts}
  h_shake   number of injected sleeps (thorough): tiny asyncio.sleep at suspension points that really suspend:
            before/after `complete_all(futures)` / `complete(future)` when something is pending, and at the entry of
            SingleTestRunner.run (which always suspends in create_subprocess_exec).
"""
from __future__ import annotations

import time
import typing as T

COUNTS = ('fail_count', 'expectedfail_count', 'unexpectedpass_count', 'success_count', 'skip_count',
          'ignored_count', 'timeout_count', 'test_count')


def _alive(pid: T.Optional[int]) -> T.Optional[bool]:
    """Is the process still running (a zombie waiting to be reaped counts as gone)?"""
    if not pid:
        return None
    try:
        with open(f'/proc/{pid}/stat', 'rb') as f:
            st = f.read().rsplit(b')', 1)[-1].split()
        return st[0] not in (b'Z', b'X')
    except (OSError, IndexError):
        return False


def make(shake: bool = False, seed: int = 0) -> T.Callable[[T.Callable[[dict], None]], None]:
    def install(rec: T.Callable[[dict], None]) -> None:
        import asyncio
        import random
        from mesonbuild import mtest

        import contextvars
        current: T.Any = contextvars.ContextVar('c12_current_test')
        rng = random.Random(seed)
        active: T.Dict[int, T.Tuple[str, bool]] = {}
        nshake = [0]

        def safe(ev: dict) -> None:
            try:
                rec(ev)
            except Exception:
                pass

        def ident(runner: T.Any) -> T.Tuple[str, int]:
            try:
                it = int(runner.runobj.env.get('MESON_TEST_ITERATION', '1'))
            except Exception:
                it = -1
            return runner.test.name, it

        async def jitter() -> None:
            nshake[0] += 1
            await asyncio.sleep(rng.choice([0, 0, 0, 0.001, 0.003, 0.01, 0.03]))

        orig_run = mtest.SingleTestRunner.run

        async def run(self: T.Any, harness: T.Any) -> T.Any:
            name, it = ident(self)
            try:
                par = bool(self.is_parallel)
                others = list(active.values())
                safe({'ev': 'h_start', 'name': name, 'it': it, 'par': par, 't': time.monotonic_ns(),
                      'active': [o[0] for o in others]})
                if others and (not par or any(not o[1] for o in others)):
                    safe({'ev': 'h_overlap', 'name': name, 'par': par, 'active': others})
            except Exception:
                par = True
            active[id(self)] = (name, par)
            outcome = 'exception'
            try:
                if shake:
                    await jitter()
                res = await orig_run(self, harness)
                outcome = getattr(getattr(res, 'res', None), 'value', 'unknown')
                try:
                    if outcome in ('TIMEOUT', 'INTERRUPT'):
                        pid = getattr(res, '_c12_pid', None)
                        safe({'ev': 'h_reported', 'name': name, 'it': it, 'res': outcome, 'pid': pid,
                              'alive': _alive(pid), 'additional_error': str(res.additional_error)[:200]})
                except Exception:
                    pass
                return res
            except asyncio.CancelledError:
                outcome = 'cancelled'
                raise
            finally:
                active.pop(id(self), None)
                safe({'ev': 'h_end', 'name': name, 'it': it, 'res': outcome, 't': time.monotonic_ns()})

        mtest.SingleTestRunner.run = run

        orig_ptr = mtest.TestHarness.process_test_result

        def process_test_result(self: T.Any, result: T.Any) -> None:
            try:
                return orig_ptr(self, result)
            finally:
                try:
                    it = int(result.env.get('MESON_TEST_ITERATION', '1'))
                except Exception:
                    it = -1
                safe({'ev': 'h_result', 'name': result.test.name, 'it': it,
                      'res': getattr(result.res, 'value', str(result.res)),
                      'nsub': len(getattr(result, 'results', None) or []),
                      'counts': {k: getattr(self, k, None) for k in COUNTS}, 't': time.monotonic_ns()})

        mtest.TestHarness.process_test_result = process_test_result

        orig_wait = mtest.TestSubprocess.wait

        async def wait(self: T.Any, test: T.Any) -> None:
            try:
                test._c12_pid = self._process.pid
                try:
                    it = int(test.env.get('MESON_TEST_ITERATION', '1'))
                except Exception:
                    it = -1
                current.set((test.test.name, it, self._process.pid))
            except Exception:
                pass
            await orig_wait(self, test)
            try:
                res = getattr(test.res, 'value', '')
                if res in ('TIMEOUT', 'INTERRUPT'):
                    p = self._process
                    safe({'ev': 'h_waited', 'name': test.test.name, 'res': res, 'pid': p.pid,
                          'returncode': p.returncode, 'additional_error': str(test.additional_error)[:200]})
            except Exception:
                pass

        mtest.TestSubprocess.wait = wait

        # every signal the harness sends (os.killpg / os.kill; asyncio's Process.kill ends in os.kill)
        import os as _os
        orig_killpg, orig_kill = _os.killpg, _os.kill

        def killpg(pgid: int, sig: int) -> None:
            if sig:
                safe({'ev': 'h_signal', 'fn': 'killpg', 'pid': pgid, 'sig': int(sig), 't': time.monotonic_ns()})
            return orig_killpg(pgid, sig)

        def kill(pid: int, sig: int) -> None:
            if sig:
                safe({'ev': 'h_signal', 'fn': 'kill', 'pid': pid, 'sig': int(sig), 't': time.monotonic_ns()})
            return orig_kill(pid, sig)

        _os.killpg = killpg
        _os.kill = kill

        orig_doit = mtest.TestHarness.doit

        def doit(self: T.Any) -> int:
            ret: T.Any = 'exception'
            try:
                ret = orig_doit(self)
                return ret
            finally:
                safe({'ev': 'h_final', 'ret': ret if isinstance(ret, int) else repr(ret),
                      'counts': {k: getattr(self, k, None) for k in COUNTS}})
                if shake:
                    safe({'ev': 'h_shake', 'n': nshake[0]})

        mtest.TestHarness.doit = doit

        # the harness' own statement "the limit has passed with something still pending": complete_all(timeout=N)
        # raising asyncio.TimeoutError for a positive N.  Which test it is comes from a context variable set by the
        # wait() wrapper (each run_test task has its own context).
        orig_ca = mtest.complete_all
        orig_c = mtest.complete

        async def complete_all(futures: T.Any, timeout: T.Any = None) -> None:
            if timeout is not None:
                try:
                    return await orig_ca(futures, timeout)
                except asyncio.TimeoutError:
                    try:
                        cur = current.get(None)
                        if cur is not None and timeout > 0:
                            safe({'ev': 'h_limit_passed', 'name': cur[0], 'it': cur[1], 'pid': cur[2],
                                  'timeout': timeout, 't': time.monotonic_ns()})
                    except Exception:
                        pass
                    raise
            if not shake:
                return await orig_ca(futures, timeout)
            pending = False
            try:
                pending = any(not f.done() for f in list(futures))
            except Exception:
                pass
            if pending:
                await jitter()
            await orig_ca(futures, timeout)
            if pending:
                await jitter()

        async def complete(future: T.Any) -> None:
            pending = not future.done()
            if pending:
                await jitter()
            await orig_c(future)
            if pending:
                await jitter()

        mtest.complete_all = complete_all
        if shake:
            mtest.complete = complete

    return install
