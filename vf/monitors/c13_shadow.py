"""C13 shadow monitor: an eager reference list (vf.ref.refargs) attached to every CompilerArgs /
CLikeCompilerArgs instance of the repository under test.

Every *outermost* public operation on an argument list is mirrored on the shadow; nested calls the real
implementation makes to itself (append -> __iadd__, __add__ -> copy -> __init__, to_native -> insert ...)
run unobserved, so the reference states the meaning of each public operation on its own and does not
assume how the real class decomposes it.  At every read the real answer is compared with the shadow's.
The monitor never forces a flush of the observed object before an operation (that would destroy the
laziness under test) and never raises through the code it observes: it records and continues.

A second, independent oracle (refargs.Conservation) checks at every full-list read that no argument was
lost or invented and that the non-dedupable arguments kept order and multiplicity.
"""
from __future__ import annotations

import collections
import typing as T

from vf.ref import refargs

MAX_STORED = 25
HIST_CAP = 120


class State:
    def __init__(self) -> None:
        self.depth = 0
        self.installed = False
        self.enabled = True
        self.keep_history = True
        # second reference per list that IGNORES what an in-place conversion (to_native(copy=False)) did to the
        # list: the meaning of the increments alone.  Armed inside real meson runs only (install_shadow): there a
        # command line is assembled by several consumers of one list and "the result equals the simple eager
        # meaning" whatever reads happened in between.
        self.track_pure = False
        self.rec: T.Optional[T.Callable[[dict], None]] = None
        self.reset()

    def reset(self) -> None:
        self.counters: T.Dict[str, int] = {}
        self.violations: T.List[dict] = []
        self.nviol = 0

    def count(self, name: str, n: int = 1) -> None:
        self.counters[name] = self.counters.get(name, 0) + n


STATE = State()
_ORIG: T.Dict[T.Tuple[type, str], T.Any] = {}
_TABLES: T.Dict[type, refargs.Table] = {}
_BASE_CLS: T.Any = None
_GNU_LINKERS: T.Tuple[type, ...] = ()


class Shadow:
    __slots__ = ('ref', 'cons', 'dirty', 'owner', 'hist', 'cls', 'pure', 'converted')

    def __init__(self, table: refargs.Table, initial: T.Iterable[str], owner: int, cls: str,
                 hist: T.Optional[T.List[T.Any]] = None) -> None:
        self.ref = refargs.RefArgs(table, initial)
        self.cons = refargs.Conservation(table, self.ref.items)
        self.dirty = False          # writes pending since the last operation documented to merge them
        self.owner = owner
        self.cls = cls
        self.hist: T.List[T.Any] = hist if hist is not None else []
        # eager meaning of the increments alone (None: not tracked / given up); converted: an in-place conversion
        # has changed the list itself since
        self.pure: T.Optional[refargs.RefArgs] = refargs.RefArgs(table, self.ref.items) if STATE.track_pure else None
        self.converted = False

    def log(self, *ev: T.Any) -> None:
        if STATE.keep_history and len(self.hist) < HIST_CAP:
            self.hist.append(list(ev))

    def clone(self, owner: int) -> 'Shadow':
        s = Shadow.__new__(Shadow)
        s.ref = self.ref.copy()
        c = refargs.Conservation.__new__(refargs.Conservation)
        c.t = self.cons.t
        c.members = set(self.cons.members)
        c.nd_seq = list(self.cons.nd_seq)
        c.nd_front = dict(self.cons.nd_front)
        s.cons = c
        s.dirty = self.dirty
        s.owner = owner
        s.cls = self.cls
        s.hist = list(self.hist)
        s.pure = self.pure.copy() if self.pure is not None else None
        s.converted = self.converted
        return s


# ---- violation recording ---------------------------------------------------------------------
def _kinds(table: refargs.Table, args: T.Iterable[str]) -> str:
    ks = set()
    for a in args:
        ks.add(('prepend-' if table.prepends(a) else '') + table.kind(a))
    return '+'.join(sorted(ks)) or '-'


def classify_list_diff(table: refargs.Table, observed: T.Sequence[str], expected: T.Sequence[str]) -> str:
    """WHY two argument lists differ, in terms of the contract."""
    so, se = set(observed), set(expected)
    if se - so:
        return 'lost:' + _kinds(table, se - so)
    if so - se:
        return 'invented:' + _kinds(table, so - se)
    co, ce = collections.Counter(observed), collections.Counter(expected)
    if co != ce:
        more = [a for a in co if co[a] > ce[a]]
        less = [a for a in co if co[a] < ce[a]]
        if more:
            return 'not-deduplicated:' + _kinds(table, more)
        return 'multiplicity-lost:' + _kinds(table, less)
    moved = [a for a, b in zip(observed, expected) if a != b]
    return 'order:' + _kinds(table, moved)


def _violate(mechanism: str, sh: T.Optional[Shadow], op: str, observed: T.Any, expected: T.Any,
             extra: T.Optional[dict] = None) -> None:
    STATE.nviol += 1
    STATE.count('violation:' + mechanism)
    w = {'kind': 'violation', 'mechanism': mechanism, 'read': op, 'observed': observed, 'expected': expected,
         'class': sh.cls if sh else '?', 'history': list(sh.hist) if sh else []}
    if extra:
        w.update(extra)
    if len(STATE.violations) < MAX_STORED or not any(v['mechanism'] == mechanism for v in STATE.violations):
        STATE.violations.append(w)
        if STATE.rec is not None:
            try:
                STATE.rec(w)
            except Exception:
                pass


def _monitor_error(where: str, e: BaseException) -> None:
    STATE.count('monitor-error:' + where)
    if len(STATE.violations) < MAX_STORED:
        STATE.violations.append({'kind': 'monitor-error', 'mechanism': 'monitor-error:' + where,
                                 'error': f'{type(e).__name__}: {e}'})


# ---- shadow lookup ---------------------------------------------------------------------------
def _orig(obj: T.Any, name: str) -> T.Any:
    for k in type(obj).__mro__:
        f = _ORIG.get((k, name))
        if f is not None:
            return f
    raise AttributeError(name)


def _real_list(obj: T.Any) -> T.List[str]:
    """The real list as the real __iter__ gives it (merges pending writes!). Use only where the real
    operation is documented to have merged them already, or for adoption."""
    STATE.depth += 1
    try:
        return list(_orig(obj, '__iter__')(obj))
    finally:
        STATE.depth -= 1


def shadow_of(obj: T.Any, adopt: bool = True) -> T.Optional[Shadow]:
    d = obj.__dict__
    sh = d.get('_vf_shadow')
    if sh is False:
        return None
    if sh is not None and sh.owner == id(obj):
        return sh
    table = _TABLES.get(type(obj))
    if table is None:
        d['_vf_shadow'] = False
        STATE.count('shadow:unmodelled-class:' + type(obj).__name__)
        return None
    if not adopt:
        return None
    try:
        items = _real_list(obj)
    except Exception as e:     # half-constructed object
        _monitor_error('adopt', e)
        return None
    sh = Shadow(table, items, id(obj), type(obj).__name__)
    sh.log('adopted', list(items))
    d['_vf_shadow'] = sh
    STATE.count('shadow:adopted')
    return sh


def _attach(obj: T.Any, sh: Shadow) -> None:
    sh.owner = id(obj)
    obj.__dict__['_vf_shadow'] = sh


def _materialise(args: T.Any) -> T.Tuple[T.Optional[T.List[str]], T.Any]:
    """(what the reference is fed, what the real operation is fed) - both see the same elements."""
    if _BASE_CLS is not None and isinstance(args, _BASE_CLS):
        osh = shadow_of(args)
        if osh is None:
            lst = _real_list(args)
            return lst, args
        osh.dirty = False      # iterating it merges its pending writes
        return list(osh.ref.items), args
    if isinstance(args, (list, tuple)):
        return list(args), args
    try:
        lst = list(args)
    except TypeError:
        return None, args
    return lst, lst


def _pure_batch(args: T.Any, batch: T.Optional[T.List[str]]) -> T.Optional[T.List[str]]:
    """What the increments-only reference is fed when `args` is added: for another argument list its own
    increments-only meaning (None: unknown, tracking is given up)."""
    if batch is not None and _BASE_CLS is not None and isinstance(args, _BASE_CLS):
        osh = args.__dict__.get('_vf_shadow')
        if osh:
            if osh.pure is not None:
                return list(osh.pure.items)
            if osh.converted:
                return None
    return batch


def _pure_apply(sh: Shadow, fn: T.Callable[[refargs.RefArgs], None]) -> None:
    if sh.pure is None:
        return
    try:
        fn(sh.pure)
    except Exception:
        sh.pure = None
        STATE.count('pure:given-up')


def _pure_resync(sh: Shadow, observed: T.Sequence[str]) -> None:
    """After a reported difference the references follow the real list."""
    if sh.pure is not None:
        if sh.converted:
            sh.pure = None
            STATE.count('pure:given-up')
        else:
            sh.pure.items = list(observed)


def _call(fn: T.Any, *a: T.Any, **k: T.Any) -> T.Tuple[T.Any, T.Optional[BaseException]]:
    STATE.depth += 1
    try:
        return fn(*a, **k), None
    except Exception as e:
        return None, e
    finally:
        STATE.depth -= 1


def _compare_full(sh: Shadow, op: str, observed: T.List[str]) -> None:
    """Full-list observation: eager reference + conservation oracle; resynchronise after a report."""
    STATE.count('compare:full-list')
    exp = sh.ref.items
    bad = False
    if observed != exp:
        bad = True
        _violate(f'{op}-differs-from-eager:' + classify_list_diff(sh.ref.t, observed, exp), sh, op,
                 list(observed), list(exp))
    STATE.count('compare:conservation')
    why = sh.cons.check(observed)
    if why is not None:
        bad = True
        _violate('conservation:' + why, sh, op, list(observed),
                 {'nondedup_sequence': list(sh.cons.nd_seq), 'members': sorted(sh.cons.members)})
    if bad:
        sh.ref.items = list(observed)
        sh.cons.reset(observed)
        _pure_resync(sh, observed)
        sh.log('resync-after-violation')


# ---- wrappers ---------------------------------------------------------------------------------
def _mk_init(orig: T.Any) -> T.Any:
    def __init__(self: T.Any, compiler: T.Any, iterable: T.Any = None) -> None:
        if STATE.depth or not STATE.enabled:
            return orig(self, compiler, iterable)
        table = _TABLES.get(type(self))
        initial: T.Optional[T.List[str]] = []
        passed = iterable
        try:
            if iterable is not None:
                initial, passed = _materialise(iterable)
        except Exception as e:
            _monitor_error('init', e)
        res, exc = _call(orig, self, compiler, passed)
        if exc is not None:
            raise exc
        try:
            if table is None:
                self.__dict__['_vf_shadow'] = False
                STATE.count('shadow:unmodelled-class:' + type(self).__name__)
            else:
                sh = Shadow(table, initial or [], id(self), type(self).__name__)
                sh.log('init', list(initial or []))
                if sh.pure is not None and iterable is not None:
                    pb = _pure_batch(iterable, initial)
                    if pb is None:
                        sh.pure = None
                    else:
                        sh.pure.items = list(pb)
                    osh = iterable.__dict__.get('_vf_shadow') if (_BASE_CLS is not None and isinstance(iterable, _BASE_CLS)) else None
                    sh.converted = bool(osh and osh.converted)
                self.__dict__['_vf_shadow'] = sh
                STATE.count('op:__init__')
        except Exception as e:
            _monitor_error('init', e)
        return res
    return __init__


def _mk_batch(orig: T.Any, name: str, single: bool) -> T.Any:
    """__iadd__ / extend (batch) and append (single)."""
    def wrapper(self: T.Any, args: T.Any) -> T.Any:
        if STATE.depth or not STATE.enabled:
            return orig(self, args)
        sh = None
        batch: T.Optional[T.List[str]] = None
        passed = args
        try:
            sh = shadow_of(self)
            if sh is not None:
                if single:
                    batch = [args]
                else:
                    batch, passed = _materialise(args)
        except Exception as e:
            _monitor_error(name, e)
            sh = None
        res, exc = _call(orig, self, passed)
        if exc is not None:
            raise exc
        if sh is not None and batch is not None:
            try:
                sh.log(name, list(batch))
                sh.ref.add_batch(batch)
                sh.cons.added(batch)
                sh.dirty = True
                if sh.pure is not None:
                    pb = batch if single else _pure_batch(args, batch)
                    if pb is None:
                        sh.pure = None
                    else:
                        _pure_apply(sh, lambda r: r.add_batch(pb))
                STATE.count('op:' + name)
            except Exception as e:
                _monitor_error(name, e)
        return res
    wrapper.__name__ = name
    return wrapper


def _mk_direct(orig: T.Any, name: str) -> T.Any:
    """insert / __setitem__ / __delitem__: act directly; the real operation merges pending writes first,
    so the list is observed right after it."""
    def wrapper(self: T.Any, *a: T.Any) -> T.Any:
        if STATE.depth or not STATE.enabled:
            return orig(self, *a)
        sh = None
        slice_val: T.Optional[T.List[str]] = None
        try:
            sh = shadow_of(self)
            if sh is not None and name == '__setitem__' and isinstance(a[0], slice):
                slice_val, passed = _materialise(a[1])
                if slice_val is not None:
                    a = (a[0], passed)
        except Exception as e:
            _monitor_error(name, e)
            sh = None
        res, exc = _call(orig, self, *a)
        if sh is not None:
            try:
                sh.log(name, *[repr(x) if isinstance(x, slice) else (list(x) if isinstance(x, (list, tuple)) else x) for x in a])
                mexc: T.Optional[BaseException] = None
                if sh.pure is not None:
                    if sh.converted:
                        sh.pure = None        # positions in the converted list say nothing about the increments
                        STATE.count('pure:given-up')
                    elif name == 'insert':
                        _pure_apply(sh, lambda r: r.insert(a[0], a[1]))
                    elif name == '__setitem__':
                        _pure_apply(sh, lambda r: r.setitem(a[0], list(slice_val) if isinstance(a[0], slice) else a[1]))
                    else:
                        _pure_apply(sh, lambda r: r.delitem(a[0]))
                try:
                    if name == 'insert':
                        sh.ref.insert(a[0], a[1])
                    elif name == '__setitem__':
                        sh.ref.setitem(a[0], slice_val if isinstance(a[0], slice) else a[1])
                    else:
                        sh.ref.delitem(a[0])
                except (IndexError, TypeError, ValueError) as e:
                    mexc = e
                STATE.count('op:' + name)
                sh.dirty = False
                if (exc is None) != (mexc is None) or (exc is not None and type(exc) is not type(mexc)):
                    _violate(f'{name}-outcome-differs-from-eager', sh, name,
                             repr(exc), repr(mexc))
                    sh.ref.items = _real_list(self)
                    _pure_resync(sh, sh.ref.items)
                else:
                    observed = _real_list(self)
                    if observed != sh.ref.items:
                        _violate(f'{name}-differs-from-eager:' + classify_list_diff(sh.ref.t, observed, sh.ref.items),
                                 sh, name, observed, list(sh.ref.items))
                        sh.ref.items = list(observed)
                        _pure_resync(sh, observed)
                    STATE.count('compare:after-direct-op')
                sh.cons.reset(sh.ref.items)
            except Exception as e:
                _monitor_error(name, e)
        if exc is not None:
            raise exc
        return res
    wrapper.__name__ = name
    return wrapper


def _mk_append_direct(orig: T.Any, name: str) -> T.Any:
    def wrapper(self: T.Any, args: T.Any) -> T.Any:
        if STATE.depth or not STATE.enabled:
            return orig(self, args)
        sh = None
        batch: T.Optional[T.List[str]] = None
        passed = args
        try:
            sh = shadow_of(self)
            if sh is not None:
                if name == 'append_direct':
                    batch = [args]
                else:
                    batch, passed = _materialise(args)
        except Exception as e:
            _monitor_error(name, e)
            sh = None
        res, exc = _call(orig, self, passed)
        if exc is not None:
            raise exc
        if sh is not None and batch is not None:
            try:
                sh.log(name, list(batch))
                if sh.pure is not None:
                    pb = batch if name == 'append_direct' else _pure_batch(args, batch)
                    if pb is None:
                        sh.pure = None
                    elif name == 'extend_preserving_lflags':
                        _pure_apply(sh, lambda r: r.extend_preserving_lflags(pb))
                    else:
                        _pure_apply(sh, lambda r: r.extend_direct(pb))
                if name == 'extend_preserving_lflags':
                    sh.ref.extend_preserving_lflags(batch)
                    sh.dirty = False
                    # order of addition: the -l/-L flags are added after the rest
                    t = sh.ref.t
                    lf = [a for a in batch if a not in t.always_dedup_args and a.startswith(('-l', '-L'))]
                    sh.cons.added([a for a in batch if not (a not in t.always_dedup_args and a.startswith(('-l', '-L')))])
                    sh.cons.added(lf)
                else:
                    sh.ref.extend_direct(batch)
                    sh.dirty = bool(batch) and sh.ref.t.is_abs(batch[-1])
                    sh.cons.added(batch)
                STATE.count('op:' + name)
            except Exception as e:
                _monitor_error(name, e)
        return res
    wrapper.__name__ = name
    return wrapper


def _mk_copy(orig: T.Any) -> T.Any:
    def copy(self: T.Any) -> T.Any:
        if STATE.depth or not STATE.enabled:
            return orig(self)
        sh = None
        try:
            sh = shadow_of(self)
        except Exception as e:
            _monitor_error('copy', e)
        res, exc = _call(orig, self)
        if exc is not None:
            raise exc
        if sh is not None:
            try:
                sh.dirty = False
                sh.log('copy')
                STATE.count('op:copy')
                if res is self:
                    _violate('copy-returns-the-list-itself', sh, 'copy', 'same object', 'an independent list')
                elif _TABLES.get(type(res)) is sh.ref.t:
                    nsh = sh.clone(id(res))
                    nsh.dirty = False
                    _attach(res, nsh)
                    # the copy is fresh: reading it does not disturb the original
                    observed = _real_list(res)
                    STATE.count('read:copy')
                    _compare_full(nsh, 'copy', observed)
            except Exception as e:
                _monitor_error('copy', e)
        return res
    return copy


def _mk_add(orig: T.Any, name: str) -> T.Any:
    def wrapper(self: T.Any, args: T.Any) -> T.Any:
        if STATE.depth or not STATE.enabled:
            return orig(self, args)
        sh = None
        batch: T.Optional[T.List[str]] = None
        passed = args
        try:
            sh = shadow_of(self)
            if sh is not None:
                batch, passed = _materialise(args)
        except Exception as e:
            _monitor_error(name, e)
            sh = None
        res, exc = _call(orig, self, passed)
        if exc is not None:
            raise exc
        if sh is not None and batch is not None and res is not NotImplemented:
            try:
                sh.dirty = False
                sh.log(name, list(batch))
                STATE.count('op:' + name)
                if res is self:
                    _violate(name + '-returns-the-list-itself', sh, name, 'same object', 'a new list')
                elif _TABLES.get(type(res)) is sh.ref.t:
                    r = sh.ref.added(batch) if name == '__add__' else sh.ref.radded(batch)
                    nsh = Shadow(sh.ref.t, (), id(res), type(res).__name__, list(sh.hist))
                    nsh.ref = r
                    # conservation of the result: everything of both operands, in the order the eager
                    # meaning adds them
                    if name == '__add__':
                        nsh.cons = sh.clone(id(res)).cons
                        nsh.cons.added(batch)
                    else:
                        nsh.cons = refargs.Conservation(sh.ref.t, batch)
                        nsh.cons.added(sh.ref.items)
                    nsh.dirty = True
                    nsh.converted = sh.converted
                    pb = _pure_batch(args, batch)
                    if sh.pure is not None and pb is not None:
                        nsh.pure = sh.pure.added(pb) if name == '__add__' else sh.pure.radded(pb)
                    else:
                        nsh.pure = None
                    _attach(res, nsh)
            except Exception as e:
                _monitor_error(name, e)
        return res
    wrapper.__name__ = name
    return wrapper


def _mk_iter(orig: T.Any) -> T.Any:
    def __iter__(self: T.Any) -> T.Iterator[str]:
        if STATE.depth or not STATE.enabled:
            return orig(self)
        res, exc = _call(orig, self)
        if exc is not None:
            raise exc
        try:
            sh = shadow_of(self, adopt=False)
            if sh is None and self.__dict__.get('_vf_shadow') is not False:
                sh = shadow_of(self)       # adoption reads the list itself
            if sh is not None:
                observed = list(res)
                res = iter(observed)       # hand the caller exactly what was compared
                sh.dirty = False
                sh.log('iter')
                STATE.count('read:__iter__')
                _compare_full(sh, 'iter', observed)
        except Exception as e:
            _monitor_error('iter', e)
        return res
    return __iter__


def _mk_getitem(orig: T.Any) -> T.Any:
    def __getitem__(self: T.Any, index: T.Any) -> T.Any:
        if STATE.depth or not STATE.enabled:
            return orig(self, index)
        sh = None
        try:
            sh = shadow_of(self)
        except Exception as e:
            _monitor_error('getitem', e)
        res, exc = _call(orig, self, index)
        if sh is not None:
            try:
                sh.dirty = False
                sh.log('getitem', repr(index))
                STATE.count('read:__getitem__')
                try:
                    exp, mexc = sh.ref.items[index], None
                except (IndexError, TypeError) as e:
                    exp, mexc = None, e
                if (exc is None) != (mexc is None) or (exc is not None and type(exc) is not type(mexc)):
                    _violate('getitem-outcome-differs-from-eager', sh, f'getitem[{index!r}]',
                             repr(exc) if exc else res, repr(mexc) if mexc else exp,
                             {'eager_list': list(sh.ref.items)})
                elif exc is None and res != exp:
                    _violate('getitem-differs-from-eager', sh, f'getitem[{index!r}]', res, exp,
                             {'eager_list': list(sh.ref.items)})
            except Exception as e:
                _monitor_error('getitem', e)
        if exc is not None:
            raise exc
        return res
    return __getitem__


def _mk_len(orig: T.Any) -> T.Any:
    def __len__(self: T.Any) -> int:
        if STATE.depth or not STATE.enabled:
            return orig(self)
        res, exc = _call(orig, self)
        if exc is not None:
            raise exc
        try:
            sh = shadow_of(self, adopt=False)
            if sh is not None:
                STATE.count('read:__len__')
                exp = len(sh.ref.items)
                if res != exp:
                    if sh.dirty and res > exp:
                        mech = 'len-counts-pending-duplicates'
                    else:
                        mech = 'len-differs-from-eager'
                    _violate(mech, sh, 'len', res, exp, {'eager_list': list(sh.ref.items)})
        except Exception as e:
            _monitor_error('len', e)
        return res
    return __len__


def _mk_eq(orig: T.Any) -> T.Any:
    def __eq__(self: T.Any, other: T.Any) -> T.Any:
        if STATE.depth or not STATE.enabled:
            return orig(self, other)
        sh = None
        try:
            sh = shadow_of(self)
        except Exception as e:
            _monitor_error('eq', e)
        res, exc = _call(orig, self, other)
        if exc is not None:
            raise exc
        if sh is not None:
            try:
                sh.dirty = False
                other_dirty = False
                if _BASE_CLS is not None and isinstance(other, _BASE_CLS):
                    osh = shadow_of(other, adopt=False)
                    if osh is None:
                        STATE.count('read:__eq__:other-unshadowed')
                        return res
                    other_dirty = osh.dirty and other is not self
                    same_compiler, cexc = _call(lambda: self.compiler == other.compiler)
                    if cexc is not None:
                        return res
                    exp: T.Any = bool(same_compiler) and sh.ref.items == osh.ref.items
                    olist: T.Any = list(osh.ref.items)
                elif isinstance(other, list):
                    exp = sh.ref.items == other
                    olist = list(other)
                else:
                    exp = NotImplemented
                    olist = repr(other)
                sh.log('eq', olist)
                STATE.count('read:__eq__')
                if res is not exp and res != exp:
                    mech = 'eq-ignores-pending-writes-of-other' if other_dirty else 'eq-differs-from-eager'
                    _violate(mech, sh, 'eq', repr(res), repr(exp), {'eager_list': list(sh.ref.items), 'other': olist})
            except Exception as e:
                _monitor_error('eq', e)
        return res
    return __eq__


def _mk_repr(orig: T.Any) -> T.Any:
    def __repr__(self: T.Any) -> str:
        if STATE.depth or not STATE.enabled:
            return orig(self)
        res, exc = _call(orig, self)
        if exc is not None:
            raise exc
        try:
            sh = shadow_of(self, adopt=False)
            if sh is not None:
                sh.dirty = False
                sh.log('repr')
                STATE.count('read:__repr__')
                if not res.endswith(f', {sh.ref.items!r})'):
                    _violate('repr-differs-from-eager', sh, 'repr', res, list(sh.ref.items))
        except Exception as e:
            _monitor_error('repr', e)
        return res
    return __repr__


def _gnu_group(compiler: T.Any) -> bool:
    return isinstance(getattr(compiler, 'linker', None), _GNU_LINKERS)


def _mk_to_native(orig: T.Any, clike: bool) -> T.Any:
    def to_native(self: T.Any, copy: bool = False) -> T.List[str]:
        if STATE.depth or not STATE.enabled:
            return orig(self, copy)
        sh = None
        exp_pre: T.Optional[T.List[str]] = None
        pure_pre: T.Optional[T.List[str]] = None
        try:
            sh = shadow_of(self)
            if sh is not None:
                if clike:
                    dirs, dexc = _call(self.compiler.get_default_include_dirs)
                    if dexc is None:
                        exp_pre = sh.ref.native_form(_gnu_group(self.compiler), list(dirs or []))
                        if sh.pure is not None:
                            pure_pre = sh.pure.native_form(_gnu_group(self.compiler), list(dirs or []))
                else:
                    exp_pre = list(sh.ref.items)
                    if sh.pure is not None:
                        pure_pre = list(sh.pure.items)
        except Exception as e:
            _monitor_error('to_native', e)
            sh = None
        res, exc = _call(orig, self, copy)
        if exc is not None:
            if sh is not None:
                STATE.count('read:to_native:raised')
            raise exc
        if sh is not None and exp_pre is not None:
            try:
                sh.dirty = False
                sh.log('to_native', bool(copy))
                STATE.count('read:to_native')
                exp, texc = _call(self.compiler.unix_args_to_native, list(exp_pre))
                if texc is None:
                    if list(res) != list(exp):
                        _violate('to_native-differs-from-eager:' + classify_list_diff(sh.ref.t, list(res), list(exp)),
                                 sh, f'to_native(copy={bool(copy)})', list(res), list(exp),
                                 {'eager_list': list(sh.ref.items)})
                # "Always returns a copy that can be independently mutated" (Compiler._unix_args_to_native): the
                # command line handed out must not be an object the argument list itself keeps
                STATE.count('contract:to_native-result-independent')
                if any(res is v for v in self.__dict__.values()):
                    _violate('to_native-hands-out-the-lists-own-storage', sh, f'to_native(copy={bool(copy)})',
                             'the returned list IS an attribute of the argument list', 'an independent list')
                if pure_pre is not None:
                    # a command line is the eager meaning of the INCREMENTS, whichever consumers read or converted
                    # the list while it was being assembled
                    STATE.count('contract:command-line-is-meaning-of-increments')
                    if sh.converted:
                        STATE.count('contract:command-line-is-meaning-of-increments:after-in-place-conversion')
                    pexp, pexc = _call(self.compiler.unix_args_to_native, list(pure_pre))
                    if pexc is None and list(res) != list(pexp) and (texc is not None or list(res) == list(exp)):
                        # (a difference from the list-level reference was reported above already)
                        marks = ('-Wl,--start-group', '-Wl,--end-group')
                        only_marks = [a for a in res if a not in marks] == [a for a in pexp if a not in marks]
                        _violate('command-line-changed-by-earlier-in-place-conversion:' +
                                 ('library-group-markers' if only_marks else classify_list_diff(sh.ref.t, list(res), list(pexp))),
                                 sh, f'to_native(copy={bool(copy)})', list(res), list(pexp),
                                 {'increments_only_list': list(sh.pure.items) if sh.pure is not None else None})
                if clike and not copy:
                    # documented by the parameter: without copy the list itself receives the group
                    # markers / loses the default -isystem entries
                    if list(exp_pre) != list(sh.ref.items):
                        sh.converted = True
                        STATE.count('read:to_native:in-place-conversion-changed-the-list')
                    sh.ref.items = list(exp_pre)
                    sh.cons.reset(exp_pre)
            except Exception as e:
                _monitor_error('to_native', e)
        return res
    return to_native


# ---- installation -----------------------------------------------------------------------------
def install() -> None:
    """Patch the classes of the repository under test (idempotent)."""
    global _BASE_CLS, _GNU_LINKERS
    if STATE.installed:
        return
    from mesonbuild import arglist
    from mesonbuild.compilers.mixins import clike
    from mesonbuild.linkers import linkers
    base = arglist.CompilerArgs
    ccls = clike.CLikeCompilerArgs
    _BASE_CLS = base
    _GNU_LINKERS = (linkers.GnuLikeDynamicLinkerMixin, linkers.SolarisDynamicLinker, linkers.CompCertDynamicLinker)
    _TABLES[base] = refargs.BASE
    _TABLES[ccls] = refargs.CLIKE

    def patch(cls: type, name: str, maker: T.Callable[[T.Any], T.Any]) -> None:
        orig = cls.__dict__.get(name)
        if orig is None:
            return
        _ORIG[(cls, name)] = orig
        setattr(cls, name, maker(orig))

    for cls in (base, ccls):
        patch(cls, '__init__', _mk_init)
        patch(cls, '__iadd__', lambda o: _mk_batch(o, '__iadd__', False))
        patch(cls, 'extend', lambda o: _mk_batch(o, 'extend', False))
        patch(cls, 'append', lambda o: _mk_batch(o, 'append', True))
        patch(cls, 'insert', lambda o: _mk_direct(o, 'insert'))
        patch(cls, '__setitem__', lambda o: _mk_direct(o, '__setitem__'))
        patch(cls, '__delitem__', lambda o: _mk_direct(o, '__delitem__'))
        patch(cls, 'append_direct', lambda o: _mk_append_direct(o, 'append_direct'))
        patch(cls, 'extend_direct', lambda o: _mk_append_direct(o, 'extend_direct'))
        patch(cls, 'extend_preserving_lflags', lambda o: _mk_append_direct(o, 'extend_preserving_lflags'))
        patch(cls, 'copy', _mk_copy)
        patch(cls, '__add__', lambda o: _mk_add(o, '__add__'))
        patch(cls, '__radd__', lambda o: _mk_add(o, '__radd__'))
        patch(cls, '__iter__', _mk_iter)
        patch(cls, '__getitem__', _mk_getitem)
        patch(cls, '__len__', _mk_len)
        patch(cls, '__eq__', _mk_eq)
        patch(cls, '__repr__', _mk_repr)
        patch(cls, 'to_native', lambda o, c=(cls is ccls): _mk_to_native(o, c))
    STATE.installed = True


def _mk_compile(orig: T.Any) -> T.Any:
    """Contract on Compiler.compile(): `extra_args` - the assembled arguments of a compiler check - is added to the
    command line as ONE increment, so its -I/-L directories stay in their own order and its override-type arguments
    keep the eager order.  Compared on the real command line the check ran (CompileResult.command)."""
    import contextlib

    @contextlib.contextmanager
    def compile(self: T.Any, code: T.Any, extra_args: T.Any = None, **kw: T.Any) -> T.Iterator[T.Any]:
        ea: T.Optional[T.List[str]] = None
        if STATE.enabled and not STATE.depth:
            try:
                if extra_args is not None and not callable(extra_args):
                    ea = [a for a in extra_args]
                    if not all(isinstance(a, str) for a in ea):
                        ea = None
                    else:
                        extra_args = ea if not isinstance(extra_args, _BASE_CLS) else extra_args
            except Exception as e:
                _monitor_error('compile', e)
                ea = None
        with orig(self, code, extra_args, **kw) as p:
            if ea is not None:
                try:
                    _check_compile(self, ea, list(getattr(p, 'command', None) or []))
                except Exception as e:
                    _monitor_error('compile', e)
            yield p
    return compile


def _check_compile(compiler: T.Any, ea: T.List[str], command: T.List[str]) -> None:
    syntax, exc = _call(compiler.get_argument_syntax)
    if exc is not None or syntax != 'gcc' or not command:
        STATE.count('contract:compile-check:not-gcc-syntax-or-no-command')
        return
    probe, exc = _call(compiler.compiler_args)
    if exc is not None or _TABLES.get(type(probe)) is not refargs.CLIKE:
        STATE.count('contract:compile-check:unmodelled-class')
        return
    t = refargs.CLIKE
    ref = refargs.RefArgs(t)
    ref.add_batch(ea)
    watched = {a for a in ea if t.prepends(a) or t.kind(a) == refargs.OVERRIDDEN}
    expected = [a for a in ref.items if a in watched]
    observed = [a for a in command if a in watched]
    ndirs = len([a for a in expected if t.prepends(a)])
    STATE.count('contract:compile-check-increment' + (':several-dirs' if ndirs >= 2 else ':trivial'))
    if observed != expected:
        _violate('compile-check-arguments-not-one-increment:' + classify_list_diff(t, observed, expected), None,
                 'Compiler.compile(extra_args)', observed, expected, {'extra_args': ea, 'command': command})


def _mk_basic_args(orig: T.Any) -> T.Any:
    """Contract on CLikeCompiler._get_basic_compiler_args(mode): in LINK mode the option-derived link arguments
    (<lang>_link_args: LDFLAGS, -D<lang>_link_args) reach the check's command line; the ones that cannot be
    de-duplicated keep their order and multiplicity."""
    def _get_basic_compiler_args(self: T.Any, mode: T.Any) -> T.Any:
        res = orig(self, mode)
        if not STATE.enabled or STATE.depth:
            return res
        try:
            if getattr(mode, 'name', '') != 'LINK':
                return res
            from mesonbuild.options import OptionKey
            store = self.environment.coredata.optstore
            value = store.get_value_for(OptionKey(f'{self.language}_link_args', machine=self.for_machine))
            cvalue = store.get_value_for(OptionKey(f'{self.language}_args', machine=self.for_machine))
            if not isinstance(value, list):
                return res
            t = refargs.CLIKE
            nd = [a for a in value if t.kind(a) == refargs.NONE]
            if not nd:
                STATE.count('contract:check-link-option-args:trivial')
                return res
            STATE.count('contract:check-link-option-args')
            ndset = set(nd)
            cargs = list(res[0])
            largs = list(res[1])
            both = cargs + largs
            # <lang>_args (CFLAGS) are on the line already and are wanted once only, so the copy of them that the option
            # carries may be left out; what must not happen is that the line ends up with FEWER occurrences of a
            # non-dedupable argument than the link option holds, or with the kept ones in another order
            lost = sorted(a for a in ndset if both.count(a) < nd.count(a))
            kept = [a for a in largs if a in ndset]
            it = iter(nd)
            in_order = all(any(a == b for b in it) for a in kept)
            if lost or not in_order:
                also_c = isinstance(cvalue, list) and lost and all(a in cvalue for a in lost)
                mech = ('compiler-check-drops-link-args-that-also-occur-in-lang-args' if also_c
                        else 'compiler-check-link-option-args-differ:' + ('lost' if lost else 'order'))
                _violate(mech, None, '_get_basic_compiler_args(LINK)', {'compile_args': cargs, 'link_args': largs},
                         {'lost': lost, 'link_args_option': list(value)},
                         {'lang_args_option': list(cvalue) if isinstance(cvalue, list) else repr(cvalue)})
        except Exception as e:
            _monitor_error('basic-args', e)
        return res
    return _get_basic_compiler_args


def install_compile_contract() -> None:
    from mesonbuild.compilers import compilers
    from mesonbuild.compilers.mixins import clike
    if ('compile', 'contract') in _ORIG:
        return
    orig = compilers.Compiler.__dict__['compile']
    _ORIG[('compile', 'contract')] = orig      # type: ignore[index]
    compilers.Compiler.compile = _mk_compile(orig)
    orig2 = clike.CLikeCompiler.__dict__['_get_basic_compiler_args']
    _ORIG[('basic-args', 'contract')] = orig2  # type: ignore[index]
    clike.CLikeCompiler._get_basic_compiler_args = _mk_basic_args(orig2)


def install_shadow(rec: T.Callable[[dict], None]) -> None:
    """runner.meson monitor: install in the forked child, stream violations, flush counters at exit."""
    install()
    install_compile_contract()
    STATE.reset()
    STATE.depth = 0
    STATE.enabled = True
    STATE.keep_history = True
    STATE.track_pure = True
    STATE.rec = rec
    from vf import runner

    def flush(rec2: T.Callable[[dict], None]) -> None:
        rec2({'kind': 'counters', 'counters': dict(STATE.counters), 'nviol': STATE.nviol})
    runner.at_child_exit(flush)


# ---- helpers for the in-process workloads ----------------------------------------------------------
def clone_with_shadow(obj: T.Any) -> T.Any:
    """A state-for-state twin of a real argument list *including its unmerged queues* (no flush), with a
    twin shadow. Lets a search tree continue from a lazy state without replaying the prefix."""
    new = object.__new__(type(obj))
    d = new.__dict__
    for k, v in obj.__dict__.items():
        if k == '_vf_shadow':
            continue
        if isinstance(v, list):
            d[k] = list(v)
        elif isinstance(v, collections.deque):
            d[k] = collections.deque(v)
        elif isinstance(v, (set, dict)):
            d[k] = v.copy()
        else:
            d[k] = v
    sh = obj.__dict__.get('_vf_shadow')
    if sh:
        d['_vf_shadow'] = sh.clone(id(new))
    elif sh is False:
        d['_vf_shadow'] = False
    return new


def take_violations() -> T.List[dict]:
    v = STATE.violations
    STATE.violations = []
    return v
