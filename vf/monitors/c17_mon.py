"""C17 monitors, installed inside the forked `meson rewrite` child (runner.meson(monitors=[install])).

* Rewriter.apply_changes is wrapped: before the real method runs, every pending edit is recorded
  (action modify/rm/add, node class, file, recorded extent lineno:colno-end_lineno:end_colno); the text each
  AstPrinter produced for it is captured from AstPrinter.post_process (the rewriter calls it once per re-printed
  node), so the record says which span is spliced and with what replacement.
* every AstPrinter.visit_* method reached while re-printing is counted (which node shapes were re-printed);
  ParenthesizedNode is counted separately whether or not the printer has its own visit method for it.
The wrappers never raise through the code they observe.
"""
from __future__ import annotations

import os
import typing as T


def install(rec: T.Callable[[dict], None]) -> None:
    try:
        from mesonbuild import rewriter as RW
        from mesonbuild.ast import printer as PR
        from mesonbuild import mparser
    except Exception as e:    # a broken tree shows up in the cases themselves
        rec({'ev': 'monitor-install-failed', 'why': repr(e)})
        return

    visits: T.Dict[str, int] = {}
    printed: T.List[str] = []
    state = {'in_apply': False}

    def wrap_visit(name: str, fn: T.Callable) -> T.Callable:
        def w(self: T.Any, node: T.Any) -> T.Any:
            if state['in_apply'] and type(self) is PR.AstPrinter:
                visits[name] = visits.get(name, 0) + 1
            return fn(self, node)
        w.__name__ = name
        return w

    for name in dir(PR.AstPrinter):
        if name.startswith('visit_') and name != 'visit_default_func':
            try:
                setattr(PR.AstPrinter, name, wrap_visit(name[6:], getattr(PR.AstPrinter, name)))
            except Exception:
                pass

    orig_pp = PR.AstPrinter.post_process

    def post_process(self: T.Any) -> None:
        orig_pp(self)
        if state['in_apply']:
            try:
                printed.append(str(self.result).strip())
            except Exception:
                pass
    PR.AstPrinter.post_process = post_process    # type: ignore[method-assign]

    orig_apply = RW.Rewriter.apply_changes

    def apply_changes(self: T.Any) -> None:
        edits = []
        try:
            root = os.path.realpath(self.sourcedir)
            for action, nodes in (('modify', self.modified_nodes), ('rm', self.to_remove_nodes), ('add', self.to_add_nodes)):
                for n in nodes:
                    fn = getattr(n, 'filename', '')
                    try:
                        fn = os.path.relpath(os.path.realpath(fn), root)
                    except Exception:
                        pass
                    edits.append({'action': action, 'node': type(n).__name__, 'file': fn,
                                  'span': [getattr(n, 'lineno', None), getattr(n, 'colno', None),
                                           getattr(n, 'end_lineno', None), getattr(n, 'end_colno', None)]})
        except Exception as e:
            edits.append({'action': 'monitor-error', 'why': repr(e)})
        del printed[:]
        state['in_apply'] = True
        try:
            return orig_apply(self)
        finally:
            state['in_apply'] = False
            rec({'ev': 'apply_changes', 'edits': edits, 'printed': [p[:400] for p in printed],
                 'visits': dict(visits)})
            visits.clear()
    RW.Rewriter.apply_changes = apply_changes    # type: ignore[method-assign]
    del mparser
