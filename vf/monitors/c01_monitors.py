"""Monitors injected into the real interpreter for C01 (DESIGN.md C01 "Mon").

  real_sexpr(node)         mparser tree -> the canonical s-expression of vf.ref.refmeson.sexpr
  install(rec, opts)       wrap mparser.Parser.parse (AST-shape post-condition), InterpreterBase.evaluate_codeblock /
                           set_variable / func_unset_variable (alias monitor) and InterpreterObject.operator_call /
                           method_call / InterpreterBase.evaluate_statement (coverage counters).
All wrappers record through rec({...}) and never raise through the code they observe.
Imports of mesonbuild happen inside the functions (the module itself is importable without the repo).
"""
from __future__ import annotations

import collections
import hashlib
import typing as T

from vf.ref import refmeson


# --------------------------------------------------------------------------------------------------
# real tree -> canonical s-expression

def real_sexpr(n: T.Any) -> str:
    from mesonbuild import mparser as mp
    k = type(n).__name__
    if isinstance(n, mp.ParenthesizedNode):
        return real_sexpr(n.inner)
    if isinstance(n, mp.CodeBlockNode):
        return '(block' + ''.join(' ' + real_sexpr(x) for x in n.lines) + ')'
    if isinstance(n, mp.NumberNode):
        return f'(int {n.value})'
    if isinstance(n, mp.BooleanNode):
        return '(bool true)' if n.value else '(bool false)'
    if isinstance(n, mp.StringNode):
        return f'({"fstr" if n.is_fstring else "str"} {n.value!r})'
    if isinstance(n, mp.IdNode):
        return f'(id {n.value})'
    if isinstance(n, mp.ArrayNode):
        if n.args.kwargs:
            return '(array-with-kwargs)'
        return '(array' + ''.join(' ' + real_sexpr(x) for x in n.args.arguments) + ')'
    if isinstance(n, mp.DictNode):
        if n.args.arguments:
            return '(dict-with-posargs)'
        return '(dict' + ''.join(f' ({real_sexpr(a)} {real_sexpr(b)})' for a, b in n.args.kwargs.items()) + ')'
    if isinstance(n, mp.NotNode):
        return f'(not {real_sexpr(n.value)})'
    if isinstance(n, mp.UMinusNode):
        return f'(neg {real_sexpr(n.value)})'
    if isinstance(n, mp.ComparisonNode):
        op = 'notin' if n.ctype == 'not in' else n.ctype
        return f'({op} {real_sexpr(n.left)} {real_sexpr(n.right)})'
    if isinstance(n, mp.ArithmeticNode):
        return f'({n.operation} {real_sexpr(n.left)} {real_sexpr(n.right)})'
    if isinstance(n, mp.AndNode):
        return f'(and {real_sexpr(n.left)} {real_sexpr(n.right)})'
    if isinstance(n, mp.OrNode):
        return f'(or {real_sexpr(n.left)} {real_sexpr(n.right)})'
    if isinstance(n, mp.TernaryNode):
        return f'(? {real_sexpr(n.condition)} {real_sexpr(n.trueblock)} {real_sexpr(n.falseblock)})'
    if isinstance(n, mp.IndexNode):
        return f'(index {real_sexpr(n.iobject)} {real_sexpr(n.index)})'
    if isinstance(n, mp.FunctionNode):
        return f'(call {n.func_name.value}' + _args(n.args) + ')'
    if isinstance(n, mp.MethodNode):
        return f'(method {real_sexpr(n.source_object)} {n.name.value}' + _args(n.args) + ')'
    if isinstance(n, mp.PlusAssignmentNode):
        return f'(+= {n.var_name.value} {real_sexpr(n.value)})'
    if isinstance(n, mp.AssignmentNode):
        return f'(= {n.var_name.value} {real_sexpr(n.value)})'
    if isinstance(n, mp.IfClauseNode):
        s = '(if' + ''.join(f' ({real_sexpr(i.condition)} {real_sexpr(i.block)})' for i in n.ifs)
        if not isinstance(n.elseblock, mp.EmptyNode):
            s += f' (else {real_sexpr(n.elseblock.block)})'
        return s + ')'
    if isinstance(n, mp.ForeachClauseNode):
        return f'(foreach ({" ".join(v.value for v in n.varnames)}) {real_sexpr(n.items)} {real_sexpr(n.block)})'
    if isinstance(n, mp.BreakNode):
        return '(break)'
    if isinstance(n, mp.ContinueNode):
        return '(continue)'
    if isinstance(n, mp.EmptyNode):
        return '(empty)'
    return f'(?{k})'


def _args(a: T.Any) -> str:
    from mesonbuild import mparser as mp
    s = ''.join(' ' + real_sexpr(x) for x in a.arguments)
    for k, v in a.kwargs.items():
        kn = k.value if isinstance(k, mp.IdNode) else '?' + real_sexpr(k)
        s += f' (kw {kn} {real_sexpr(v)})'
    if a.incorrect_order():
        s += ' (order-error)'
    return s


# --------------------------------------------------------------------------------------------------
# digests of held values (alias monitor)

def value_digest(obj: T.Any) -> str:
    """Deep digest of what a variable holds; distinguishes bool from int; identity-free."""
    h = hashlib.sha1()

    def go(x: T.Any, depth: int = 0) -> None:
        held = getattr(x, 'held_object', x)
        t = type(held)
        if t is bool:
            h.update(b'b1' if held else b'b0')
        elif t is int:
            h.update(b'i' + str(held).encode())
        elif isinstance(held, str):
            h.update(b's' + str(len(held)).encode() + b':' + held.encode('utf-8', 'surrogatepass'))
        elif isinstance(held, list):
            h.update(b'[')
            for y in held:
                go(y, depth + 1)
            h.update(b']')
        elif isinstance(held, dict):
            h.update(b'{')
            for k, y in held.items():
                go(k, depth + 1)
                go(y, depth + 1)
            h.update(b'}')
        elif hasattr(held, 'range') and isinstance(getattr(held, 'range'), range):
            r = held.range
            h.update(f'r{r.start},{r.stop},{r.step}'.encode())
        else:
            h.update(b'o' + type(held).__name__.encode())   # opaque objects: by type only
    go(obj)
    return h.hexdigest()[:12]


# --------------------------------------------------------------------------------------------------

def install(rec: T.Callable[[dict], None], opts: T.Optional[dict] = None) -> None:
    """Install all C01 monitors in this (child) process."""
    opts = opts or {}
    from mesonbuild import mparser as mp
    from mesonbuild.interpreterbase import interpreterbase as ib
    from mesonbuild.interpreterbase import baseobjects as bo
    from mesonbuild.interpreter import interpreter as interp
    from vf import runner

    counters: T.Counter[str] = collections.Counter()
    state = {'depth': 0, 'touched': set(), 'viol': 0}

    # watchdog for runaway programs (a self-extending loop under a broken `+=`): bounded address space, so that
    # the child dies with a MemoryError (reported as an internal error) instead of eating the machine
    try:
        import resource
        lim = int(opts.get('mem_limit', 4 << 30))
        resource.setrlimit(resource.RLIMIT_AS, (lim, lim))
    except Exception:
        pass

    # ---- (2) AST-shape post-condition on Parser.parse -------------------------------------------
    orig_parse = mp.Parser.parse

    def parse(self: T.Any) -> T.Any:
        block = orig_parse(self)
        try:
            counters['mon:ast-shape'] += 1
            text = self.lexer.code
            real = real_sexpr(block)
            try:
                ref = refmeson.sexpr(refmeson.parse(text))
                err = None
            except refmeson.RefSyntaxError as e:
                ref, err = None, {'line': e.line, 'msg': e.msg}
            except refmeson.RefUnspecified as e:
                ref, err = real, None
                counters['mon:ast-shape:unspecified'] += 1
            if ref != real:
                rec({'ev': 'ast-shape', 'file': getattr(self.current, 'filename', '') or '', 'real': real[:4000],
                     'ref': None if ref is None else ref[:4000], 'ref_error': err, 'text': text[:6000]})
        except Exception as e:   # the monitor must never disturb the run
            rec({'ev': 'monitor-error', 'where': 'ast-shape', 'err': repr(e)})
        return block
    mp.Parser.parse = parse

    # ---- (1) alias monitor -----------------------------------------------------------------------
    snapshots: T.Dict[int, T.Dict[str, str]] = {}

    def snap(itp: T.Any) -> T.Dict[str, str]:
        return {k: value_digest(v) for k, v in itp.variables.items()}

    orig_setvar = ib.InterpreterBase.set_variable

    def set_variable(self: T.Any, varname: T.Any, variable: T.Any, **kw: T.Any) -> None:
        if isinstance(varname, str):
            state['touched'].add((id(self), varname))
        return orig_setvar(self, varname, variable, **kw)
    ib.InterpreterBase.set_variable = set_variable

    orig_unset = interp.Interpreter.func_unset_variable

    def func_unset_variable(self: T.Any, node: T.Any, args: T.Any, kwargs: T.Any) -> T.Any:
        try:
            if args and isinstance(args[0], str):
                state['touched'].add((id(self), args[0]))
        except Exception:
            pass
        return orig_unset(self, node, args, kwargs)
    interp.Interpreter.func_unset_variable = func_unset_variable
    try:
        # the function table is bound at Interpreter construction time from the class attribute
        pass
    except Exception:
        pass

    orig_codeblock = ib.InterpreterBase.evaluate_codeblock

    def check_after(self: T.Any, before: T.Dict[str, str], touched_before: T.Set, node: T.Any) -> T.Dict[str, str]:
        after = snap(self)
        counters['mon:alias'] += 1
        me = id(self)
        for name in set(before) | set(after):
            if before.get(name) != after.get(name) and (me, name) not in state['touched']:
                state['viol'] += 1
                if state['viol'] <= 5:
                    rec({'ev': 'alias', 'name': name, 'line': getattr(node, 'lineno', -1),
                         'stmt': real_sexpr(node)[:600], 'subproject': getattr(self, 'subproject', ''),
                         'subdir': getattr(self, 'subdir', '')})
        return after

    def evaluate_codeblock(self: T.Any, node: T.Any, start: int = 0, end: T.Optional[int] = None) -> None:
        # Only statement lists are instrumented: each statement of every block (top level, if/foreach bodies,
        # subdir files) is bracketed by digests of all variables of the interpreter that runs it.
        if node is None or not isinstance(node, mp.CodeBlockNode) or not opts.get('alias', True):
            return orig_codeblock(self, node, start, end)
        statements = node.lines[start:end]
        holder = mp.CodeBlockNode.__new__(mp.CodeBlockNode)
        holder.__dict__.update(node.__dict__)
        for cur in statements:
            simple = not isinstance(cur, (mp.IfClauseNode, mp.ForeachClauseNode))
            if simple:
                before = snap(self)
                saved = state['touched']
                state['touched'] = set()
            holder.lines = [cur]
            try:
                orig_codeblock(self, holder, 0, None)
            finally:
                if simple:
                    try:
                        check_after(self, before, saved, cur)
                    except Exception as e:
                        rec({'ev': 'monitor-error', 'where': 'alias', 'err': repr(e)})
                    # names touched inside a nested statement (subdir() runs whole files) stay touched for
                    # the enclosing statement as well
                    saved |= state['touched']
                    state['touched'] = saved
    ib.InterpreterBase.evaluate_codeblock = evaluate_codeblock

    # ---- (3) coverage counters -------------------------------------------------------------------
    def hname(x: T.Any) -> str:
        held = getattr(x, 'held_object', x)
        t = type(held)
        if held is None:
            return 'none'
        if t is bool:
            return 'bool'
        if t is int:
            return 'int'
        if isinstance(held, str):
            return 'str'
        if isinstance(held, list):
            return 'array'
        if isinstance(held, dict):
            return 'dict'
        return t.__name__

    orig_opcall = bo.InterpreterObject.operator_call

    def operator_call(self: T.Any, operator: T.Any, other: T.Any) -> T.Any:
        counters[f'cell:op:{operator.value}:{hname(self)}:{hname(other)}'] += 1
        return orig_opcall(self, operator, other)
    bo.InterpreterObject.operator_call = operator_call
    # IntegerHolder overrides operator_call and calls super(): the base wrapper is still reached.

    orig_mcall = bo.InterpreterObject.method_call

    def method_call(self: T.Any, method_name: str, args: T.Any, kwargs: T.Any) -> T.Any:
        counters[f'cell:method:{hname(self)}.{method_name}'] += 1
        return orig_mcall(self, method_name, args, kwargs)
    bo.InterpreterObject.method_call = method_call

    orig_stmt = ib.InterpreterBase.evaluate_statement

    def evaluate_statement(self: T.Any, cur: T.Any) -> T.Any:
        counters['cell:node:' + type(cur).__name__] += 1
        return orig_stmt(self, cur)
    ib.InterpreterBase.evaluate_statement = evaluate_statement

    def flush(rec2: T.Callable[[dict], None]) -> None:
        rec2({'ev': 'counters', 'c': dict(counters)})
    runner.at_child_exit(flush)
    # errors leave through mesonmain's error handler and still return normally to the runner, so the flush
    # hook runs for failing programs too; a raw BaseException (see break outside a loop) skips it.
    state['flush'] = flush
