"""Kill-point injector (C09): counts Python-level file-system mutations on paths inside a build directory
and SIGKILLs the process at the n-th one.

Kill points (each gets a sequence number, in program order):
  open      before a file is opened for writing/creating (audit event `open`)          -> file untouched
  opened    right after such an open returned (builtins.open / io.open wrapper)          -> file exists, truncated, empty
  write     before a write() on such a file; variant torn: half of the data is written and flushed, then kill
  flush     before flush();  close  before close()  (buffered data never reaches the file)
  fsync     before os.fsync() of such a file
  rename/remove/rmdir/mkdir/symlink/link/truncate/chmod/utime   before the call (audit events)
Operations given relative to a dir_fd (shutil.rmtree during --wipe) are resolved through /proc/self/fd.
Counting mode (kill_at=0) only records the op list.  The monitor never raises into meson.
"""
from __future__ import annotations

import builtins
import io
import os
import signal
import sys
import typing as T

_WRITE_FLAGS = os.O_WRONLY | os.O_RDWR | os.O_CREAT | os.O_TRUNC | os.O_APPEND


def make_injector(bdir: str, kill_at: int = 0, torn: bool = False, skip_logs_after: int = 0) -> T.Callable:
    bdir = os.path.realpath(bdir)
    prefix = bdir + os.sep

    def monitor(rec: T.Callable[[dict], None]) -> None:
        state = {'n': 0, 'busy': False}

        def inside(p: T.Optional[str]) -> bool:
            return p is not None and (p == bdir or p.startswith(prefix))

        def resolve(path: T.Any, dir_fd: T.Any = None) -> T.Optional[str]:
            try:
                if isinstance(path, int):
                    return os.readlink(f'/proc/self/fd/{path}')
                p = os.fsdecode(path)
                if not os.path.isabs(p):
                    base = os.readlink(f'/proc/self/fd/{dir_fd}') if isinstance(dir_fd, int) and dir_fd >= 0 else os.getcwd()
                    p = os.path.join(base, p)
                d, b = os.path.split(os.path.normpath(p))
                return os.path.join(os.path.realpath(d), b)
            except Exception:
                return None

        def point(op: str, path: T.Optional[str], data: T.Any = None, f: T.Any = None) -> None:
            """A kill point. Called BEFORE the operation is performed."""
            if state['busy'] or not inside(path):
                return
            state['busy'] = True
            try:
                state['n'] += 1
                n = state['n']
                rel = os.path.relpath(path, bdir)
                if kill_at == 0:
                    rec({'n': n, 'op': op, 'path': rel, 'len': len(data) if data is not None else None})
                elif n == kill_at:
                    if torn and op == 'write' and data is not None and f is not None and len(data) > 1:
                        try:
                            f.write(data[:len(data) // 2])
                            f.flush()
                        except Exception:
                            pass
                    rec({'killed_at': n, 'op': op, 'path': rel, 'torn': bool(torn and op == 'write')})
                    try:
                        sys.stdout.flush()
                        sys.stderr.flush()
                    except Exception:
                        pass
                    os.kill(os.getpid(), signal.SIGKILL)
            finally:
                state['busy'] = False

        # ---- audit events: the operations themselves ------------------------------------
        def hook(event: str, args: tuple) -> None:
            try:
                if event == 'open':
                    path, mode, flags = args
                    if isinstance(flags, int) and flags & _WRITE_FLAGS:
                        point('open', resolve(path))
                elif event == 'os.rename':
                    src, dst, sfd, dfd = args
                    p = resolve(dst, dfd)
                    point('rename', p if inside(p) else resolve(src, sfd))
                elif event == 'os.remove':
                    point('remove', resolve(args[0], args[1]))
                elif event == 'os.rmdir':
                    point('rmdir', resolve(args[0], args[1]))
                elif event == 'os.mkdir':
                    point('mkdir', resolve(args[0], args[2]))
                elif event == 'os.symlink':
                    point('symlink', resolve(args[1], args[2]))
                elif event == 'os.link':
                    point('link', resolve(args[1], args[3]))
                elif event == 'os.truncate':
                    point('truncate', resolve(args[0]))
                elif event == 'os.chmod':
                    point('chmod', resolve(args[0], args[2]))
                elif event == 'os.utime':
                    point('utime', resolve(args[0], args[3]))
            except Exception:
                pass
        sys.addaudithook(hook)

        # ---- file objects opened for writing inside the build dir ------------------------
        real_open = builtins.open

        class FileProxy:
            def __init__(self, f: T.Any, path: str) -> None:
                object.__setattr__(self, '_f', f)
                object.__setattr__(self, '_p', path)

            def write(self, data: T.Any) -> T.Any:
                point('write', self._p, data, self._f)
                return self._f.write(data)

            def writelines(self, lines: T.Any) -> None:
                for l in lines:
                    self.write(l)

            def flush(self) -> None:
                point('flush', self._p)
                return self._f.flush()

            def close(self) -> None:
                if not self._f.closed:
                    point('close', self._p)
                return self._f.close()

            def __enter__(self) -> 'FileProxy':
                self._f.__enter__()
                return self

            def __exit__(self, *a: T.Any) -> T.Any:
                self.close()
                return None

            def __iter__(self) -> T.Any:
                return iter(self._f)

            def __getattr__(self, name: str) -> T.Any:
                return getattr(self._f, name)

            def __setattr__(self, name: str, value: T.Any) -> None:
                setattr(self._f, name, value)

        def open_wrapper(file: T.Any, mode: str = 'r', *a: T.Any, **kw: T.Any) -> T.Any:
            f = real_open(file, mode, *a, **kw)
            try:
                if isinstance(mode, str) and any(c in mode for c in 'wax+') and not isinstance(file, int):
                    p = resolve(file)
                    if inside(p):
                        point('opened', p)
                        return FileProxy(f, T.cast(str, p))
            except Exception:
                pass
            return f
        builtins.open = open_wrapper  # type: ignore
        io.open = open_wrapper  # type: ignore

        real_fsync = os.fsync

        def fsync_wrapper(fd: T.Any) -> None:
            try:
                n = fd if isinstance(fd, int) else fd.fileno()
                point('fsync', resolve(n))
            except Exception:
                pass
            return real_fsync(fd)
        os.fsync = fsync_wrapper  # type: ignore

        from .. import runner

        def at_exit(rec2: T.Callable[[dict], None]) -> None:
            rec2({'total_ops': state['n']})
        runner.at_child_exit(at_exit)

    return monitor
