"""C04 monitors, installed in the configuring child by runner.meson(monitors=[make_monitor(...)]).

They wrap attributes of mesonbuild.backend.ninjabackend from outside (no source hooks), never raise through
meson and write ONE record per NinjaBackend.generate() call:

  {'ev': 'c04', 'ok': bool (generate returned), 'exc': class name or None,
   'written': [[outs, implicit_outs, rule_as_written, ins, deps, orderdeps, binding_names], ...]  # write() order
   'added': n add_build calls, 'check_outputs': n calls, 'collisions': [[path, outs of the element], ...],
   'all_outputs_ok': bool|None, 'all_outputs_diff': {...},       # invariant after a successful generate
   'targets': [[id, type, build_by_default, [build-dir relative outputs]], ...],   # meson's own target table
   'tests': [[name, is_benchmark, [[target id, [outputs], via], ...]], ...],   # via: exe|arg|dep|local-program-<role>
   'orphaned_subprojects': [{'name', 'failed_ancestors', 'callstack', 'own_targets', 'dropped_paths'}, ...]}
       # found subprojects first configured inside an optional subproject that failed (Interpreter.subprojects of the
       # top-level interpreter, remembered by a wrapper on Interpreter.__init__); only used to CLASSIFY a dangling path

`rsp_threshold` (None = leave) sets ninjabackend.rsp_threshold in the child, the same knob as the
MESON_RSP_THRESHOLD environment variable (which is read at import time, i.e. before the fork).
"""
from __future__ import annotations

import os
import typing as T


def make_monitor(rsp_threshold: T.Optional[int] = None) -> T.Callable[[T.Callable[[dict], None]], None]:
    def install(rec: T.Callable[[dict], None]) -> None:
        # runner.base_env() sets MESON_FORCE_BACKTRACE='0', which mesonmain treats as "set": every
        # MesonException would be re-raised as a traceback.  C04 needs the real exit codes.
        os.environ.pop('MESON_FORCE_BACKTRACE', None)
        from mesonbuild.backend import ninjabackend as nb

        if rsp_threshold is not None:
            nb.rsp_threshold = rsp_threshold

        st: T.Dict[str, T.Any] = {}

        def reset() -> None:
            st.clear()
            st.update({'written': [], 'added': 0, 'check_outputs': 0, 'collisions': [], 'write_errors': 0,
                       'added_outs': set()})
        reset()

        orig_write = nb.NinjaBuildElement.write
        orig_check = nb.NinjaBuildElement.check_outputs
        orig_add = nb.NinjaBuild.add_build
        orig_generate = nb.NinjaBackend.generate

        def write(self: T.Any, outfile: T.Any) -> None:
            try:
                if not self.output_errors:
                    try:
                        rsp = bool(self._should_use_rspfile)
                    except Exception:
                        rsp = False
                    st['written'].append([
                        [str(x) for x in self.outfilenames],
                        [str(x) for x in self.implicit_outfilenames],
                        self.rulename + ('_RSP' if rsp else ''),
                        [str(x) for x in self.infilenames],
                        sorted(str(x) for x in self.deps),
                        sorted(str(x) for x in self.orderdeps),
                        sorted({str(e[0]) for e in self.elems}),
                    ])
                else:
                    st['write_errors'] += 1
            except Exception:
                pass
            return orig_write(self, outfile)

        def check_outputs(self: T.Any) -> None:
            before = None
            try:
                st['check_outputs'] += 1
                before = self.output_errors
            except Exception:
                pass
            res = orig_check(self)
            try:
                if self.output_errors and self.output_errors != before and len(st['collisions']) < 20:
                    st['collisions'].append([self.output_errors, [str(x) for x in self.outfilenames]])
            except Exception:
                pass
            return res

        def add_build(self: T.Any, build: T.Any) -> None:
            try:
                st['added'] += 1
                st['added_outs'].update(str(x) for x in build.outfilenames)
            except Exception:
                pass
            return orig_add(self, build)

        def target_names(backend: T.Any) -> T.Dict[str, T.List[str]]:
            """id -> [name as given, name_prefix, name_suffix] (classifier input only: where an odd character of an
            output path came from)."""
            res: T.Dict[str, T.List[str]] = {}
            try:
                for tid, t in backend.build.get_targets().items():
                    res[tid] = [str(getattr(t, 'name', '')), str(getattr(t, 'prefix', '') or ''),
                                str(getattr(t, 'suffix', '') or '')]
            except Exception:
                pass
            return res

        def target_table(backend: T.Any) -> T.Tuple[list, list]:
            targets = []
            tests = []
            try:
                b = backend.build

                def outs_of(t: T.Any) -> T.List[str]:
                    if type(t).__name__ == 'CompileTarget':
                        d = backend.get_target_private_dir(t)    # compiler.preprocess(): outputs live there
                    else:
                        d = backend.get_target_dir(t)
                    return [os.path.join(d, o) for o in t.get_outputs()]
                for tid, t in b.get_targets().items():
                    tn = type(t).__name__
                    try:
                        targets.append([tid, tn, bool(t.build_by_default), outs_of(t)])
                    except Exception as e:
                        targets.append([tid, tn, None, ['<error ' + type(e).__name__ + '>']])
                for bench, lst in ((False, b.get_tests()), (True, b.get_benchmarks())):
                    for t in lst:
                        pre = []
                        cands = [('exe', t.exe)] + [('arg', a) for a in t.cmd_args] + [('dep', d) for d in t.depends]
                        for role, c in cands:
                            via = role
                            if type(c).__name__ == 'LocalProgram' and hasattr(c, 'program'):
                                c = c.program    # find_program() result overridden with a built target
                                via = 'local-program-' + role
                            if hasattr(c, 'target') and hasattr(c, 'output') and hasattr(c.target, 'get_outputs'):
                                c = c.target     # CustomTargetIndex
                            if hasattr(c, 'get_outputs') and hasattr(c, 'get_id') and hasattr(c, 'build_by_default'):
                                try:
                                    pre.append([c.get_id(), outs_of(c), via])
                                except Exception:
                                    pass
                        tests.append([str(t.name), bench, pre])
            except Exception as e:
                targets.append(['<table error>', type(e).__name__, None, [str(e)[:200]]])
            return targets, tests

        def orphaned_subprojects(backend: T.Any) -> T.List[dict]:
            """Subprojects that are registered as found in Interpreter.subprojects although they were configured
            from within an optional subproject that then failed (some entry of their call stack is registered as
            not found): the Build copy they were merged into was thrown away with the failed subproject.  For each,
            the build-dir paths of its own targets that did not make it into the final Build (classifier input only:
            WHY a path dangles; whether it dangles is decided on the manifest)."""
            res: T.List[dict] = []
            top = tops[-1] if tops else None
            if top is None:
                return res
            seen: T.Set[int] = set()
            final = backend.build.get_targets()
            for attr in ('host', 'build'):
                subs = getattr(top.subprojects, attr, None)
                if not isinstance(subs, dict) or id(subs) in seen:
                    continue
                seen.add(id(subs))
                for name, holder in subs.items():
                    if not holder.found() or not holder.callstack:
                        continue
                    failed = [str(n) for n, _m in holder.callstack if n in subs and not subs[n].found()]
                    if not failed:
                        continue
                    paths: T.List[str] = []
                    n_own = 0
                    for tid, t in holder.held_object.build.get_targets().items():
                        if getattr(t, 'subproject', None) != name:
                            continue
                        n_own += 1
                        if tid in final:
                            continue
                        try:
                            d = backend.get_target_private_dir(t) if type(t).__name__ == 'CompileTarget' \
                                else backend.get_target_dir(t)
                            paths += [os.path.join(d, o) for o in t.get_outputs()]
                        except Exception:
                            pass
                    res.append({'name': str(name), 'machine': attr, 'failed_ancestors': failed,
                                'callstack': [str(n) for n, _m in holder.callstack],
                                'own_targets': n_own, 'dropped_paths': sorted(set(paths))})
            return res

        tops: T.List[T.Any] = []
        try:
            from mesonbuild.interpreter import interpreter as _interp
            orig_interp_init = _interp.Interpreter.__init__

            def interp_init(self: T.Any, *a: T.Any, **kw: T.Any) -> None:
                orig_interp_init(self, *a, **kw)
                try:
                    if not self.subproject:
                        tops.append(self)
                except Exception:
                    pass
            _interp.Interpreter.__init__ = interp_init
        except Exception:
            pass

        def generate(self: T.Any, *a: T.Any, **kw: T.Any) -> T.Any:
            reset()
            ok = False
            exc = None
            try:
                res = orig_generate(self, *a, **kw)
                ok = True
                return res
            except BaseException as e:
                exc = type(e).__name__ + ': ' + str(e)[:300]
                raise
            finally:
                try:
                    ev: T.Dict[str, T.Any] = {'ev': 'c04', 'ok': ok, 'exc': exc, 'written': st['written'],
                                              'added': st['added'], 'check_outputs': st['check_outputs'],
                                              'collisions': st['collisions'], 'write_errors': st['write_errors'],
                                              'rsp_threshold': nb.rsp_threshold}
                    if ok:
                        ao = set(str(x) for x in self.all_outputs)
                        added = st['added_outs']
                        ev['all_outputs_ok'] = ao == added
                        if ao != added:
                            ev['all_outputs_diff'] = {'only_all_outputs': sorted(ao - added)[:10],
                                                      'only_added': sorted(added - ao)[:10]}
                        ev['all_outputs_n'] = len(ao)
                    ev['targets'], ev['tests'] = target_table(self)
                    ev['target_names'] = target_names(self)
                    try:
                        ev['orphaned_subprojects'] = orphaned_subprojects(self)
                    except Exception as e:
                        ev['orphaned_subprojects'] = []
                        ev['orphaned_subprojects_error'] = repr(e)[:200]
                    rec(ev)
                except Exception as e:   # never through meson
                    try:
                        rec({'ev': 'c04-monitor-error', 'err': repr(e)[:300]})
                    except Exception:
                        pass

        nb.NinjaBuildElement.write = write
        nb.NinjaBuildElement.check_outputs = check_outputs
        nb.NinjaBuild.add_build = add_build
        nb.NinjaBackend.generate = generate
    return install
