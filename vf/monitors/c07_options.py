"""C07 monitors, installed inside the forked meson child (runner.meson(monitors=[make(...)])).

  * wrapper on OptionStore.set_option / set_user_option: records (phase, key, value, nesting depth)
    so the evidence shows the order in which the sources were applied;
  * invariant hook at the end of initialize_from_top_level_project_call /
    initialize_from_subproject_call and at coredata.save: for every option and every augment,
    opt.validate_value(value) == value (a stored value always satisfies type/choices/range);
  * at child exit: load the persisted coredata.dat with the real coredata.load and ask the real
    OptionStore.get_value_for for the probe keys (in-process observation channel).

Monitors only record; they never raise through meson.
"""
from __future__ import annotations

import functools
import os
import typing as T


def _plain(v: T.Any) -> T.Any:
    if isinstance(v, bool) or v is None:
        return v
    if isinstance(v, int):
        return int(v)
    if isinstance(v, str):
        return str(v)
    if isinstance(v, (list, tuple)):
        return [_plain(x) for x in v]
    return {'repr': repr(v)}


def check_store(store: T.Any) -> T.Tuple[int, T.List[dict]]:
    """(number of stored values checked, list of values that fail their own option's validation)."""
    from mesonbuild import mlog
    checked = 0
    bad: T.List[dict] = []
    with mlog.no_logging():
        for key, opt in list(store.options.items()):
            checked += 1
            v = opt.value
            try:
                w = opt.validate_value(v)
                ok = (w == v) and (isinstance(w, bool) == isinstance(v, bool))
            except Exception as e:   # MesonException or anything else: the value is not valid
                ok = False
                w = f'{type(e).__name__}: {e}'
            if not ok:
                bad.append({'where': 'option', 'key': str(key), 'type': type(opt).__name__,
                            'value': _plain(v), 'validated': _plain(w)})
        for key, v in list(store.augments.items()):
            checked += 1
            try:
                opt = store.resolve_option(key)
                w = opt.validate_value(v)
                ok = (w == v) and (isinstance(w, bool) == isinstance(v, bool))
            except Exception as e:
                ok = False
                opt = None
                w = f'{type(e).__name__}: {e}'
            if not ok:
                bad.append({'where': 'augment', 'key': str(key), 'type': type(opt).__name__,
                            'value': _plain(v), 'validated': _plain(w)})
    return checked, bad


def make(bdir: str, probes: T.Sequence[T.Tuple[str, T.Optional[str]]], trace_names: T.Sequence[str]) -> T.Callable:
    """probes: (option name, subproject or None) pairs to read back from the persisted coredata.
    trace_names: option names whose set_option/set_user_option calls are recorded."""
    names = set(trace_names)

    def install(rec: T.Callable[[dict], None]) -> None:
        from mesonbuild import options as O
        from mesonbuild import coredata as CD
        from vf import runner

        state = {'phase': 'pre', 'depth': 0, 'n_set_option': 0, 'n_set_user_option': 0}
        Store = O.OptionStore
        real_set_option = Store.set_option
        real_set_user_option = Store.set_user_option
        real_top = Store.initialize_from_top_level_project_call
        real_sub = Store.initialize_from_subproject_call
        real_save = CD.save

        @functools.wraps(real_set_option)
        def set_option(self: T.Any, key: T.Any, new_value: T.Any, first_invocation: bool = False) -> bool:
            state['n_set_option'] += 1
            try:
                if key.name in names:
                    rec({'ev': 'set_option', 'phase': state['phase'], 'depth': state['depth'],
                         'key': str(key), 'value': _plain(new_value)})
            except Exception:
                pass
            state['depth'] += 1
            try:
                return real_set_option(self, key, new_value, first_invocation)
            finally:
                state['depth'] -= 1

        @functools.wraps(real_set_user_option)
        def set_user_option(self: T.Any, o: T.Any, new_value: T.Any, first_invocation: bool = False) -> bool:
            state['n_set_user_option'] += 1
            try:
                if o.name in names:
                    rec({'ev': 'set_user_option', 'phase': state['phase'], 'key': str(o), 'value': _plain(new_value)})
            except Exception:
                pass
            return real_set_user_option(self, o, new_value, first_invocation)

        def invariant(store: T.Any, at: str) -> None:
            try:
                n, bad = check_store(store)
                rec({'ev': 'invariant', 'at': at, 'checked': n, 'bad': bad,
                     'pending': len(store.pending_options), 'augments': len(store.augments)})
            except Exception as e:
                rec({'ev': 'monitor_error', 'at': at, 'error': repr(e)})

        @functools.wraps(real_top)
        def init_top(self: T.Any, *a: T.Any, **kw: T.Any) -> None:
            state['phase'] = 'top'
            try:
                return real_top(self, *a, **kw)
            finally:
                state['phase'] = 'after-top'
                invariant(self, 'init_top')

        @functools.wraps(real_sub)
        def init_sub(self: T.Any, subproject: str, *a: T.Any, **kw: T.Any) -> None:
            state['phase'] = 'sub:' + str(subproject)
            try:
                return real_sub(self, subproject, *a, **kw)
            finally:
                state['phase'] = 'after-sub:' + str(subproject)
                invariant(self, 'init_sub')

        @functools.wraps(real_save)
        def save(obj: T.Any, build_dir: str) -> str:
            invariant(obj.optstore, 'save')
            return real_save(obj, build_dir)

        Store.set_option = set_option                      # type: ignore[method-assign]
        Store.set_user_option = set_user_option            # type: ignore[method-assign]
        Store.initialize_from_top_level_project_call = init_top   # type: ignore[method-assign]
        Store.initialize_from_subproject_call = init_sub   # type: ignore[method-assign]
        CD.save = save

        def at_exit(rec2: T.Callable[[dict], None]) -> None:
            rec2({'ev': 'counts', 'set_option': state['n_set_option'], 'set_user_option': state['n_set_user_option']})
            dat = os.path.join(bdir, 'meson-private', 'coredata.dat')
            if not os.path.exists(dat):
                rec2({'ev': 'loaded', 'exists': False})
                return
            try:
                cd = real_load(bdir)
            except Exception as e:
                rec2({'ev': 'loaded', 'exists': True, 'error': repr(e)})
                return
            vals: T.List[T.Any] = []
            for name, sub in probes:
                try:
                    key = O.OptionKey.from_string(name).evolve(subproject=sub)
                    vals.append([name, sub, True, _plain(cd.optstore.get_value_for(key))])
                except Exception as e:
                    vals.append([name, sub, False, repr(e)])
            n, bad = check_store(cd.optstore)
            rec2({'ev': 'loaded', 'exists': True, 'values': vals, 'checked': n, 'bad': bad})

        real_load = CD.load
        runner.at_child_exit(at_exit)

    return install
