"""C15 monitors, installed inside the forked meson child by runner.meson(monitors=[make(srcroot, bdir)]).

 * audit hook: every `open` of a path under the source tree is recorded ({"open": abspath}) - the ground truth for
   intro-buildsystem_files.json (which build-definition files did the configuring process really read?); `text` is false
   when the open came from shutil / tarfile / zipfile (copying a packagefiles overlay is not reading a build definition);
 * NinjaBackend.generate / mintro.generate_introspection_file wrappers: order of the two and the sha256 of build.ninja
   when the introspection dump started (proves the dump describes the manifest that was left on disk);
 * Backend.create_install_data wrapper: the InstallData every caller got (install.dat for `meson install`, the three
   mintro users), flattened to plain lists.
Monitors never raise through meson.
"""
from __future__ import annotations

import hashlib
import os
import typing as T


def _sha(path: str) -> T.Optional[str]:
    try:
        with open(path, 'rb') as f:
            return hashlib.sha256(f.read()).hexdigest()
    except OSError:
        return None


def flatten_install_data(d: T.Any) -> dict:
    def g(o: T.Any, *names: str) -> list:
        return [getattr(o, n, None) for n in names]
    out: T.Dict[str, T.Any] = {'prefix': d.prefix, 'build_dir': d.build_dir, 'source_dir': d.source_dir}
    out['targets'] = [g(t, 'fname', 'outdir', 'out_name', 'tag', 'optional', 'subproject') for t in d.targets]
    out['data'] = [g(t, 'path', 'install_path', 'install_path_name', 'tag', 'data_type', 'subproject') for t in d.data]
    out['headers'] = [g(t, 'path', 'install_path', 'install_path_name', 'tag', 'data_type', 'subproject') for t in d.headers]
    out['man'] = [g(t, 'path', 'install_path', 'install_path_name', 'tag', 'data_type', 'subproject') for t in d.man]
    out['install_subdirs'] = [g(t, 'path', 'install_path', 'install_path_name', 'tag', 'data_type', 'subproject') +
                              [[sorted(x) for x in (t.exclude or ([], []))]] for t in d.install_subdirs]
    out['symlinks'] = [g(t, 'target', 'name', 'install_path', 'tag', 'subproject') for t in d.symlinks]
    out['emptydir'] = [g(t, 'path', 'tag', 'subproject') for t in d.emptydir]
    out['install_scripts'] = len(getattr(d, 'install_scripts', []) or [])
    return out


def make(srcroot: str, bdir: str) -> T.Callable[[T.Callable[[dict], None]], None]:
    srcroot_r = os.path.realpath(srcroot)
    bdir_r = os.path.realpath(bdir)

    def monitor(rec: T.Callable[[dict], None]) -> None:
        import sys
        seen: T.Set[T.Tuple[str, bool]] = set()

        def hook(event: str, args: tuple) -> None:
            if event != 'open':
                return
            try:
                p = args[0]
                if isinstance(p, int) or p is None:
                    return
                s = os.path.abspath(os.fsdecode(p))
                # FileIO reports the raw mode only ('r' for text and binary alike): tell a copy from a read by the stack
                text = True
                f = sys._getframe(1)
                depth = 0
                while f is not None and depth < 12:
                    if f.f_code.co_filename.endswith(('shutil.py', 'tarfile.py', 'zipfile.py')):
                        text = False
                        break
                    f = f.f_back
                    depth += 1
                if (s, text) in seen:
                    return
                if not (s.startswith(srcroot_r + os.sep) or s.startswith(srcroot + os.sep)):
                    rs = os.path.realpath(s)
                    if not rs.startswith(srcroot_r + os.sep):
                        return
                if s.startswith(bdir_r + os.sep) or s.startswith(bdir + os.sep):
                    return
                seen.add((s, text))
                rec({'open': s, 'text': text})
            except Exception:
                pass
        sys.addaudithook(hook)

        try:
            from mesonbuild import mintro
            from mesonbuild.backend import backends, ninjabackend
        except Exception as e:      # broken tree: the cases will show it
            rec({'ev': 'monitor-import-failed', 'err': repr(e)})
            return
        ninja_file = os.path.join(bdir, 'build.ninja')
        orig_gen = ninjabackend.NinjaBackend.generate

        def gen_wrap(self: T.Any, *a: T.Any, **k: T.Any) -> T.Any:
            rec({'ev': 'generate:begin'})
            try:
                return orig_gen(self, *a, **k)
            finally:
                rec({'ev': 'generate:end', 'ninja_sha': _sha(ninja_file)})
        ninjabackend.NinjaBackend.generate = gen_wrap  # type: ignore[method-assign]

        orig_intro = mintro.generate_introspection_file

        def intro_wrap(builddata: T.Any, backend: T.Any) -> None:
            rec({'ev': 'intro:begin', 'ninja_sha': _sha(ninja_file)})
            try:
                return orig_intro(builddata, backend)
            finally:
                rec({'ev': 'intro:end'})
        mintro.generate_introspection_file = intro_wrap

        orig_cid = backends.Backend.create_install_data

        def cid_wrap(self: T.Any) -> T.Any:
            d = orig_cid(self)
            try:
                rec({'ev': 'install_data', 'data': flatten_install_data(d)})
            except Exception as e:
                rec({'ev': 'install_data', 'error': repr(e)})
            return d
        backends.Backend.create_install_data = cid_wrap  # type: ignore[method-assign]
    return monitor
