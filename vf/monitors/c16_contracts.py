"""c16_contracts -- the oracle side of C16: contracts on one observed run of the real ``Formatter.format``.

Imports nothing from mesonbuild.  The independent reader is ``vf.ref.refmeson`` (tokenizer + parser); this module
adds, on refmeson's tree, exactly the normalisations the property text allows:

  * whitespace, comments, continuations, redundant commas, parentheses placement  -> already ignored by the tree
  * a triple-quoted literal rewritten to a plain one  -> strings are compared by DECODED VALUE (so the rewrite
    is accepted iff both literals denote the same string)
  * an f-string rewritten to a plain string  -> accepted iff the template holds no ``@identifier@`` placeholder
    (then both denote the same string); implemented by mapping placeholder-free f-strings to plain strings on both sides
  * ``files([...])`` flattened  -> a ``files`` call whose only argument is an array literal (no kwargs) is
    replaced by the call with the array's items, repeatedly, on both sides
  * ``files()`` arguments sorted when sort_files is on  -> iff cfg['sort_files'], the positional arguments of
    ``files`` calls are compared as multisets

``judge(inp, out, out2, cfg, ...)`` returns the list of violated contracts as (mechanism, detail) where the
mechanism names WHY (classifier over the witness), so that a different violation of the same contract is still
reported under a different key.
"""
from __future__ import annotations

import re
import typing as T

from vf.ref import refmeson as R

PLACEHOLDER_RE = re.compile(r'@[A-Za-z_][A-Za-z_0-9]*@')
# str.splitlines() boundaries other than LF / CRLF
FOREIGN_SEPS = '\r\x0b\x0c\x1c\x1d\x1e\x85  '
_FOREIGN_RE = re.compile('[' + FOREIGN_SEPS + ']')

N = T.Any   # normalised tree: nested tuples, first element = kind


# --------------------------------------------------------------------------------------------------
# normalised trees

def norm(n: T.Any, sort_files: bool = False, raw: bool = False) -> N:
    """Normalised tuple tree of a refmeson Node.  raw=True: no files()/f-string normalisation (used to compare
    two outputs of the formatter with each other)."""
    k = n.kind
    a = n.a
    if k == 'paren':
        return norm(a[0], sort_files, raw)
    if k == 'int':
        return ('int', a[0])
    if k == 'bool':
        return ('bool', a[0])
    if k == 'str':
        return ('str', a[0], bool(a[1]))
    if k == 'fstr':
        if not raw and not PLACEHOLDER_RE.search(a[0]):
            return ('str', a[0], bool(a[1]), 'was-f')
        return ('fstr', a[0], bool(a[1]))
    if k == 'id':
        return ('id', a[0])
    if k == 'array':
        return ('array',) + tuple(norm(x, sort_files, raw) for x in a[0])
    if k == 'dict':
        return ('dict',) + tuple(('pair', norm(x, sort_files, raw), norm(y, sort_files, raw)) for x, y in a[0])
    if k in ('not', 'neg'):
        return (k, norm(a[0], sort_files, raw))
    if k in ('arith', 'cmp'):
        return (k, a[0], norm(a[1], sort_files, raw), norm(a[2], sort_files, raw))
    if k in ('and', 'or'):
        return (k, norm(a[0], sort_files, raw), norm(a[1], sort_files, raw))
    if k == 'ternary':
        return ('ternary',) + tuple(norm(x, sort_files, raw) for x in a)
    if k == 'index':
        return ('index', norm(a[0], sort_files, raw), norm(a[1], sort_files, raw))
    if k in ('call', 'method'):
        if k == 'call':
            head: T.Tuple[T.Any, ...] = ('call', a[0])
            pos, kw = a[1], a[2]
        else:
            head = ('method', norm(a[0], sort_files, raw), a[1])
            pos, kw = a[2], a[3]
        p = [norm(x, sort_files, raw) for x in pos]
        kws = tuple(('kw', name, norm(v, sort_files, raw)) for name, v in kw)
        if k == 'call' and a[0] == 'files' and not raw:
            while len(p) == 1 and not kws and p[0][0] == 'array':
                p = list(p[0][1:])
            if sort_files:
                return head + (('pos*',) + tuple(p),) + (('kws',) + kws,)
        return head + (('pos',) + tuple(p),) + (('kws',) + kws,)
    if k in ('assign', 'plusassign'):
        return (k, a[0], norm(a[1], sort_files, raw))
    if k == 'if':
        return ('if',) + tuple(('clause', norm(c, sort_files, raw), norm(b, sort_files, raw)) for c, b in a[0]) + \
            ((('else', norm(a[1], sort_files, raw)),) if a[1] is not None else ())
    if k == 'foreach':
        return ('foreach', tuple(a[0]), norm(a[1], sort_files, raw), norm(a[2], sort_files, raw))
    if k in ('break', 'continue'):
        return (k,)
    if k == 'block':
        return ('block',) + tuple(norm(x, sort_files, raw) for x in a[0])
    raise ValueError('unknown node kind ' + k)


def _strip_meta(t: N) -> N:
    """Comparison form: string nodes lose their spelling flags (multiline, was-f)."""
    if isinstance(t, tuple):
        if t and t[0] in ('str', 'fstr') and len(t) >= 3 and isinstance(t[2], bool):
            return (t[0], t[1])
        if t and t[0] == 'pos*':
            return ('pos*',) + tuple(sorted((_strip_meta(x) for x in t[1:]), key=repr))
        return tuple(_strip_meta(x) for x in t)
    return t


def _sort_key(t: N) -> str:
    return repr(_strip_meta(t))


def same(a: N, b: N) -> bool:
    return _strip_meta(a) == _strip_meta(b)


def diffs(a: N, b: N, path: str = '', out: T.Optional[T.List[T.Tuple[str, N, N]]] = None, limit: int = 40
          ) -> T.List[T.Tuple[str, N, N]]:
    """Smallest differing sub-trees (path, a_sub, b_sub) of two normalised trees."""
    if out is None:
        out = []
    if len(out) >= limit:
        return out
    if not isinstance(a, tuple) or not isinstance(b, tuple):
        if a != b:
            out.append((path, a, b))
        return out
    ka, kb = (a[0] if a else None), (b[0] if b else None)
    if ka in ('str', 'fstr') or kb in ('str', 'fstr'):
        if not same(a, b):
            out.append((path, a, b))
        return out
    if ka != kb or len(a) != len(b) or not isinstance(ka, str):
        if not same(a, b):
            out.append((path, a, b))
        return out
    if ka == 'call' and a[1] == b[1] == 'files' and (len(a[2]) != len(b[2]) or not same(a[3], b[3])):
        # flattening acts on the argument list as a whole: a files() call whose number of arguments differs is one difference
        if not same(a, b):
            out.append((path, a, b))
        return out
    if ka == 'pos*':
        # arguments of files() under sort_files: compared as multisets; pair what is left over in order
        ra, rb = list(a[1:]), list(b[1:])
        for x in list(ra):
            for y in rb:
                if same(x, y):
                    ra.remove(x)
                    rb.remove(y)
                    break
        if len(ra) != len(rb):
            out.append((path, a, b))
            return out
        # pair the left-overs: same kind first (the order may differ because the arguments were sorted), then in order
        pairs = []
        for x in list(ra):
            for y in rb:
                if isinstance(x, tuple) and isinstance(y, tuple) and x and y and x[0] == y[0]:
                    pairs.append((x, y))
                    ra.remove(x)
                    rb.remove(y)
                    break
        pairs += list(zip(ra, rb))
        for i, (x, y) in enumerate(pairs):
            diffs(x, y, f'{path}/pos*.{i}', out, limit)
        return out
    # same kind, same arity: scalar fields must agree, else the node itself is the difference
    for x, y in zip(a[1:], b[1:]):
        if not isinstance(x, tuple) or not isinstance(y, tuple):
            if x != y:
                out.append((path, a, b))
                return out
    for i, (x, y) in enumerate(zip(a[1:], b[1:])):
        if isinstance(x, tuple) and isinstance(y, tuple):
            diffs(x, y, f'{path}/{ka}.{i}', out, limit)
    return out


def brief(t: N, limit: int = 200) -> str:
    s = repr(_strip_meta(t))
    return s if len(s) <= limit else s[:limit] + '...'


# --------------------------------------------------------------------------------------------------
# classifiers

def classify_tree_diff(a: N, b: N, cfg: T.Mapping[str, T.Any]) -> str:
    """WHY does output sub-tree b differ from input sub-tree a?"""
    ka, kb = a[0] if isinstance(a, tuple) and a else None, b[0] if isinstance(b, tuple) and b else None
    if ka in ('str', 'fstr') and kb in ('str', 'fstr'):
        a_ml, b_ml = bool(a[2]), bool(b[2])
        a_f = ka == 'fstr' or len(a) > 3      # spelled f'...' in the text (placeholder-free f-strings are normalised to 'str')
        b_f = kb == 'fstr' or len(b) > 3
        if a_ml and not b_ml and '\\' in a[1] and (ka == kb or a_f == b_f):
            # the raw body of the triple-quoted literal is now read with escape processing
            try:
                redecoded = R.decode_escapes(a[1])
            except R.RefError:
                redecoded = None
            if redecoded is None or b[1] == redecoded:
                return 'multiline-string-simplified-changes-escapes'
        if ka == 'fstr' and kb == 'str':
            return 'fstring-with-placeholder-made-plain'
        if ka == 'str' and kb == 'fstr':
            return 'plain-string-made-fstring'
        if a_ml and not b_ml:
            return 'multiline-string-simplified-changes-value'
        return 'string-value-changed'
    if ka == kb == 'call' and a[1] == b[1] == 'files':
        pa, pb = a[2][1:], b[2][1:]
        if sorted(map(_sort_key, pa)) == sorted(map(_sort_key, pb)) and same(a[3], b[3]):
            return 'files-arguments-reordered-without-sort_files'
        return 'files-call-changed'
    if ka == kb and ka in ('call', 'method'):
        return f'{ka}-arguments-changed'
    return f'tree-changed:{ka}->{kb}'


def files_calls(t: N, out: T.Optional[T.List[N]] = None) -> T.List[N]:
    if out is None:
        out = []
    if isinstance(t, tuple):
        if t and t[0] == 'call' and len(t) > 1 and t[1] == 'files':
            out.append(t)
        for x in t:
            files_calls(x, out)
    return out


def classify_nonidempotent(out: str, out2: str, cfg: T.Mapping[str, T.Any]) -> T.Tuple[str, dict]:
    """out2 = format(out) != out.  WHY?"""
    try:
        t1 = norm(R.parse(out), raw=True)
        t2 = norm(R.parse(out2), raw=True)
    except R.RefError as e:
        return 'non-idempotent-and-second-output-unparseable', {'error': str(e)}
    if not same(t1, t2):
        ds = diffs(t1, t2)
        kinds = set()
        for _, x, y in ds:
            if isinstance(x, tuple) and isinstance(y, tuple) and x and y and x[0] == y[0] == 'call' and x[1] == y[1] == 'files':
                px, py = x[2][1:], y[2][1:]
                if len(px) == 1 and px[0][0] == 'array' and len(x[3]) == 1:
                    # the first output still holds files([...]); the second pass unwrapped it
                    items = px[0][1:]
                    if same(('x',) + tuple(items), ('x',) + tuple(py)):
                        kinds.add('files-nested-array-flattened-one-level-per-pass')
                        continue
                    if sorted(map(_sort_key, items)) == sorted(map(_sort_key, py)) and cfg.get('sort_files'):
                        kinds.add('files-array-sorted-only-on-second-pass')
                        continue
                    kinds.add('files-call-changed-on-second-pass')
                    continue
                if sorted(map(_sort_key, px)) == sorted(map(_sort_key, py)) and cfg.get('sort_files'):
                    kinds.add('files-array-sorted-only-on-second-pass')
                    continue
            kinds.add('second-pass-changes-tree:' + classify_tree_diff(x, y, cfg))
        if len(kinds) == 1:
            return kinds.pop(), {'diff': [(p, brief(x), brief(y)) for p, x, y in ds[:3]]}
        return '+'.join(sorted(kinds)), {'diff': [(p, brief(x), brief(y)) for p, x, y in ds[:3]]}
    # same tree: only the layout moved
    return classify_layout_instability(out, out2, cfg)


def _paren_spans(n: T.Any, out: T.List[T.Tuple[int, int]]) -> None:
    if isinstance(n, R.Node):
        if n.kind == 'paren' and n.end_line > n.line:
            out.append((n.line, n.end_line))
        for x in n.a:
            _paren_spans(x, out)
    elif isinstance(n, (tuple, list)):
        for x in n:
            _paren_spans(x, out)


def _sig_tokens(text: str) -> T.Tuple[T.List[R.Token], T.List[str]]:
    """(significant tokens, gaps) where gaps[i] is the trivia text between significant token i and i+1."""
    sig: T.List[R.Token] = []
    gaps: T.List[str] = []
    cur: T.List[str] = []
    for t in R.tokenize(text, trivia=True):
        if t.kind in ('ws', 'comment', 'cont', 'nl', 'eol'):
            cur.append(t.text)
        elif t.kind == 'eof':
            break
        else:
            if sig:
                gaps.append(''.join(cur))
            cur = []
            sig.append(t)
    return sig, gaps


def _single_arg_call_edges(sig: T.Sequence[R.Token]) -> T.Set[int]:
    """Gap indices i (between token i and i+1) that sit right after the `(` or right before the `)` of a function or
    method call whose argument list holds exactly one argument and no trailing comma."""
    edges: T.Set[int] = set()
    stack: T.List[T.List[int]] = []      # [open index, top-level commas, is_call]
    for i, t in enumerate(sig):
        if t.kind in ('(', '[', '{'):
            is_call = t.kind == '(' and i > 0 and sig[i - 1].kind == 'id'
            stack.append([i, 0, int(is_call)])
        elif t.kind in (')', ']', '}'):
            if stack:
                o, commas, is_call = stack.pop()
                if is_call and commas == 0 and i > o + 1:
                    edges.add(o)
                    edges.add(i - 1)
        elif t.kind == ',' and stack:
            stack[-1][1] += 1
    return edges


def classify_layout_instability(out: str, out2: str, cfg: T.Optional[T.Mapping[str, T.Any]] = None) -> T.Tuple[str, dict]:
    """Same program, different text."""
    l1, l2 = out.split('\n'), out2.split('\n')
    # (1) only the INDENTATION of some lines differs and every such line lies inside a parenthesised expression that
    #     spans several lines
    if len(l1) == len(l2):
        bad = [i + 1 for i, (x, y) in enumerate(zip(l1, l2)) if x != y]
        if bad and all(l1[i - 1].lstrip(' \t') == l2[i - 1].lstrip(' \t') for i in bad):
            spans: T.List[T.Tuple[int, int]] = []
            try:
                _paren_spans(R.parse(out), spans)
            except R.RefError:
                spans = []
            if all(any(a <= i <= b for a, b in spans) for i in bad):
                return 'indentation-unstable-inside-multiline-parentheses', {'lines': bad[:5], 'first': (l1[bad[0] - 1], l2[bad[0] - 1])}
            return 'non-idempotent-indentation', {'lines': bad[:5], 'first': (l1[bad[0] - 1], l2[bad[0] - 1])}
    # (2) no_single_comma_function: `f(a,)` -> "f(\n    a\n)" -> `f(a)`: the gaps that change are exactly the ones
    #     inside the parentheses of one-argument calls without trailing comma, and they collapse to nothing
    try:
        s1, g1 = _sig_tokens(out)
        s2, g2 = _sig_tokens(out2)
    except R.RefError:
        return 'non-idempotent-layout', {}
    if [t.text for t in s1] == [t.text for t in s2] and len(g1) == len(g2):
        changed = [i for i in range(len(g1)) if g1[i] != g2[i]]
        if cfg is not None and cfg.get('no_single_comma_function') and changed:
            # `f(a,)` -> "f(\n    a\n)" -> `f(a)` (also with a comment / continuation before the removed comma): every gap
            # that changes is the one right after `(` or right before `)` of a one-argument call without trailing comma
            edges = _single_arg_call_edges(s1)
            if all(i in edges for i in changed):
                return 'single-argument-call-relayouted-on-second-pass', {'first_gap': (g1[changed[0]], g2[changed[0]])}
        if changed:
            i = changed[0]
            return 'non-idempotent-layout', {'after_token': s1[i].text, 'before_token': s1[i + 1].text, 'gap1': g1[i], 'gap2': g2[i],
                                             'n_changed': len(changed)}
    return 'non-idempotent-layout', {'n_lines': (len(l1), len(l2))}


def comment_sites(text: str) -> T.Tuple[T.List[str], T.Set[int], T.Set[int]]:
    """(comments, indices of comments inside the parentheses of a files(...) call,
        indices of comments between the `]` of files([...]) -- the array being the only argument -- and the `)`)."""
    toks = R.tokenize(text, trivia=True)
    comments: T.List[str] = []
    cidx: T.Dict[int, int] = {}          # token index -> comment index
    for i, t in enumerate(toks):
        if t.kind == 'comment':
            cidx[i] = len(comments)
            comments.append(t.text.rstrip())
        elif t.kind == 'cont' and '#' in t.text:
            cidx[i] = len(comments)
            comments.append(t.text[t.text.index('#'):].rstrip('\n').rstrip())
    trivia = ('ws', 'comment', 'cont', 'nl', 'eol')
    in_files: T.Set[int] = set()
    after_array: T.Set[int] = set()
    n = len(toks)

    def skip(j: int) -> int:
        while j < n and toks[j].kind in trivia:
            j += 1
        return j

    def match(j: int) -> int:
        """index of the bracket closing the one at j"""
        depth = 0
        while j < n:
            k = toks[j].kind
            if k in ('(', '[', '{'):
                depth += 1
            elif k in (')', ']', '}'):
                depth -= 1
                if depth == 0:
                    return j
            j += 1
        return n - 1

    for i, t in enumerate(toks):
        if t.kind == 'id' and t.text == 'files':
            j = skip(i + 1)
            if j < n and toks[j].kind == '(':
                # not a method call .files(
                b = i - 1
                while b >= 0 and toks[b].kind in trivia:
                    b -= 1
                if b >= 0 and toks[b].kind == '.':
                    continue
                close = match(j)
                for q in range(j, close):
                    if q in cidx:
                        in_files.add(cidx[q])
                a = skip(j + 1)
                if a < n and toks[a].kind == '[':
                    e = match(a)
                    tail = [q for q in range(e + 1, close)]
                    if all(toks[q].kind in trivia or toks[q].kind == ',' for q in tail) and \
                            sum(1 for q in tail if toks[q].kind == ',') <= 1:
                        for q in tail:
                            if q in cidx:
                                after_array.add(cidx[q])
    return comments, in_files, after_array


def classify_comments(inp: str, ci: T.Sequence[str], co: T.Sequence[str], cfg: T.Mapping[str, T.Any]) -> T.Tuple[str, dict]:
    """ci/co = comment sequences of input/output, unequal.  Returns ('', {}) when the difference is one the property
    allows (comments travelling with the arguments of a files() call that sort_files reorders)."""
    import collections
    ci, co = list(ci), list(co)
    _, in_files, after_array = comment_sites(inp)
    missing = collections.Counter(ci) - collections.Counter(co)
    added = collections.Counter(co) - collections.Counter(ci)
    if added:
        if len(ci) == len(co):
            bad = [(x, y) for x, y in zip(ci, co) if x != y]
            if all(_FOREIGN_RE.search(x) and _squash(x) == _squash(y) for x, y in bad):
                return 'comment-split-at-non-lf-line-boundary', {'first': bad[0]}
            return 'comment-text-altered', {'first': bad[0]}
        if not missing:
            return 'comment-added', {'added': list(added)[:3], 'n_in': len(ci), 'n_out': len(co)}
        return 'comment-text-altered', {'missing': list(missing)[:3], 'added': list(added)[:3]}
    mech = ''
    detail: dict = {}
    rest = list(range(len(ci)))
    if missing:
        # which input comments vanished?  prefer the sites the listed mechanism explains
        gone: T.List[int] = []
        for text, k in missing.items():
            idx = [i for i in range(len(ci)) if ci[i] == text]
            idx.sort(key=lambda i: (i not in after_array, -i))
            gone += idx[:k]
        detail = {'missing': [ci[i] for i in sorted(gone)][:3], 'n_in': len(ci), 'n_out': len(co)}
        if all(i in after_array for i in gone):
            mech = 'files-flattening-drops-comment-after-array'
        else:
            return 'comment-lost', detail
        rest = [i for i in rest if i not in set(gone)]
    if [ci[i] for i in rest] != co:
        moved = {i for i, y in zip(rest, co) if ci[i] != y}
        if not (cfg.get('sort_files') and moved <= in_files):
            return (mech + '+' if mech else '') + 'comments-reordered', detail
        if not mech:
            return '', {}
    return mech, detail


def _squash(s: str) -> str:
    return re.sub(r'\s+', '', _FOREIGN_RE.sub('', s))


def simplification_breaks_lexing(inp: str, cfg: T.Mapping[str, T.Any]) -> T.Optional[str]:
    """If the input holds a triple-quoted literal that the formatter's simplification rule (no newline, no quote in
    the body) turns into a '...' literal which is NOT one well-formed string token (its raw body ends in an odd run
    of backslashes, so the closing quote becomes escaped), return that literal."""
    if not cfg.get('simplify_string_literals', True):
        return None
    try:
        toks = R.tokenize(inp)
    except R.RefError:
        return None
    for t in toks:
        if t.kind in ('mstring', 'mfstring'):
            body = t.value
            if '\n' in body or "'" in body or '\\' not in body:
                continue
            m = re.search(r'\\+$', body)
            if m and len(m.group(0)) % 2 == 1:
                return t.text
    return None


# --------------------------------------------------------------------------------------------------
# the contracts

class Verdict(T.NamedTuple):
    mechanism: str
    contract: str
    detail: dict


def judge(inp: str, out: T.Optional[str], out2: T.Optional[str], cfg: T.Mapping[str, T.Any],
          exc: T.Optional[str] = None, exc2: T.Optional[str] = None,
          real_parse_error: T.Optional[str] = None, counts: T.Optional[T.Dict[str, int]] = None) -> T.List[Verdict]:
    """Evaluate all contracts for one (input, configuration).
    inp: parseable input (by the real parser and by refmeson); out = format(inp); out2 = format(out);
    exc/exc2: repr of an exception raised by the first/second format call; real_parse_error: the real parser's
    complaint about `out` (None = parsed)."""
    c = counts if counts is not None else {}

    def hit(name: str) -> None:
        c[name] = c.get(name, 0) + 1

    v: T.List[Verdict] = []
    sort_files = bool(cfg.get('sort_files'))
    hit('contract:no-internal-error')
    if exc is not None or out is None:
        v.append(Verdict('formatter-exception:' + (exc or '?').split('(')[0].split(':')[0], 'no-internal-error', {'exception': exc}))
        return v

    # (a) the output parses
    hit('contract:output-parses-real')
    out_tree = None
    parse_failed = False
    if real_parse_error is not None:
        parse_failed = True
        lit = simplification_breaks_lexing(inp, cfg)
        mech = 'multiline-string-simplified-changes-escapes' if lit is not None else 'output-unparseable'
        v.append(Verdict(mech, 'output-parses-real', {'error': real_parse_error, 'literal': lit}))
    hit('contract:output-parses-ref')
    try:
        out_tree = R.parse(out)
    except R.RefError as e:
        if not parse_failed:
            v.append(Verdict('output-rejected-by-reference-parser-only', 'output-parses-ref', {'error': str(e)}))
        parse_failed = True
    except RecursionError:
        return v

    # (b) same program
    if out_tree is not None and not parse_failed:
        hit('contract:same-tree')
        ti = norm(R.parse(inp), sort_files)
        to = norm(out_tree, sort_files)
        if not same(ti, to):
            ds = diffs(ti, to)
            seen: T.Set[str] = set()
            for p, x, y in ds:
                m = classify_tree_diff(x, y, cfg)
                if m in seen:
                    continue
                seen.add(m)
                v.append(Verdict(m, 'same-tree', {'path': p, 'input': brief(x), 'output': brief(y)}))
        # coverage: which documented simplifications were actually exercised (accepted) on this case
        if ti != to and same(ti, to):
            hit('accepted:literal-respelled')
        # (c) same comments, same order
        hit('contract:same-comments')
        ci, co = R.comments(inp), R.comments(out)
        if ci:
            hit('contract:same-comments-nonempty')
        if ci != co:
            m, d = classify_comments(inp, ci, co, cfg)
            if m:
                v.append(Verdict(m, 'same-comments', d))
            else:
                hit('accepted:comments-moved-with-sorted-files')
    elif parse_failed:
        # comments can still be compared lexically only if the text lexes; skip (the parse failure is reported)
        pass

    # documented behaviour of two options (Commands.md): insert_final_newline "force the file to end with a newline";
    # simplify_string_literals converts multiline strings only "if they don't contain newlines"
    if not parse_failed:
        if cfg.get('insert_final_newline', True):
            hit('contract:final-newline')
            if not out.endswith('\n'):
                v.append(Verdict('final-newline-missing', 'final-newline', {'tail': out[-40:]}))
        hit('contract:no-raw-newline-in-plain-string')
        try:
            n_in = sum(1 for t in R.tokenize(inp) if t.kind in ('string', 'fstring') and '\n' in t.text)
            n_out = sum(1 for t in R.tokenize(out) if t.kind in ('string', 'fstring') and '\n' in t.text)
        except R.RefError:
            n_in = n_out = 0
        if n_out > n_in:
            v.append(Verdict('multiline-string-with-newline-made-plain', 'no-raw-newline-in-plain-string', {'n_in': n_in, 'n_out': n_out}))

    # (d) idempotence
    hit('contract:idempotent')
    if exc2 is not None:
        if not parse_failed:
            v.append(Verdict('formatter-exception-on-own-output:' + exc2.split('(')[0].split(':')[0], 'idempotent', {'exception': exc2}))
    elif out2 is not None and out2 != out:
        m, d = classify_nonidempotent(out, out2, cfg)
        if parse_failed and m.startswith('non-idempotent-and-second'):
            pass
        else:
            v.append(Verdict(m, 'idempotent', d))
    return v
