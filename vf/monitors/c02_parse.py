"""C02 monitor: contracts on the real ``mesonbuild.mparser.Parser(text, fname).parse()``.

What is demanded (property C02, DESIGN.md 2/C02) of every parse of a text:

 (a) exception policy - the only thing that may escape is a MesonException that carries an integer
     ``lineno``/``colno`` with  0 <= lineno <= lines+1  and  0 <= colno <= len(line)+1 ;
 (b) an accepted text is reproduced byte for byte by ``RawPrinter``;
 (c) token conservation - every non-trivia token the (independently re-run) real Lexer yields is
     reachable from the tree exactly once, with the node class that belongs to its token kind and
     with the node's value equal to the source slice; trivia characters are conserved as a multiset.
     The tree is walked generically (object attributes), *not* with FullAstVisitor, so a visitor or
     printer bug cannot mask a dropped token and vice versa;
 (d) extents - for every FunctionNode / ArrayNode (and MethodNode / DictNode / ParenthesizedNode,
     reported under their own mechanism names) the slice of the text between (lineno, colno) and
     (end_lineno, end_colno) - line offsets = positions after each LF, the lexer's notion of a line -
     starts with the callee name / opening bracket, ends with the closing bracket, coincides with the lexer byte
     spans of the first and the closing token, re-parses alone to a node of the same type and is the
     node's own RawPrinter output minus trailing trivia.

 (e) ``check_rewriter_splice``: the REAL ``Rewriter.apply_changes`` is run on a scratch copy of the text with
     one FunctionNode/ArrayNode marked as modified; the file it writes back must be
     text[:start-of-construct] + <new text> + text[end-of-construct:]  (this is how the extents are consumed;
     the rewriter computes its own line offsets, so this is observed, not mirrored).

The module never raises through the observed code: ``check_text`` returns an ``Outcome``;
``install(rec)`` wraps ``Parser.parse`` (in-process or as a ``runner.meson`` monitor), records
violations with ``rec({...})`` and re-raises / returns exactly what the real parse produced.

Mechanism names are produced by classifiers over the observation (WHY it fails), e.g.
``not-without-in-dropped`` is emitted only if the parser *accepted* a text and the only tokens
missing from the tree are ``not`` tokens that are not part of ``not in``.
"""
from __future__ import annotations

import contextlib
import re
import typing as T

from .. import common

common.use_repo()

from mesonbuild import mparser, mlog  # noqa: E402
from mesonbuild.mesonlib import MesonException  # noqa: E402
from mesonbuild.ast.printer import RawPrinter  # noqa: E402

TRIVIA_TIDS = frozenset({'whitespace', 'comment', 'eol'})
STRING_TIDS = frozenset({'string', 'fstring', 'multiline_string', 'multiline_fstring'})
# characters str.splitlines() treats as line boundaries but the lexer (and text-mode file reading) does not
_FOREIGN_SEP = re.compile('[\x0b\x0c\x1c\x1d\x1e\x85\u2028\u2029]')
# what may follow a construct inside its own RawPrinter output: blanks, newlines, comments, continuations
_TRIVIA_ONLY = re.compile(r'(?:[ \t\n]|#[^\n]*|\\[ \t]*(?:#[^\n]*)?\n)*\Z')
# structural depth above which a RecursionError is attributed to "unbounded nesting" (finding #12)
DEEP_NESTING_MIN = 40

_REAL_PARSE = mparser.Parser.parse          # the unwrapped function, bound at import time
_EXTENT_TYPES = (mparser.FunctionNode, mparser.ArrayNode, mparser.MethodNode, mparser.DictNode,
                 mparser.ParenthesizedNode)
_EXTENT_KEY = {mparser.FunctionNode: 'function', mparser.ArrayNode: 'array', mparser.MethodNode: 'method',
               mparser.DictNode: 'dict', mparser.ParenthesizedNode: 'paren'}


class Outcome:
    __slots__ = ('status', 'violations', 'counts', 'shape', 'exc', 'node_types')

    def __init__(self) -> None:
        self.status = ''                                  # 'accepted' | 'rejected' | 'internal-error'
        self.violations: T.List[T.Tuple[str, dict]] = []   # (mechanism, detail)
        self.counts: T.Dict[str, int] = {}
        self.shape: T.Any = None                           # structural signature of the case
        self.exc: T.Optional[BaseException] = None
        self.node_types: T.Tuple[str, ...] = ()

    def count(self, k: str, n: int = 1) -> None:
        self.counts[k] = self.counts.get(k, 0) + n

    def bad(self, mechanism: str, **detail: T.Any) -> None:
        self.violations.append((mechanism, detail))


@contextlib.contextmanager
def quiet() -> T.Iterator[None]:
    """The monitor's own lexer / re-parse passes must not add warnings to meson's output or log."""
    lg = mlog._logger
    saved = (lg.log_disable_stdout, lg.log_file, lg.slog_file, lg.log_warnings_counter, lg.log_fatal_warnings)
    lg.log_disable_stdout, lg.log_file, lg.slog_file, lg.log_fatal_warnings = True, None, None, False
    try:
        yield
    finally:
        (lg.log_disable_stdout, lg.log_file, lg.slog_file, lg.log_warnings_counter, lg.log_fatal_warnings) = saved


def silence_mlog() -> None:
    """For the driver's worker processes: no console output at all from the code under test."""
    mlog._logger.log_disable_stdout = True


# --------------------------------------------------------------------------------------------------
# helpers

def nl_offsets(text: str) -> T.List[int]:
    """Line start offsets when only LF ends a line (the lexer's own notion of a line)."""
    out = [0]
    find = text.find
    i = find('\n')
    while i != -1:
        out.append(i + 1)
        i = find('\n', i + 1)
    return out


def lex_all(text: str) -> T.List[T.Tuple[str, int, int]]:
    """Independent run of the real Lexer: (tid, start, end) of every token (raises what the lexer raises)."""
    return [(t.tid, t.bytespan[0], t.bytespan[1]) for t in mparser.Lexer(text).lex('<c02>')]


def lex_prefix(text: str) -> T.List[T.Tuple[str, int, int]]:
    """Tokens the real Lexer yields before it stops (normally or with an error)."""
    out: T.List[T.Tuple[str, int, int]] = []
    try:
        for t in mparser.Lexer(text).lex('<c02>'):
            out.append((t.tid, t.bytespan[0], t.bytespan[1]))
    except Exception:
        pass
    return out


def lexer_line_offsets(text: str, toks: T.List[T.Tuple[str, int, int]]) -> T.Optional[T.List[int]]:
    """Line starts as the Lexer counts them when it does NOT count a newline inside a single-quoted
    (f)string (deprecated but accepted syntax).  None if the text has no such string."""
    inside: T.Set[int] = set()
    for tid, s, e in toks:
        if tid in ('string', 'fstring'):
            i = text.find('\n', s, e)
            while i != -1:
                inside.add(i)
                i = text.find('\n', i + 1, e)
    if not inside:
        return None
    out = [0]
    i = text.find('\n')
    while i != -1:
        if i not in inside:
            out.append(i + 1)
        i = text.find('\n', i + 1)
    return out


def bracket_depth(text: str) -> int:
    """Cheap structural depth of a text: bracket nesting + block keywords + chains (for the deep-nesting class)."""
    d = m = 0
    for ch in text:
        if ch in '([{':
            d += 1
            m = max(m, d)
        elif ch in ')]}':
            d -= 1
    blocks = len(re.findall(r'\b(?:if|foreach)\b', text))
    chains = max(text.count('='), text.count('.'), text.count('+'), text.count('-'), text.count('*'),
                 text.count('/'), text.count('%'), len(re.findall(r'\b(?:and|or)\b', text)))
    return max(m, blocks, chains)


def walk(tree: T.Any) -> T.Tuple[T.List[T.Any], int]:
    """Every BaseNode reachable through object attributes (iterative, cycle safe) + max depth."""
    BaseNode = mparser.BaseNode
    seen: T.Set[int] = set()
    out: T.List[T.Any] = []
    stack: T.List[T.Tuple[T.Any, int]] = [(tree, 1)]
    maxdepth = 0
    while stack:
        node, depth = stack.pop()
        if id(node) in seen:
            continue
        seen.add(id(node))
        out.append(node)
        if depth > maxdepth:
            maxdepth = depth
        for v in vars(node).values():
            if isinstance(v, BaseNode):
                stack.append((v, depth + 1))
            elif isinstance(v, (list, tuple)):
                for x in v:
                    if isinstance(x, BaseNode):
                        stack.append((x, depth + 1))
            elif isinstance(v, dict):
                for k, x in v.items():
                    if isinstance(k, BaseNode):
                        stack.append((k, depth + 1))
                    if isinstance(x, BaseNode):
                        stack.append((x, depth + 1))
    return out, maxdepth


# WHY is a tree too deep for the (recursive) printer?  The links of its deepest root-to-leaf path are sorted into
#  left-chain    the left operand of a binary operator / the object of an index or method call: `1 + 1 + ...`,
#                `a[0][0]...`, `a.m().m()...` - a chain written flat, without any nesting in the text
#  assign-chain  the value of an assignment: `a = a = ... = 1` (flat as well, right-recursive)
#  brackets      through ( ) [ ] { } and call / index arguments - nesting written in the text
#  blocks        through if / foreach bodies - nesting written in the text
#  other         right operands, unary operators, ternary branches, conditions - never the cause: the grammar recurses
#                only through the four kinds above, so these links are incidental and not counted
_LEFT_CHAIN = frozenset({('ArithmeticNode', 'left'), ('AndNode', 'left'), ('OrNode', 'left'), ('ComparisonNode', 'left'),
                         ('IndexNode', 'iobject'), ('MethodNode', 'source_object')})
_ASSIGN_CHAIN = frozenset({('AssignmentNode', 'value'), ('PlusAssignmentNode', 'value')})
_BRACKET_LINKS = frozenset({('ParenthesizedNode', 'inner'), ('ArrayNode', 'args'), ('DictNode', 'args'), ('FunctionNode', 'args'),
                            ('MethodNode', 'args'), ('IndexNode', 'index'), ('ArgumentNode', 'arguments'),
                            ('ArgumentNode', 'kwargs')})
_BLOCK_LINKS = frozenset({('CodeBlockNode', 'lines'), ('IfClauseNode', 'ifs'), ('IfClauseNode', 'elseblock'), ('IfNode', 'block'),
                          ('ElseNode', 'block'), ('ForeachClauseNode', 'block'), ('TestCaseClauseNode', 'block')})
_DEEP_MECHANISM = {
    'left-chain': 'printer-recursion-error-deep-tree',            # the listed finding: flat operator / postfix chains
    'assign-chain': 'printer-recursion-error-assignment-chain',
    'brackets': 'printer-recursion-error-nested-brackets',
    'blocks': 'printer-recursion-error-nested-blocks',
}
# a tie goes to the nesting written in the text; one kind must explain >= 90 % of the causal links of the path,
# otherwise the tree is deep for mixed reasons (own mechanism, never one of the listed findings)
_DEEP_TIE_ORDER = ('brackets', 'blocks', 'assign-chain', 'left-chain')
_DEEP_DOMINANCE = 0.9


def deepest_path_links(tree: T.Any) -> T.Dict[str, int]:
    """Link kinds on the deepest root-to-leaf path of the tree (iterative)."""
    BaseNode = mparser.BaseNode
    parent: T.Dict[int, T.Tuple[int, str]] = {}        # id(child) -> (id(parent), link kind)
    seen: T.Set[int] = {id(tree)}
    stack: T.List[T.Tuple[T.Any, int]] = [(tree, 1)]
    best, best_depth = id(tree), 1
    while stack:
        node, depth = stack.pop()
        if depth > best_depth:
            best, best_depth = id(node), depth
        cname = type(node).__name__
        for attr, v in vars(node).items():
            if attr == 'whitespaces':
                continue
            if isinstance(v, BaseNode):
                kids: T.Iterable[T.Any] = (v,)
            elif isinstance(v, (list, tuple)):
                kids = [x for x in v if isinstance(x, BaseNode)]
            elif isinstance(v, dict):
                kids = [x for kv in v.items() for x in kv if isinstance(x, BaseNode)]
            else:
                continue
            key = (cname, attr)
            kind = ('left-chain' if key in _LEFT_CHAIN else 'assign-chain' if key in _ASSIGN_CHAIN else
                    'brackets' if key in _BRACKET_LINKS else 'blocks' if key in _BLOCK_LINKS else 'other')
            for k in kids:
                if id(k) not in seen:
                    seen.add(id(k))
                    parent[id(k)] = (id(node), kind)
                    stack.append((k, depth + 1))
    links: T.Dict[str, int] = {}
    cur = best
    while cur in parent:
        cur, kind = parent[cur]
        links[kind] = links.get(kind, 0) + 1
    return links


def classify_deep_tree(tree: T.Any) -> T.Tuple[str, T.Dict[str, int]]:
    links = deepest_path_links(tree)
    causal = {k: links.get(k, 0) for k in _DEEP_TIE_ORDER}
    total = sum(causal.values())
    if not total:
        return 'printer-recursion-error-other-nesting', links
    top = max(causal.values())
    kind = next(k for k in _DEEP_TIE_ORDER if causal[k] == top)
    if top < _DEEP_DOMINANCE * total:
        return 'printer-recursion-error-mixed-nesting', links
    return _DEEP_MECHANISM[kind], links


def raw_print(node: T.Any) -> str:
    p = RawPrinter()
    node.accept(p)
    return p.result


def _exc_brief(e: BaseException) -> dict:
    return {'type': type(e).__name__, 'message': str(e)[:300],
            'lineno': getattr(e, 'lineno', None), 'colno': getattr(e, 'colno', None)}


def _norm_msg(e: BaseException) -> str:
    line = str(e).split('\n', 1)[0]
    return re.sub(r"'[^']*'|\"[^\"]*\"|\d+", '_', line)[:80]


# --------------------------------------------------------------------------------------------------
# (a) exception policy

def check_exception(text: str, e: BaseException, out: Outcome) -> None:
    out.exc = e
    if isinstance(e, RecursionError):
        out.status = 'internal-error'
        depth = bracket_depth(text)
        if depth >= DEEP_NESTING_MIN:
            out.bad('parser-recursion-error-deep-nesting', depth=depth, exception=_exc_brief(e))
        else:
            out.bad('internal-error:RecursionError', depth=depth, exception=_exc_brief(e))
        out.shape = ('internal', 'RecursionError')
        return
    if not isinstance(e, MesonException):
        out.status = 'internal-error'
        out.bad(classify_internal_error(text, e), exception=_exc_brief(e))
        out.shape = ('internal', type(e).__name__, _norm_msg(e))
        return
    out.status = 'rejected'
    out.count('policy:exception-located')
    out.shape = ('rejected', type(e).__name__, _norm_msg(e))
    lineno = getattr(e, 'lineno', None)
    colno = getattr(e, 'colno', None)
    if type(lineno) is not int or type(colno) is not int:
        out.bad('rejection-without-location', exception=_exc_brief(e))
        return
    lines = text.split('\n')
    if not 0 <= lineno <= len(lines) + 1:
        out.bad('rejection-line-outside-text', exception=_exc_brief(e), lines=len(lines))
        return
    linelen = len(lines[lineno - 1]) if 1 <= lineno <= len(lines) else 0
    if not 0 <= colno <= linelen + 1:
        out.bad(classify_bad_column(text, e, lineno, colno, linelen), exception=_exc_brief(e), line_length=linelen)


def classify_internal_error(text: str, e: BaseException) -> str:
    msg = str(e)
    if isinstance(e, TypeError) and "unhashable type: 'EmptyNode'" in msg:
        return 'dict-key-with-empty-operand-unhashable'
    if isinstance(e, UnicodeDecodeError) and 'unicodeescape' in msg:
        return 'string-escape-unicode-decode-error'
    if isinstance(e, ValueError) and 'integer string conversion' in msg and re.search(r'[1-9]\d{4300}', text):
        # int() refuses decimal strings with more than sys.get_int_max_str_digits() (4300) digits
        return 'internal-error:ValueError:huge-integer-literal'
    return 'internal-error:' + type(e).__name__


def position_ok_on_lexer_lines(text: str, lineno: int, colno: int) -> bool:
    """Is (lineno, colno) inside the text if lines are counted like the Lexer does after a single-quoted
    string with an embedded newline (it neither bumps lineno nor resets line_start)?"""
    with quiet():
        offs = lexer_line_offsets(text, lex_prefix(text))
    if offs is None:
        return False
    if not 0 <= lineno <= len(offs) + 1:
        return False
    if 1 <= lineno <= len(offs):
        start = offs[lineno - 1]
        end = offs[lineno] - 1 if lineno < len(offs) else len(text)
        return 0 <= colno <= (end - start) + 1
    return 0 <= colno <= 1


def classify_bad_column(text: str, e: BaseException, lineno: int, colno: int, linelen: int) -> str:
    """Parser.getsym builds the eof token from the last lexed token: its *start* line, its start column
    plus its whole length.  If that token spans several lines (multi-line string) every error
    reported "at eof" gets a column that is not on the reported line."""
    try:
        with quiet():
            toks = lex_all(text)
    except Exception:
        toks = []
    if toks:
        tid, s, en = toks[-1]
        line_start = text.rfind('\n', 0, s) + 1
        tok_line = text.count('\n', 0, s) + 1
        if '\n' in text[s:en] and lineno == tok_line and colno == (s - line_start) + (en - s):
            return 'eof-column-after-multiline-token'
    if position_ok_on_lexer_lines(text, lineno, colno):
        return 'newline-in-single-quoted-string-not-counted'
    return 'rejection-column-outside-line'


# --------------------------------------------------------------------------------------------------
# (b) (c) (d) on an accepted tree

def check_tree(text: str, tree: T.Any, out: Outcome, reparse: bool = True) -> None:
    out.status = 'accepted'
    if not isinstance(tree, mparser.CodeBlockNode):
        out.bad('parse-returned-non-codeblock', got=type(tree).__name__)
        return
    nodes, depth = walk(tree)
    out.node_types = tuple(sorted({type(n).__name__ for n in nodes}))
    out.shape = ('accepted', hash(tuple(type(n).__name__ for n in nodes)))

    # ---- (c) token conservation against an independent lexer pass
    try:
        toks = lex_all(text)
    except Exception as e:  # the parser consumed the same lexer: cannot accept what the lexer rejects
        out.bad('accepted-but-lexer-rejects', exception=_exc_brief(e))
        return
    dropped, conserved = check_conservation(text, toks, nodes, out)

    # ---- (b) byte-exact reprint
    out.count('contract:roundtrip')
    printed: T.Optional[str] = None
    try:
        printed = raw_print(tree)
    except RecursionError as e:
        if depth >= DEEP_NESTING_MIN:
            mech, spine = classify_deep_tree(tree)
            out.bad(mech, tree_depth=depth, deepest_path_links=spine, exception=_exc_brief(e))
        else:
            out.bad('printer-internal-error:RecursionError', tree_depth=depth, exception=_exc_brief(e))
    except Exception as e:
        out.bad('printer-internal-error:' + type(e).__name__, exception=_exc_brief(e))
    if printed is not None and printed != text:
        mech = classify_roundtrip(text, printed, toks, nodes, dropped, conserved)
        if mech is not None:
            out.bad(mech, printed=printed[:400] if len(printed) < 2000 else printed[:400] + '...')

    # ---- (d) extents
    if conserved:
        check_extents(text, toks, nodes, out, reparse, compare_print=(printed == text))


def check_conservation(text: str, toks: T.List[T.Tuple[str, int, int]], nodes: T.List[T.Any],
                       out: Outcome) -> T.Tuple[T.List[T.Tuple[str, int, int]], bool]:
    """Returns (dropped tokens, whether the tree tokens are exactly the lexer tokens)."""
    out.count('contract:token-conservation')
    ok = True
    lex_sig = [t for t in toks if t[0] not in TRIVIA_TIDS]
    n_cont = sum(1 for t in lex_sig if t[0] == 'continue')
    n_brk = sum(1 for t in lex_sig if t[0] == 'break')
    lex_sig = [t for t in lex_sig if t[0] not in ('continue', 'break')]

    tree_toks: T.List[T.Tuple[int, int, T.Any]] = []
    t_cont = t_brk = 0
    ws_chars: T.List[str] = []
    for n in nodes:
        if isinstance(n, mparser.ContinueNode):
            t_cont += 1       # built from the *following* token: its own span is not meaningful
        elif isinstance(n, mparser.BreakNode):
            t_brk += 1
        elif isinstance(n, mparser.ElementaryNode):
            span = getattr(n, 'bytespan', None)
            if not (isinstance(span, tuple) and len(span) == 2):
                out.bad('tree-token-without-span', node=type(n).__name__)
                ok = False
                continue
            tree_toks.append((span[0], span[1], n))
        elif isinstance(n, mparser.WhitespaceNode):
            ws_chars.append(n.value)
    tree_toks.sort(key=lambda x: (x[0], x[1]))

    dropped: T.List[T.Tuple[str, int, int]] = []
    fabricated: T.List[T.Tuple[int, int, str]] = []
    merged_ws = 0                       # trivia swallowed into the value of a `not in` symbol
    i = j = 0
    while i < len(lex_sig) and j < len(tree_toks):
        tid, s, e = lex_sig[i]
        ts, te, node = tree_toks[j]
        if (ts, te) == (s, e):
            kind_ok = node_matches_token(text, tid, s, e, node)
            if kind_ok is not True:
                out.bad('tree-token-kind-or-value-mismatch', token=[tid, s, e], node=type(node).__name__, why=kind_ok)
                ok = False
            i += 1
            j += 1
        elif (tid == 'not' and ts == s and i + 1 < len(lex_sig) and lex_sig[i + 1][0] == 'in'
              and te == lex_sig[i + 1][2] and isinstance(node, mparser.SymbolNode)):
            if node.value != text[s:te]:
                out.bad('tree-token-kind-or-value-mismatch', token=['not in', s, te], node='SymbolNode',
                        why=f'value {node.value!r} != source {text[s:te]!r}')
                ok = False
            merged_ws += lex_sig[i + 1][1] - e
            i += 2
            j += 1
        elif ts > s or (ts == s and te > e):
            dropped.append(lex_sig[i])
            i += 1
        else:
            fabricated.append((ts, te, type(node).__name__))
            j += 1
    dropped.extend(lex_sig[i:])
    fabricated.extend((ts, te, type(n).__name__) for ts, te, n in tree_toks[j:])

    if t_cont != n_cont or t_brk != n_brk:
        out.bad('loop-control-token-count-mismatch', lexer=[n_cont, n_brk], tree=[t_cont, t_brk])
        ok = False
    if fabricated:
        out.bad('tree-token-duplicated-or-fabricated', tokens=fabricated[:5])
        ok = False
    if dropped:
        ok = False
        out.bad(classify_dropped(text, toks, dropped),
                dropped=[[tid, s, e, text[s:e][:40]] for tid, s, e in dropped[:5]], n_dropped=len(dropped))
    else:
        # trivia conservation (multiset of characters); only meaningful when no token is missing
        out.count('contract:trivia-conservation')
        lex_trivia = sorted(''.join(text[s:e] for tid, s, e in toks if tid in TRIVIA_TIDS))
        tree_trivia = sorted(''.join(ws_chars))
        if len(lex_trivia) - merged_ws != len(tree_trivia):
            out.bad('trivia-not-conserved', lexer_chars=len(lex_trivia) - merged_ws, tree_chars=len(tree_trivia))
            ok = False
        elif merged_ws == 0 and lex_trivia != tree_trivia:
            out.bad('trivia-not-conserved', lexer_chars=len(lex_trivia), tree_chars=len(tree_trivia), why='different characters')
            ok = False
    return dropped, ok


def node_matches_token(text: str, tid: str, s: int, e: int, node: T.Any) -> T.Union[bool, str]:
    src = text[s:e]
    if isinstance(node, mparser.SymbolNode):
        if tid in ('id', 'number', 'true', 'false') or tid in STRING_TIDS:
            return f'{tid} token held by a SymbolNode'
        return True if node.value == src else f'value {node.value!r} != source {src!r}'
    if isinstance(node, mparser.IdNode):
        if tid != 'id':
            return f'{tid} token held by an IdNode'
        return True if node.value == src else f'value {node.value!r} != source {src!r}'
    if isinstance(node, mparser.NumberNode):
        if tid != 'number':
            return f'{tid} token held by a NumberNode'
        return True if node.raw_value == src else f'raw_value {node.raw_value!r} != source {src!r}'
    if isinstance(node, mparser.BooleanNode):
        if tid not in ('true', 'false'):
            return f'{tid} token held by a BooleanNode'
        return True if node.value is (tid == 'true') else f'value {node.value!r} for token {tid}'
    if isinstance(node, mparser.StringNode):
        if tid not in STRING_TIDS:
            return f'{tid} token held by a StringNode'
        if node.is_multiline != ('multiline' in tid) or node.is_fstring != ('fstring' in tid):
            return 'string flavour flags differ from the token kind'
        q = "'''" if node.is_multiline else "'"
        lit = ('f' if node.is_fstring else '') + q + node.raw_value + q
        return True if lit == src else f'raw_value {node.raw_value!r} does not rebuild source {src!r}'
    return f'unexpected elementary node class {type(node).__name__}'


def classify_dropped(text: str, toks: T.List[T.Tuple[str, int, int]],
                     dropped: T.List[T.Tuple[str, int, int]]) -> str:
    """`not-without-in-dropped`: every missing token is a `not` whose next significant token is not `in`
    and whose previous significant token ends an operand (Parser.e4 accepts it after e5 and forgets it)."""
    sig = [t for t in toks if t[0] not in TRIVIA_TIDS or t[0] == 'eol']
    idx = {(s, e): k for k, (tid, s, e) in enumerate(sig)}
    for tid, s, e in dropped:
        if tid != 'not':
            return 'token-dropped:' + tid
        k = idx.get((s, e))
        if k is None:
            return 'token-dropped:not'
        nxt = sig[k + 1][0] if k + 1 < len(sig) else 'eof'
        if nxt == 'in':
            return 'token-dropped:not'
    return 'not-without-in-dropped'


def classify_roundtrip(text: str, printed: str, toks: T.List[T.Tuple[str, int, int]], nodes: T.List[T.Any],
                       dropped: T.List[T.Tuple[str, int, int]], conserved: bool) -> T.Optional[str]:
    """Why does RawPrinter(tree) differ from the text?  None = already explained by a dropped-token report."""
    gone = set(dropped)
    want = [text[s:e] for tid, s, e in toks if tid not in TRIVIA_TIDS and (tid, s, e) not in gone]
    try:
        with quiet():
            got = [printed[s:e] for tid, s, e in lex_all(printed) if tid not in TRIVIA_TIDS]
    except Exception:
        got = []
    # Fallback when relocated trivia makes the reprint lex differently (`0x1Fnot\<LF>and` reprints as
    # `0x1Fand\<LF>`): same characters as the text without the dropped tokens
    gone_chars = sorted(''.join(text[s:e] for _tid, s, e in dropped))
    same_chars = sorted(printed + ''.join(gone_chars)) == sorted(text)
    if dropped and (got == want or same_chars):
        # the tree lacks tokens (reported by the conservation contract), the reprint shows exactly the
        # tokens the tree has: no second, independent fault
        return None
    if any(isinstance(n, mparser.ArgumentNode) and n.order_error for n in nodes) \
            and (sorted(got) == sorted(want) or same_chars) and (conserved or dropped):
        # positional argument written after a keyword argument: ArgumentNode keeps two separate
        # containers, the source interleaving is not representable; same tokens, other order
        return 'positional-after-keyword-argument-reordered'
    return 'roundtrip-mismatch'


def check_extents(text: str, toks: T.List[T.Tuple[str, int, int]], nodes: T.List[T.Any], out: Outcome,
                  reparse: bool, compare_print: bool = True) -> None:
    off_nl = nl_offsets(text)
    off_lex = lexer_line_offsets(text, toks)
    for n in nodes:
        if not isinstance(n, _EXTENT_TYPES):
            continue
        kind = _EXTENT_KEY[type(n)]
        out.count('contract:extent:' + kind)
        if isinstance(n, mparser.FunctionNode):
            first, last, head, tail = n.func_name, n.rpar, n.func_name.value, ')'
        elif isinstance(n, mparser.MethodNode):
            first, last, head, tail = n.name, n.rpar, n.name.value, ')'
        elif isinstance(n, mparser.ArrayNode):
            first, last, head, tail = n.lbracket, n.rbracket, '[', ']'
        elif isinstance(n, mparser.DictNode):
            first, last, head, tail = n.lcurl, n.rcurl, '{', '}'
        else:
            first, last, head, tail = n.lpar, n.rpar, '(', ')'
        pos = [n.lineno, n.colno, n.end_lineno, n.end_colno]
        try:
            start = off_nl[n.lineno - 1] + n.colno
            end = off_nl[n.end_lineno - 1] + n.end_colno
            if n.lineno < 1 or n.end_lineno < 1:
                raise IndexError
        except (IndexError, TypeError):
            out.bad(f'extent-{kind}-line-out-of-range', extent=pos)
            continue
        want = (first.bytespan[0], last.bytespan[1])
        s = text[start:end]
        if (start, end) != want or not s.startswith(head) or not s.endswith(tail):
            mech = f'extent-{kind}-does-not-delimit-construct'
            if off_lex is not None:
                try:   # would the extent be right if lines were what the lexer counted?
                    if (off_lex[n.lineno - 1] + n.colno, off_lex[n.end_lineno - 1] + n.end_colno) == want:
                        mech = 'newline-in-single-quoted-string-not-counted'
                except IndexError:
                    pass
            out.bad(mech, extent=pos, slice=s[:200], construct=text[want[0]:want[1]][:200], node=kind)
            continue
        if not reparse:
            continue
        out.count('contract:extent-reparse')
        why = reparse_alone(s, n)
        if why:
            out.bad(f'extent-{kind}-slice-not-the-construct', extent=pos, slice=s[:200], why=why)
            continue
        if not compare_print:
            continue    # the whole-tree reprint already differs (reported there)
        try:
            own = raw_print(n)
        except Exception:
            continue    # reported once by the whole-tree reprint
        skip = 0
        if isinstance(n, mparser.MethodNode):   # a method call prints its receiver and the dot first
            try:
                skip = len(raw_print(n.source_object)) + len(raw_print(n.dot))
            except Exception:
                continue
        if not own.startswith(s, skip) or _TRIVIA_ONLY.match(own, skip + len(s)) is None:
            out.bad(f'extent-{kind}-differs-from-node-print', extent=pos, slice=s[:200], node_print=own[:200])


def reparse_alone(s: str, node: T.Any) -> str:
    """'' if the slice parses alone to one statement of the node's type and reprints to itself."""
    want: T.Type = mparser.FunctionNode if isinstance(node, mparser.MethodNode) else type(node)
    last = ''
    # A call whose name and '(' are separated by a newline is only legal inside brackets (where the
    # lexer turns newlines into whitespace): retry such a slice inside parentheses.
    for wrap in (False, True):
        src = '(' + s + ')' if wrap else s
        try:
            with quiet():
                blk = _REAL_PARSE(mparser.Parser(src, '<c02-slice>'))
        except RecursionError:
            return ''      # depth class, decided on the whole text
        except Exception as e:
            if isinstance(e, MesonException) and 'nesting depth' in str(e) and bracket_depth(src) >= DEEP_NESTING_MIN:
                # the slice of a construct nested close to the parser's depth limit is itself close to it (and is
                # parsed here under a deeper Python stack): depth class as well, decided on the whole text
                return ''
            last = f'slice does not parse: {type(e).__name__}: {str(e)[:80]}'
            continue
        if len(blk.lines) != 1:
            last = f'slice parses to {len(blk.lines)} statements'
            continue
        got = blk.lines[0]
        if wrap:
            if not isinstance(got, mparser.ParenthesizedNode):
                last = f'wrapped slice parses to {type(got).__name__}'
                continue
            got = got.inner
        if type(got) is not want:
            last = f'slice parses to {type(got).__name__}, not {want.__name__}'
            continue
        return ''
    return last


# --------------------------------------------------------------------------------------------------
# (e) the consumer of the extents: the real rewriter splice

def wants_splice_check(text: str) -> bool:
    """Texts on which the rewriter's own line arithmetic can differ from the parser's."""
    return _FOREIGN_SEP.search(text) is not None and '\r' not in text


def check_rewriter_splice(text: str, scratch_file: str, max_nodes: int = 2) -> T.Tuple[T.Dict[str, int], T.List[T.Tuple[str, dict]]]:
    """Run the real Rewriter.apply_changes for up to max_nodes Function/Array nodes (the last ones in the
    text) and compare what it wrote with the exact splice.  Returns (counters, violations)."""
    counts: T.Dict[str, int] = {}
    bad: T.List[T.Tuple[str, dict]] = []
    if '\r' in text:        # the rewriter reads in text mode: CR never reaches it unchanged
        return counts, bad
    try:
        data = text.encode('utf-8')
    except UnicodeEncodeError:
        return counts, bad
    from mesonbuild.rewriter import Rewriter
    done = 0
    index = 0
    while done < max_nodes:
        with open(scratch_file, 'wb') as f:
            f.write(data)
        try:
            with quiet():
                tree = _REAL_PARSE(mparser.Parser(text, scratch_file))
        except Exception:
            return counts, bad
        nodes = [n for n in walk(tree)[0] if isinstance(n, (mparser.FunctionNode, mparser.ArrayNode))]
        nodes.sort(key=lambda n: -(n.func_name if isinstance(n, mparser.FunctionNode) else n.lbracket).bytespan[0])
        if index >= len(nodes):
            break
        n = nodes[index]
        index += 1
        done += 1
        if isinstance(n, mparser.FunctionNode):
            s, e, kind = n.func_name.bytespan[0], n.rpar.bytespan[1], 'function'
        else:
            s, e, kind = n.lbracket.bytespan[0], n.rbracket.bytespan[1], 'array'
        rw = Rewriter.__new__(Rewriter)
        rw.modified_nodes, rw.to_remove_nodes, rw.to_add_nodes = [n], [], []
        counts['contract:rewriter-splice'] = counts.get('contract:rewriter-splice', 0) + 1
        try:
            with quiet():
                rw.apply_changes()
            with open(scratch_file, encoding='utf-8', newline='') as f:
                result = f.read()
        except RecursionError:
            continue          # depth class
        except Exception as ex:
            if isinstance(ex, ValueError) and 'integer string conversion' in str(ex):
                # AstPrinter.visit_NumberNode does str(node.value): fails for a (0x/0o/0b) literal whose value has more
                # than 4300 decimal digits.  That is the rewriter's re-printing (property C17), raised before anything
                # is spliced: not an observation about extents - counted, not judged here
                counts['rewriter-splice:not-judged-astprinter-int-str-limit'] = counts.get('rewriter-splice:not-judged-astprinter-int-str-limit', 0) + 1
                continue
            bad.append(('rewriter-splice-internal-error:' + type(ex).__name__,
                        {'node': kind, 'construct': text[s:e][:200], 'exception': _exc_brief(ex)}))
            continue
        tail = text[e:]
        if result[:s] == text[:s] and len(result) >= s + len(tail) and result[len(result) - len(tail):] == tail:
            continue
        with quiet():
            ptoks = lex_prefix(text)
        if any(tid in ('string', 'fstring') and ts < e and '\n' in text[ts:te] for tid, ts, te in ptoks):
            mech = 'newline-in-single-quoted-string-not-counted'
        elif _FOREIGN_SEP.search(text, 0, e) is not None:
            mech = 'rewriter-splitlines-foreign-line-separator'
        else:
            mech = 'rewriter-splice-not-the-construct'
        bad.append((mech, {'node': kind, 'construct': text[s:e][:200], 'extent': [n.lineno, n.colno, n.end_lineno, n.end_colno],
                           'rewritten_file': result[:400]}))
    return counts, bad


# --------------------------------------------------------------------------------------------------
# entry points

def judge(text: str, result: T.Any, exc: T.Optional[BaseException], reparse: bool = True) -> Outcome:
    """Apply the contracts to what the real parse produced for `text`."""
    out = Outcome()
    out.count('contract:parse')
    try:
        if exc is not None:
            check_exception(text, exc, out)
        else:
            with quiet():
                check_tree(text, result, out, reparse)
    except Exception as e:      # a fault of the monitor itself must never look like a verdict
        import traceback
        out.counts['monitor-fault'] = out.counts.get('monitor-fault', 0) + 1
        out.violations.append(('MONITOR-FAULT', {'exception': _exc_brief(e), 'trace': traceback.format_exc()[-800:]}))
    return out


def check_text(text: str, fname: str = '<c02>', reparse: bool = True) -> Outcome:
    """Run the real parser on text and judge the outcome."""
    result = None
    exc: T.Optional[BaseException] = None
    try:
        result = _REAL_PARSE(mparser.Parser(text, fname))
    except (KeyboardInterrupt, SystemExit):
        raise
    except BaseException as e:
        exc = e
        e.__traceback__ = None
    return judge(text, result, exc, reparse)


_INSTALLED = False
_COUNTERS: T.Dict[str, int] = {}


def install(rec: T.Callable[[dict], None]) -> None:
    """Wrap mparser.Parser.__init__/parse (record-and-continue).  Usable in-process or as a monitor of
    runner.meson(..., monitors=[c02_parse.install]).  Constructor failures (the Lexer's BOM check) are
    judged too.  A summary record {'c02': 'summary', ...} is written when meson returns."""
    global _INSTALLED
    if _INSTALLED:
        return
    _INSTALLED = True
    real_parse = mparser.Parser.parse
    real_init = mparser.Parser.__init__
    active = [False]

    def emit(text: str, fname: str, out: Outcome) -> None:
        for k, v in out.counts.items():
            _COUNTERS[k] = _COUNTERS.get(k, 0) + v
        _COUNTERS['status:' + out.status] = _COUNTERS.get('status:' + out.status, 0) + 1
        for mech, detail in out.violations:
            try:
                rec({'c02': 'violation', 'mechanism': mech, 'file': str(fname), 'text': text[:20000], 'detail': detail})
            except Exception:
                pass

    def init(self: T.Any, code: str, filename: str, *a: T.Any, **kw: T.Any) -> None:
        try:
            real_init(self, code, filename, *a, **kw)
        except BaseException as e:
            if not active[0] and not kw.get('machinefile') and isinstance(code, str):
                active[0] = True
                try:
                    emit(code, filename, judge(code, None, e))
                finally:
                    active[0] = False
            raise
        self._c02_machinefile = bool(kw.get('machinefile'))
        self._c02_fname = filename

    def parse(self: T.Any) -> T.Any:
        if active[0] or getattr(self, '_c02_machinefile', False):
            return real_parse(self)
        result = None
        exc: T.Optional[BaseException] = None
        try:
            result = real_parse(self)
        except BaseException as e:
            exc = e
        if not isinstance(exc, (KeyboardInterrupt, SystemExit)):
            active[0] = True
            try:
                code = self.lexer.code
                fname = getattr(self, '_c02_fname', '<unknown>')
                emit(code, fname, judge(code, result, exc))
            except Exception:
                pass
            finally:
                active[0] = False
        if exc is not None:
            raise exc
        return result

    mparser.Parser.__init__ = init    # type: ignore[method-assign]
    mparser.Parser.parse = parse      # type: ignore[method-assign]
    try:
        from .. import runner
        runner.at_child_exit(lambda r: r({'c02': 'summary', 'counters': dict(_COUNTERS)}))
    except Exception:
        pass


def counters() -> T.Dict[str, int]:
    return dict(_COUNTERS)
