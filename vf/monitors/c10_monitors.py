"""Monitors of property C10, installed inside the forked child that runs the real meson
(`runner.meson(..., monitors=[...])`).  They wrap attributes of the imported mesonbuild modules, write JSON
events through `rec` and never raise through the code they observe (the injected faults excepted, which are
the point of the exercise).

policy_monitor      DependencyFallbacksHolder.lookup/_get_candidates, dependencies.find_external_dependency (the
                    name the holder calls through: the attribute of the `mesonbuild.dependencies` package),
                    Interpreter.do_subproject; online rules on the holder's own flags.
make_wrap_monitor   shutil.unpack_archive (as referenced by wrap.py: `shutil.unpack_archive`), urllib.request.urlopen,
                    Resolver.get_data / check_hash / copy_tree; at every unpack the monitor hashes the bytes at the
                    path being unpacked and compares with the hash the wrap file records for that role.
make_concurrency_monitor  two processes on one source tree: fcntl.flock (blocking request for `.wraplock` is published
                    as a marker file), Resolver.resolve (digest of the tree the process ACCEPTED, at the return),
                    optional hold at the entry of Resolver.apply_patch / apply_diff_files until a marker file appears.
"""
from __future__ import annotations

import errno
import hashlib
import os
import shutil
import time
import typing as T


# ====================================================================================================
# Part A: monitors (run inside the forked child)
# ====================================================================================================
def policy_monitor(rec: T.Callable[[dict], None]) -> None:
    import mesonbuild.dependencies as D
    from mesonbuild.interpreter import dependencyfallbacks as DF
    from mesonbuild.interpreter import interpreter as IM

    stack: T.List[T.Any] = []
    H = DF.DependencyFallbacksHolder

    real_fed = D.find_external_dependency

    def fed(name: str, *a: T.Any, **k: T.Any) -> T.Any:
        try:
            top = stack[-1] if stack else None
            online = None
            if top is not None and top.forcefallback and top.subproject_name and name in top.names:
                online = 'system-consulted-under-forced-fallback'
            rec({'ev': 'fed', 'name': name, 'depth': len(stack), 'online': online})
        except Exception:
            pass
        return real_fed(name, *a, **k)
    D.find_external_dependency = fed
    if getattr(DF, 'dependencies', None) is not D:   # the module object the holder calls through
        try:
            DF.dependencies.find_external_dependency = fed
        except Exception:
            pass
    if hasattr(DF, 'find_external_dependency'):
        DF.find_external_dependency = fed

    real_lookup = H.lookup

    def lookup(self: T.Any, kwargs: T.Any, *a: T.Any, **k: T.Any) -> T.Any:
        try:
            rec({'ev': 'lookup-begin', 'names': list(self.names), 'depth': len(stack) + 1,
                 'subproject': str(self.subproject)})
        except Exception:
            pass
        stack.append(self)
        try:
            dep = real_lookup(self, kwargs, *a, **k)
        except BaseException as e:
            stack.pop()
            try:
                rec({'ev': 'lookup-end', 'depth': len(stack) + 1, 'exc': type(e).__name__,
                     'forcefallback': bool(self.forcefallback), 'nofallback': bool(self.nofallback),
                     'subproject_name': self.subproject_name})
            except Exception:
                pass
            raise
        stack.pop()
        try:
            rec({'ev': 'lookup-end', 'depth': len(stack) + 1, 'exc': None, 'found': bool(dep.found()),
                 'forcefallback': bool(self.forcefallback), 'nofallback': bool(self.nofallback),
                 'subproject_name': self.subproject_name})
        except Exception:
            pass
        return dep
    H.lookup = lookup

    real_cand = H._get_candidates

    def get_candidates(self: T.Any) -> T.Any:
        c = real_cand(self)
        try:
            rec({'ev': 'candidates', 'depth': len(stack),
                 'list': [[getattr(f, '__name__', '?'), str(n)] for f, n in c]})
        except Exception:
            pass
        return c
    H._get_candidates = get_candidates

    real_dosub = IM.Interpreter.do_subproject

    def do_subproject(self: T.Any, subp_name: T.Any, *a: T.Any, **k: T.Any) -> T.Any:
        try:
            top = stack[-1] if stack else None
            online = None
            if top is not None and top.nofallback and not top.forcefallback:
                online = 'subproject-configured-under-nofallback'
            rec({'ev': 'do_subproject', 'name': str(subp_name), 'depth': len(stack), 'online': online})
        except Exception:
            pass
        try:
            res = real_dosub(self, subp_name, *a, **k)
        except BaseException as e:
            rec({'ev': 'do_subproject-end', 'name': str(subp_name), 'depth': len(stack), 'found': False,
                 'exc': type(e).__name__})
            raise
        try:
            rec({'ev': 'do_subproject-end', 'name': str(subp_name), 'depth': len(stack), 'found': bool(res.found())})
        except Exception:
            pass
        return res
    IM.Interpreter.do_subproject = do_subproject


# ====================================================================================================
# Part B: monitors
# ====================================================================================================
def sha_file(path: str) -> T.Optional[str]:
    try:
        with open(path, 'rb') as f:
            return hashlib.sha256(f.read()).hexdigest()
    except OSError:
        return None


def make_wrap_monitor(roles: dict, wrap_mode: str, fault: T.Optional[dict]) -> T.Callable:
    def install(rec: T.Callable[[dict], None]) -> None:
        import urllib.request
        import urllib.error
        from mesonbuild.wrap import wrap as W
        n = {'unpack': 0, 'check_hash': 0, 'urlopen': 0}
        fk = (fault or {}).get('kind')
        fns = set((fault or {}).get('ns', []))

        def role_of(path: str) -> T.Optional[str]:
            base = os.path.basename(path)
            for role, f in roles.items():
                if f['filename'] == base:
                    return role
            return None

        # -- no real sleeping in the download back-off (fault injection would cost 31 s per dead URL)
        class _Time:
            def __getattr__(self, name: str) -> T.Any:
                return getattr(time, name)

            @staticmethod
            def sleep(_s: float) -> None:
                rec({'ev': 'sleep-skipped'})
        W.time = _Time()

        real_unpack = shutil.unpack_archive

        def unpack(filename: T.Any, extract_dir: T.Any = None, *a: T.Any, **k: T.Any) -> T.Any:
            n['unpack'] += 1
            idx = n['unpack']
            try:
                path = os.fspath(filename)
                sha = sha_file(path)
                role = role_of(path)
                verdict = 'ok'
                if role is None:
                    verdict = 'unknown-archive'
                else:
                    recd = roles[role]['recorded']
                    in_files = os.sep + 'packagefiles' + os.sep in path
                    if recd is None:
                        verdict = 'ok-hash-optional' if in_files else 'no-recorded-hash'
                    elif sha is None or sha != recd.lower():
                        verdict = 'hash-differs'
                rec({'ev': 'unpack', 'n': idx, 'path': path, 'dest': str(extract_dir), 'sha': sha, 'role': role,
                     'verdict': verdict, 'pristine': role is not None and sha == roles[role]['pristine_sha']})
            except Exception as e:  # never raise through the observed code
                rec({'ev': 'monitor-error', 'where': 'unpack', 'err': repr(e)})
            if fk == 'unpack' and idx in fns:
                if fault.get('partial'):
                    try:
                        real_unpack(filename, extract_dir, *a, **k)
                    except Exception:
                        pass
                rec({'ev': 'fault', 'kind': 'unpack', 'n': idx})
                raise OSError(errno.EIO, f'injected failure of unpack_archive call #{idx}')
            return real_unpack(filename, extract_dir, *a, **k)
        shutil.unpack_archive = unpack

        real_urlopen = urllib.request.urlopen

        def urlopen(url: T.Any, *a: T.Any, **k: T.Any) -> T.Any:
            n['urlopen'] += 1
            idx = n['urlopen']
            try:
                u = url.full_url if hasattr(url, 'full_url') else str(url)
                rec({'ev': 'urlopen', 'n': idx, 'url': u, 'nodownload': wrap_mode == 'nodownload'})
            except Exception:
                pass
            if fk == 'urlopen' and idx in fns:
                rec({'ev': 'fault', 'kind': 'urlopen', 'n': idx})
                raise urllib.error.URLError('injected network failure')
            return real_urlopen(url, *a, **k)
        urllib.request.urlopen = urlopen

        real_get_data = W.Resolver.get_data

        def get_data(self: T.Any, urlstring: str) -> T.Any:
            try:
                res = real_get_data(self, urlstring)
            except BaseException as e:
                rec({'ev': 'get_data', 'url': urlstring, 'exc': type(e).__name__})
                raise
            try:
                rec({'ev': 'get_data', 'url': urlstring, 'hash': res[0], 'tmp': res[1], 'tmp_sha': sha_file(res[1])})
            except Exception:
                pass
            return res
        W.Resolver.get_data = get_data

        real_check = W.Resolver.check_hash

        def check_hash(self: T.Any, what: str, path: str, *a: T.Any, **k: T.Any) -> None:
            n['check_hash'] += 1
            idx = n['check_hash']
            if fk == 'check_hash' and idx in fns:
                rec({'ev': 'fault', 'kind': 'check_hash', 'n': idx})
                raise W.WrapException(f'injected verification failure #{idx}')
            sha = sha_file(path)
            recd = roles.get(what, {}).get('recorded')
            hash_required = a[0] if a else k.get('hash_required', True)
            try:
                real_check(self, what, path, *a, **k)
            except BaseException as e:
                rec({'ev': 'check_hash', 'what': what, 'path': path, 'sha': sha, 'raised': type(e).__name__,
                     'verdict': 'ok'})
                raise
            verdict = 'ok'
            if recd is None:
                if hash_required:
                    verdict = 'accepted-without-recorded-hash'
            elif sha != recd.lower():
                verdict = 'accepted-mismatch'
            rec({'ev': 'check_hash', 'what': what, 'path': path, 'sha': sha, 'raised': None, 'verdict': verdict})
        W.Resolver.check_hash = check_hash

        real_copy = W.Resolver.copy_tree

        def copy_tree(self: T.Any, src: str, dst: str) -> None:
            rec({'ev': 'copy_tree', 'src': str(src), 'dst': str(dst)})
            return real_copy(self, src, dst)
        W.Resolver.copy_tree = copy_tree
    return install




# ====================================================================================================
# Part B, two processes on one source tree: ordering through marker files (never through the clock)
# ====================================================================================================
TREE_IGNORED = {'.meson-subproject-wrap-hash.txt'}


def tree_digest(d: str) -> T.Dict[str, str]:
    """relative path -> sha256 of a regular file / 'link:<target>' of a symbolic link (never followed)."""
    out: T.Dict[str, str] = {}
    for dp, dn, fn in os.walk(d):
        for f in dn + fn:
            p = os.path.join(dp, f)
            if os.path.islink(p):
                out[os.path.relpath(p, d)] = 'link:' + os.readlink(p)
            elif f in fn and f not in TREE_IGNORED:
                out[os.path.relpath(p, d)] = sha_file(p) or '?'
    return out


def touch_marker(markdir: str, name: str, text: str = '') -> None:
    """Atomically publish a marker file (a reader never sees it half-written)."""
    tmp = os.path.join(markdir, f'.tmp-{os.getpid()}-{name}')
    with open(tmp, 'w', encoding='utf-8') as f:
        f.write(text)
    os.rename(tmp, os.path.join(markdir, name))


def make_concurrency_monitor(markdir: str, tag: str, subdir: str, hold_fn: T.Optional[str] = None,
                             watchdog: float = 100.0) -> T.Callable:
    """`tag` names the process in the marker directory.
    * fcntl.flock (the name utils/platform.py calls through): a BLOCKING request for a file called `.wraplock`
      publishes `<tag>.lockwait` before the call: from then on the process cannot get past the lock while another
      one holds it (what the driver needs to know before it lets the holder go on);
    * Resolver.resolve: on return the digest of the subproject directory AT THAT MOMENT is recorded - the tree this
      process accepted;
    * hold_fn ('apply_patch' / 'apply_diff_files'): the process announces `started.fn` at the entry of that method and
      stays there until `release.fn` appears ('ok' -> the real method runs, anything else -> the step fails)."""
    def install(rec: T.Callable[[dict], None]) -> None:
        import fcntl
        from mesonbuild.wrap import wrap as W
        real_flock = fcntl.flock

        def flock(fd: T.Any, flags: int, *a: T.Any, **k: T.Any) -> T.Any:
            try:
                name = str(getattr(fd, 'name', ''))
                blocking = not (flags & fcntl.LOCK_NB) and not (flags & fcntl.LOCK_UN)
                if name.endswith('.wraplock'):
                    rec({'ev': 'wraplock', 'blocking': blocking})
                    if blocking:
                        touch_marker(markdir, f'{tag}.lockwait')
            except Exception as e:
                rec({'ev': 'monitor-error', 'where': 'flock', 'err': repr(e)})
            return real_flock(fd, flags, *a, **k)
        fcntl.flock = flock

        real_resolve = W.Resolver.resolve

        def resolve(self: T.Any, packagename: str, *a: T.Any, **k: T.Any) -> T.Any:
            try:
                res = real_resolve(self, packagename, *a, **k)
            except BaseException as e:
                rec({'ev': 'resolve-raise', 'exc': type(e).__name__, 'msg': str(e)[:200]})
                raise
            try:
                held = [n for n in os.listdir(markdir) if n.startswith('started.')]
                released = [n for n in os.listdir(markdir) if n.startswith('release.')]
                rec({'ev': 'resolve-return', 'exists': os.path.isdir(subdir), 'tree': tree_digest(subdir),
                     'first_run_still_held': any('release.' + n.split('.', 1)[1] not in released for n in held)})
            except Exception as e:
                rec({'ev': 'monitor-error', 'where': 'resolve', 'err': repr(e)})
            return res
        W.Resolver.resolve = resolve

        if hold_fn:
            real_fn = getattr(W.Resolver, hold_fn)

            def held_fn(self: T.Any, *a: T.Any, **k: T.Any) -> T.Any:
                mode = 'ok'
                try:
                    os.mkdir(os.path.join(markdir, 'started.fn'))
                    rec({'ev': 'hold', 'at': hold_fn})
                    end = time.monotonic() + watchdog
                    rel = os.path.join(markdir, 'release.fn')
                    while not os.path.exists(rel) and time.monotonic() < end:
                        time.sleep(0.01)
                    with open(rel, encoding='utf-8') as f:
                        mode = f.read().strip()
                except FileExistsError:
                    pass      # another process is (was) the held one
                except Exception as e:
                    rec({'ev': 'monitor-error', 'where': 'hold', 'err': repr(e)})
                if mode != 'ok':
                    rec({'ev': 'fault', 'kind': 'held-step', 'at': hold_fn})
                    raise W.WrapException(f'injected failure of the {hold_fn} step')
                return real_fn(self, *a, **k)
            setattr(W.Resolver, hold_fn, held_fn)
    return install
