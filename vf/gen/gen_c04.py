"""gen_c04: seeded generator of target-graph projects for C04 (imports nothing from mesonbuild).

generate(seed, ...) -> (files, desc)
  files : {relative path: text}  a complete meson project (tiny real C sources, python tools)
  desc  : what was generated, in the generator's own words (the oracle side of C04):
    desc['targets'] : [{id, kind, name, dir, sp, default, outputs|prefix/suffix/version, ...}]
    desc['tests']   : [{name, benchmark, prereq: [target ids], sp}]
    desc['features']: sorted list of feature cells the project exercises
    desc['flat_collision'] : two targets get the same path under --layout flat
    desc['collision'] : None | {kind, certain, why}   (deliberate-collision variants)

expected_paths(t, layout, default_library) gives the build-dir relative files a target must produce on
Linux/gcc (file naming rules written down here, not asked from meson).

Evaluation order: a project is a tree of directories; each directory's meson.build is
  <pre items> subdir(child)... <post items>; items only refer to items evaluated earlier (meson variables
are global within one project).  The subproject is entered first from the top-level meson.build.
"""
from __future__ import annotations

import random
import typing as T

PLAIN_NAMES = ['alpha', 'beta', 'gamma', 'delta', 'eps', 'zeta', 'eta', 'theta', 'iota', 'kappa', 'lam', 'mu',
               'nu', 'xi', 'omi', 'pi', 'rho', 'sigma', 'tau', 'ups', 'phi', 'chi', 'psi', 'omega',
               'core', 'util', 'tool', 'main', 'app', 'io', 'net', 'fmt', 'log', 'cfg', 'gen', 'data']
# Names that need quoting somewhere (ninja build line: blank, `$`, `:`; shell: the rest) but are legal
# file names on Linux and accepted as meson target names.
ODD_NAMES = ['foo bar', 'tärget', 'ex$e', 'a:b', 'naïve name', 'x+y', 'p@q', 'eq=s', "it's", 'h#sh',
             'amp&er', 'semi;c', 'par(en)', 'sq[b]', 'st*r', 'q?m', 'tilde~', 'com,ma', 'pct%', 'ex!cl',
             'dollar$$x', 'col::on', '漢字', 'файл', 'a b  c', '$HOME', '${x}', 'dq"uote', 'back`tick',
             'x $ : y', '-dash', '.dot', 'caret^', 'lt<gt>', 'cur{ly}', 'two..dots', 'emoji\U0001F600']
# reserved at the root, allowed in a sub directory since 1.12
RESERVED = ['all', 'test', 'clean', 'install', 'benchmark', 'dist', 'uninstall', 'reconfigure', 'phony', 'PHONY',
            'build.ninja', 'clean-ctlist', 'coverage', 'scan-build', 'distcheck']
ODD_DIRS = ['d r', 'dür', 'dol$ar', 'co:lon', 'pl+us']

KINDS = ['exe', 'static', 'shared', 'library', 'both', 'custom', 'custom', 'exe', 'library', 'alias', 'run']


def mstr(s: str) -> str:
    """A meson string literal."""
    return "'" + s.replace('\\', '\\\\').replace("'", "\\'") + "'"


def mlist(items: T.Sequence[str]) -> str:
    return '[' + ', '.join(items) + ']'


TOOL_GEN = '''#!/usr/bin/env python3
# gen.py [--dep DEPFILE] [--in FILE]... --out FILE...   writes every output (C source / header / text)
import os, sys
args = sys.argv[1:]
ins, outs, dep, mode = [], [], None, None
for a in args:
    if a in ('--in', '--out', '--dep'):
        mode = a
    elif mode == '--dep':
        dep = a; mode = None
    elif mode == '--in':
        ins.append(a)
    elif mode == '--out':
        outs.append(a)
def ident(p):
    return ''.join(c if c.isalnum() else '_' for c in os.path.basename(p))
for o in outs:
    with open(o, 'w', encoding='utf-8') as f:
        if o.endswith('.c'):
            f.write('int gen_%s(void) { return %d; }\\n' % (ident(o), len(ins)))
        elif o.endswith('.h'):
            f.write('#pragma once\\n#define GEN_%s %d\\n' % (ident(o).upper(), len(ins)))
        else:
            f.write('generated from %d inputs\\n' % len(ins))
if dep:
    with open(dep, 'w', encoding='utf-8') as f:
        f.write('%s: %s\\n' % (outs[0].replace(' ', '\\\\ '), ' '.join(i.replace(' ', '\\\\ ') for i in ins)))
'''

TOOL_CAP = '''#!/usr/bin/env python3
# cap.py [FILE]...   prints a line per input (used with capture: true / feed: true)
import sys
if len(sys.argv) == 1:
    sys.stdout.write(sys.stdin.read())
for a in sys.argv[1:]:
    print('captured', a)
'''

TOOL_CONV = '''#!/usr/bin/env python3
# conv.py INPUT OUTPUT   generator() tool: turns x.in into a C source or header
import os, sys
src, dst = sys.argv[1], sys.argv[2]
name = ''.join(c if c.isalnum() else '_' for c in os.path.basename(dst))
with open(dst, 'w', encoding='utf-8') as f:
    if dst.endswith('.h'):
        f.write('#pragma once\\n#define CONV_%s 1\\n' % name.upper())
    else:
        f.write('int conv_%s(void) { return 1; }\\n' % name)
'''


def available_languages() -> T.List[str]:
    """Languages the sandbox has a compiler for (looked up on PATH, nothing asked from meson)."""
    import shutil
    res = ['c']
    if shutil.which('g++') or shutil.which('c++') or shutil.which('clang++'):
        res.append('cpp')
    if shutil.which('gfortran') or shutil.which('flang'):
        res.append('fortran')
    return res


def asm_source(sym: str) -> str:
    """A tiny real x86-64 (AT&T syntax, preprocessed .S) function returning 0."""
    return ('/* generated */\n    .text\n    .globl ' + sym + '\n' + sym + ':\n    xorl %eax, %eax\n    ret\n'
            '    .section .note.GNU-stack,"",@progbits\n')


FAIL_STAGES = ['early', 'after-targets', 'after-tests', 'after-tests-missing-dependency', 'version-mismatch']
FAIL_VIAS = ['subproject', 'dependency-fallback']


def failing_subproject(name: str, marker: str, stage: str, via: str) -> T.Tuple[T.Dict[str, str], str]:
    """An OPTIONAL subproject that is disabled because it fails at `stage`; every target, output, test and alias
    it declares carries `marker` in its name.  Returns (files relative to the parent's source root, the line
    for the parent's meson.build).  The parent must configure; nothing named `marker` may reach build.ninja."""
    M = marker
    if stage == 'version-mismatch':
        # dependency(version:, fallback:) checks the version of the dependency object after the subproject was
        # configured and merged (the subproject itself succeeded); only subproject(version:) disables it
        via = 'subproject'
    L = [f"project({mstr(name)}, 'c', version: '1.0')", "py = find_program('python3')"]
    if stage == 'early':
        L.append(f"error('{M} fails before declaring anything')")
    L += [f"{M}_exe = executable('{M}_helper', 'm.c')",
          f"{M}_lib = library('{M}_lib', 'l.c')",
          f"{M}_ct = custom_target('{M}_ct', output: ['{M}_out.txt', '{M} o$2.dat'], command: [py, '-c', 'pass'], build_by_default: true)",
          f"{M}_nd = executable('{M}_nd', 'm.c', build_by_default: false)",
          f"{name}_dep = declare_dependency(link_with: {M}_lib)",
          # state other than targets/tests that the subproject registers before it fails
          f"meson.override_find_program('{M}_prog', {M}_exe)",
          f"meson.override_dependency('{M}-dep', {name}_dep)"]
    if stage == 'after-targets':
        L.append(f"error('{M} fails after declaring targets')")
    L += [f"test('{M}_test', {M}_exe, args: [{M}_ct], depends: [{M}_nd])",
          f"test('{M}_test2', {M}_nd)",
          f"benchmark('{M}_bench', {M}_nd, args: [{M}_ct[1]], depends: {M}_lib)",
          f"alias_target('{M}_alias', {M}_exe)",
          f"run_target('{M}_run', command: [py, '-c', 'pass'], depends: {M}_ct)",
          f"install_data('m.c', install_dir: 'share/{M}')",
          f"configure_file(output: '{M}_cfg.h', configuration: {{'X': 1}})",
          f"executable('{M}_inst', 'm.c', install: true)"]
    if stage == 'after-tests':
        L.append(f"error('{M} fails after registering tests')")
    elif stage == 'after-tests-missing-dependency':
        L.append(f"dependency('c04-no-such-dependency-{M.lower()}')")
    files = {f'subprojects/{name}/meson.build': '\n'.join(L) + '\n',
             f'subprojects/{name}/m.c': 'int main(void) { return 0; }\n',
             f'subprojects/{name}/l.c': f'int {M}_fn(void) {{ return 0; }}\n'}
    # the parent afterwards asks for what the disabled subproject may have registered and would use it
    files[f'{M}_user.c'] = 'int main(void) { return 0; }\n'
    use = (f"\n{name}_p = find_program('{M}_prog', required: false)\n"
           f"if {name}_p.found()\n"
           f"  custom_target('{M}_used_prog', output: '{M}_used.h', command: [{name}_p, '@OUTPUT@'], build_by_default: true)\n"
           f"endif\n"
           f"{name}_od = dependency('{M}-dep', required: false)\n"
           f"if {name}_od.found()\n"
           f"  executable('{M}_used_dep', '{M}_user.c', dependencies: {name}_od)\n"
           f"endif")
    ver = ", version: '>=99'" if stage == 'version-mismatch' else ''
    if via == 'dependency-fallback':
        line = (f"{name}_d = dependency('c04-not-installed-{name}', fallback: [{mstr(name)}, '{name}_dep'], "
                f"required: false{ver})\nassert(not {name}_d.found(), '{name} must be disabled')")
    else:
        line = (f"{name}_s = subproject({mstr(name)}, required: false{ver})\n"
                f"assert(not {name}_s.found(), '{name} must be disabled')")
    return files, line + use


# ------------------------------------------------------------------------------------------------
# Every documented way a target becomes (or stops being) built by default.
BUILD_TARGET_FUNCS = [('executable', 'exe'), ('static_library', 'static'), ('shared_library', 'shared'),
                      ('shared_module', 'shared'), ('library', 'library'), ('both_libraries', 'both')]
TRI = [None, True, False]


def documented_default(func: str, build_by_default: T.Optional[bool], install: T.Optional[bool],
                       build_always: T.Optional[bool] = None) -> T.Optional[bool]:
    """Whether the reference manual says the target is built by default (None = the documents do not decide).

    custom_target (docs/yaml/functions/custom_target.yaml): build_by_default "The default value is `false`.
    (since 0.50.0) If `build_by_default` is explicitly set to false, `install` will no longer override it.  If
    `build_by_default` is not set, `install` will still determine its default."  build_always (deprecated):
    "Equivalent to setting both `build_always_stale` and `build_by_default` to true."  build_always_stale says
    nothing about being built by default.
    Build targets (docs/yaml/functions/_build_target_base.yaml): "The default value is `true` for all built
    target types."  What install: true does to an explicit build_by_default: false is not documented there."""
    if func == 'custom_target':
        if build_by_default is not None:
            if build_always and not build_by_default:
                return None      # "equivalent to build_by_default: true" next to an explicit false: undecided
            return build_by_default
        if build_always:
            return True
        return bool(install)
    if build_by_default is None or build_by_default:
        return True
    if install:
        return None
    return False


def _kw_bool(name: str, v: T.Optional[bool]) -> T.List[str]:
    return [] if v is None else [f"{name}: {'true' if v else 'false'}"]


def default_matrix(prefix: str, sp: str, d: str, build_target_cells: T.Sequence[T.Tuple[str, str, T.Optional[bool], T.Optional[bool]]],
                   ) -> T.Tuple[T.List[str], T.List[dict]]:
    """meson.build lines + target descriptions for one directory: every custom_target combination of
    build_by_default x install x build_always_stale (+ the deprecated build_always), single and multi output, and
    the given (func, kind, build_by_default, install) build-target cells.  Every target is a leaf: nothing else
    uses it, so only its own flag can bring it into `all`.  Needs `py`, m.c and l.c in the directory."""
    lines: T.List[str] = []
    targets: T.List[dict] = []
    k = 0

    def add(kind: str, name: str, default: T.Optional[bool], cell: str, **kw: T.Any) -> None:
        t = {'id': f'{prefix}{len(targets)}', 'kind': kind, 'name': name, 'dir': d, 'sp': sp, 'default': default,
             'cell': cell}
        t.update(kw)
        targets.append(t)
    for bbd in TRI:
        for inst in TRI:
            for stale in (None, True):
                k += 1
                multi = k % 3 == 0
                name = f'{prefix}c{k}'
                outs = [f'{name}.o1', f'{name} o$2'] if multi else [f'{name}.out']
                kw = ['output: ' + (mlist([mstr(o) for o in outs]) if multi else mstr(outs[0])),
                      "command: [py, '-c', 'pass']"]
                kw += _kw_bool('build_by_default', bbd) + _kw_bool('install', inst)
                if inst:
                    kw.append('install_dir: ' + (mlist(["'share/dm'", 'false']) if multi and k % 2 else "'share/dm'"))
                kw += _kw_bool('build_always_stale', stale)
                lines.append(f"custom_target({mstr(name)}, {', '.join(kw)})")
                add('custom', name, documented_default('custom_target', bbd, inst),
                    f'custom_target/bbd={bbd}/install={inst}/stale={stale}', outputs=outs)
    for ba, bbd, inst in ((True, None, None), (True, None, True), (False, None, None), (False, None, True),
                          (True, False, None), (False, True, None)):
        k += 1
        name = f'{prefix}c{k}'
        kw = [f"output: {mstr(name + '.out')}", "command: [py, '-c', 'pass']"]
        kw += _kw_bool('build_always', ba) + _kw_bool('build_by_default', bbd) + _kw_bool('install', inst)
        if inst:
            kw.append("install_dir: 'share/dm'")
        lines.append(f"custom_target({mstr(name)}, {', '.join(kw)})")
        add('custom', name, documented_default('custom_target', bbd, inst, ba),
            f'custom_target/build_always={ba}/bbd={bbd}/install={inst}', outputs=[name + '.out'])
    for func, kind, bbd, inst in build_target_cells:
        k += 1
        name = f'{prefix}b{k}'
        kw = _kw_bool('build_by_default', bbd) + _kw_bool('install', inst)
        src = 'm.c' if kind == 'exe' else 'l.c'
        lines.append(f"{func}({', '.join([mstr(name), mstr(src)] + kw)})")
        add(kind, name, documented_default(func, bbd, inst), f'{func}/bbd={bbd}/install={inst}')
    return lines, targets


class Item:
    """One generated target."""

    def __init__(self, idx: int, kind: str, name: str, dir_: str, sp: str) -> None:
        self.idx = idx
        self.id = f't{idx}'
        self.var = f't{idx}'
        self.kind = kind
        self.name = name
        self.dir = dir_
        self.sp = sp
        self.default = True
        self.outputs: T.List[str] = []     # custom targets
        self.prefix: T.Optional[str] = None
        self.suffix: T.Optional[str] = None
        self.version: T.Optional[str] = None
        self.soversion: T.Optional[str] = None
        self.deps: T.List[str] = []        # ids of targets this one refers to (informational)
        self.c_like_outputs = False
        self.lang = 'c'
        self.has_module = False
        self.lines: T.List[str] = []

    def desc(self) -> dict:
        d = {'id': self.id, 'kind': self.kind, 'name': self.name, 'dir': self.dir, 'sp': self.sp,
             'default': self.default, 'deps': sorted(set(self.deps)), 'lang': self.lang}
        if self.kind == 'custom':
            d['outputs'] = list(self.outputs)
        for k in ('prefix', 'suffix', 'version', 'soversion'):
            v = getattr(self, k)
            if v is not None:
                d[k] = v
        return d


def expected_paths(t: dict, layout: str, default_library: str, sp_dir: str = 'subprojects') -> T.List[str]:
    """Build-dir relative files the target must produce (Linux, gcc).  Run/alias targets: their ninja name."""
    kind = t['kind']
    if kind in ('alias', 'run'):
        return [(t['sp'] + '@@' if t['sp'] else '') + t['name']]
    if layout == 'flat':
        d = 'meson-out'
    else:
        parts = []
        if t['sp']:
            parts += [sp_dir, t['sp']]
        if t['dir']:
            parts.append(t['dir'])
        d = '/'.join(parts)

    def j(f: str) -> str:
        return f'{d}/{f}' if d else f
    if kind == 'custom':
        return [j(o) for o in t['outputs']]
    name = t['name']
    if kind == 'exe':
        f = name if t.get('prefix') is None else t['prefix'] + name
        if t.get('suffix'):
            f += '.' + t['suffix']
        return [j(f)]
    pre = 'lib' if t.get('prefix') is None else t['prefix']

    def static() -> str:
        return pre + name + '.' + (t.get('suffix') or 'a')

    def shared() -> str:
        f = pre + name + '.' + (t.get('suffix') or 'so')
        if t.get('version'):
            f += '.' + t['version']
        elif t.get('soversion'):
            f += '.' + t['soversion']
        return f
    if kind == 'static':
        return [j(static())]
    if kind == 'shared':
        return [j(shared())]
    if kind == 'both':
        return [j(shared()), j(static())]
    if kind == 'library':
        if default_library == 'static':
            return [j(static())]
        if default_library == 'shared':
            return [j(shared())]
        return [j(shared()), j(static())]
    raise AssertionError(kind)


def dependency_paths(t: dict, layout: str, default_library: str) -> T.List[str]:
    """Files a *user* of the target (test depends:, test args) refers to.  A both_libraries() object (and
    library() under default_library=both) stands for its shared half wherever one library is meant
    (default_both_libraries=shared, the documented default)."""
    paths = expected_paths(t, layout, default_library)
    if t['kind'] == 'both' or (t['kind'] == 'library' and default_library == 'both'):
        return paths[:1]
    return paths


class ProjectGen:
    def __init__(self, rng: random.Random, n_targets: int, odd: float, with_sp: bool, depth2: bool,
                 langs: T.Sequence[str] = ('c',)) -> None:
        self.rng = rng
        self.langs = list(langs)
        self.n_targets = n_targets
        self.odd = odd
        self.files: T.Dict[str, str] = {}
        self.items: T.List[Item] = []
        self.tests: T.List[dict] = []
        self.features: T.Set[str] = set()
        self.used_names: T.Set[T.Tuple[str, str, str]] = set()   # (sp, dir, output file-ish key)
        self.used_ids: T.Set[T.Tuple[str, str, str, str]] = set()
        self.with_sp = with_sp
        self.depth2 = depth2
        self.counter = 0
        self.flat_paths: T.Dict[str, str] = {}
        self.flat_collision = False
        self.flat_dup_budget = 1 if rng.random() < 0.15 else 0
        self.failed_subprojects: T.List[dict] = []
        self.overridden: T.Dict[str, T.List[Item]] = {}
        # per project ('' main, 'sp'): directory tree and per directory pre/post line lists
        self.dirs: T.Dict[str, T.List[str]] = {}
        self.body: T.Dict[T.Tuple[str, str, str], T.List[str]] = {}
        self.slots: T.List[T.Tuple[str, str, str]] = []

    # ---------------------------------------------------------------- layout of directories
    def make_dirs(self) -> None:
        r = self.rng
        pool = ['a', 'c', 'lib', 'src', 'x1']
        if r.random() < self.odd:
            pool += ODD_DIRS
        r.shuffle(pool)
        top = pool[:r.randint(1, 3)]
        dirs = ['']
        for d in top:
            dirs.append(d)
        if self.depth2:
            parent = r.choice(top)
            for sub in r.sample(['b', 'inner', 'a', r.choice(ODD_DIRS)], r.randint(1, 2)):
                dirs.append(f'{parent}/{sub}')
        self.dirs[''] = dirs
        if self.with_sp:
            self.dirs['sp'] = ['', 'inner'] if r.random() < 0.6 else ['']
        # evaluation slots in DFS order
        if self.with_sp:
            self._slots_for('sp', '')
        self._slots_for('', '')

    def _children(self, sp: str, d: str) -> T.List[str]:
        res = []
        for x in self.dirs[sp]:
            if x and x != d:
                parent = x.rsplit('/', 1)[0] if '/' in x else ''
                if parent == d:
                    res.append(x)
        return res

    def _slots_for(self, sp: str, d: str) -> None:
        self.slots.append((sp, d, 'pre'))
        self.body[(sp, d, 'pre')] = []
        for c in self._children(sp, d):
            self._slots_for(sp, c)
        self.slots.append((sp, d, 'post'))
        self.body[(sp, d, 'post')] = []

    # ---------------------------------------------------------------- helpers
    def root_of(self, sp: str) -> str:
        return f'subprojects/{sp}/' if sp else ''

    def path_in(self, sp: str, d: str, fname: str) -> str:
        return self.root_of(sp) + (d + '/' if d else '') + fname

    def add_file(self, sp: str, d: str, fname: str, content: str) -> None:
        self.files[self.path_in(sp, d, fname)] = content

    def pick_name(self, sp: str, d: str, kind: str) -> str:
        r = self.rng
        for _ in range(200):
            x = r.random()
            fresh = True
            if x < self.odd:
                name = r.choice(ODD_NAMES)
            elif x < self.odd + 0.08 and d:
                name = r.choice(RESERVED)
                self.features.add('name:reserved-in-subdir')
            elif x < self.odd + 0.23 and self.items:
                # the base name of an existing target of another kind class (legal even in the same dir:
                # foo / libfoo.so / custom target foo)
                cls = self._cls(kind)
                donors = [i for i in self.items if self._cls(i.kind) != cls]
                if not donors:
                    continue
                name = r.choice(donors).name
            elif x < self.odd + 0.33 and self.items and self.flat_dup_budget > 0:
                # the same name and kind class in another directory: fine in mirror layout, one path under flat
                cls = self._cls(kind)
                donors = [i for i in self.items if self._cls(i.kind) == cls and (i.sp, i.dir) != (sp, d)]
                if not donors:
                    continue
                name = r.choice(donors).name
                fresh = False
                if self._name_free(sp, d, kind, name):
                    self.flat_dup_budget -= 1
            else:
                name = r.choice(PLAIN_NAMES) + (str(r.randint(0, 9)) if r.random() < 0.3 else '')
            if kind in ('alias', 'run') and (name in RESERVED or any(ch in name for ch in '/\\')):
                continue
            if name in RESERVED and not d:
                continue
            if fresh and any(i.name == name and self._cls(i.kind) == self._cls(kind) for i in self.items):
                continue
            if self._name_free(sp, d, kind, name):
                return name
        self.counter += 1
        return f'uniq{self.counter}'

    @staticmethod
    def _cls(kind: str) -> str:
        return {'exe': 'exe', 'static': 'lib', 'shared': 'lib', 'library': 'lib', 'both': 'lib', 'custom': 'cus',
                'alias': 'run', 'run': 'run'}[kind]

    def _keys(self, sp: str, d: str, kind: str, name: str, outputs: T.Sequence[str] = ()) -> T.List[T.Tuple[str, str, str]]:
        """Conservative set of build-dir paths (mirror layout, any default_library) the target may claim."""
        t = {'kind': kind, 'name': name, 'dir': d, 'sp': sp, 'outputs': list(outputs)}
        keys = set()
        if kind in ('alias', 'run'):
            keys.add(('', '', expected_paths(t, 'mirror', 'shared')[0]))
            return sorted(keys)
        for dl in ('shared', 'static', 'both'):
            for p in expected_paths(t, 'mirror', dl):
                keys.add(('', '', p))
                keys.add(('', '', p + '.p'))
        return sorted(keys)

    def _name_free(self, sp: str, d: str, kind: str, name: str, outputs: T.Sequence[str] = ()) -> bool:
        typ = {'exe': 'exe', 'static': 'lib', 'shared': 'lib', 'library': 'lib', 'both': 'lib', 'custom': 'cus',
               'alias': 'run', 'run': 'run'}[kind]
        # meson target ids are name + type suffix per directory; library()/both_libraries() may be either
        if (sp, d, name, typ) in self.used_ids:
            return False
        if typ == 'run' and any(k[0] == sp and k[2] == name and k[3] == 'run' for k in self.used_ids):
            return False
        for k in self._keys(sp, d, kind, name, outputs):
            if k in self.used_names:
                return False
        # run/alias targets live at the top level of the build dir: must not equal any top-level output
        return True

    def claim(self, it: Item) -> None:
        typ = {'exe': 'exe', 'static': 'lib', 'shared': 'lib', 'library': 'lib', 'both': 'lib', 'custom': 'cus',
               'alias': 'run', 'run': 'run'}[it.kind]
        self.used_ids.add((it.sp, it.dir, it.name, typ))
        for k in self._keys(it.sp, it.dir, it.kind, it.name, it.outputs):
            self.used_names.add(k)
        d = it.desc()
        if it.kind not in ('alias', 'run'):
            for dl in ('shared', 'static', 'both'):
                for p in expected_paths(d, 'flat', dl):
                    prev = self.flat_paths.get(p)
                    if prev is not None and prev != it.id:
                        self.flat_collision = True
                    self.flat_paths[p] = it.id

    def earlier(self, it_sp: str, kinds: T.Sequence[str]) -> T.List[Item]:
        return [x for x in self.items if x.sp == it_sp and x.kind in kinds]

    def ref(self, it: Item, user_sp: str) -> str:
        """Expression naming target `it` from project user_sp."""
        if it.sp == user_sp:
            return it.var
        return f"sp.get_variable({mstr(it.var)})"

    def visible(self, user_sp: str, kinds: T.Sequence[str]) -> T.List[Item]:
        res = [x for x in self.items if x.kind in kinds and (x.sp == user_sp or (user_sp == '' and x.sp == 'sp'))]
        return res

    # ---------------------------------------------------------------- item generators
    def c_source(self, it: Item, k: int, main: bool, calls: T.Sequence[str], includes: T.Sequence[str],
                 lang: str = 'c', use_modules: T.Sequence[str] = ()) -> str:
        r = self.rng
        if lang == 'fortran':
            return self.fortran_source(it, k, main, use_modules)
        ext = '.cpp' if lang == 'cpp' else '.c'
        base = r.choice(['src', 'util', 'impl', 'x y', 'möd']) if r.random() < 0.35 else f'{it.id}_{k}'
        fname = f'{base}_{it.id}{ext}' if base in ('src', 'util') and r.random() < 0.5 else f'{base}{ext}'
        # the same source basename may exist in several dirs; in one dir it must be unique per target
        path = self.path_in(it.sp, it.dir, fname)
        if path in self.files:
            fname = f'{it.id}_{k}{ext}'
        cdecl = 'extern "C" ' if lang == 'cpp' else ''
        text = ''.join(f'#include "{h}"\n' for h in includes)
        text += ''.join(f'{cdecl}int {c}(void);\n' for c in calls)
        if main:
            body = ' + '.join(f'{c}()' for c in calls) or '0'
            text += f'int main(void) {{ return ({body}) * 0; }}\n'
        else:
            text += f'{cdecl}int fn_{it.id}_{k}(void) {{ return {k}; }}\n'
        self.add_file(it.sp, it.dir, fname, text)
        return fname

    def fortran_source(self, it: Item, k: int, main: bool, use_modules: T.Sequence[str]) -> str:
        """Free-form Fortran: a module per library source (exporting fn_<id>_<k> with C binding), a program for
        executables; `use` of modules of linked Fortran libraries and of the previous source of the same target."""
        fname = f'{it.id}_{k}.f90'
        uses = list(use_modules)
        if k > 0 and not main and self.rng.random() < 0.6:
            uses.append(f'mod_{it.id}_{k - 1}')
        use_lines = ''.join(f'  use {u}\n' for u in uses)
        if main:
            text = (f'program main_{it.id}\n{use_lines}  implicit none\n  print *, 0\nend program main_{it.id}\n')
        else:
            text = (f'module mod_{it.id}_{k}\n{use_lines}  use iso_c_binding\n  implicit none\ncontains\n'
                    f"  integer(c_int) function ffn_{it.id}_{k}() bind(C, name='fn_{it.id}_{k}')\n"
                    f'    ffn_{it.id}_{k} = {k}\n  end function ffn_{it.id}_{k}\nend module mod_{it.id}_{k}\n')
        self.add_file(it.sp, it.dir, fname, text)
        return fname

    def gen_build_target(self, it: Item) -> None:
        r = self.rng
        kind = it.kind
        func = {'exe': 'executable', 'static': 'static_library', 'shared': 'shared_library',
                'library': 'library', 'both': 'both_libraries'}[kind]
        kw: T.List[str] = []
        srcs: T.List[str] = []
        includes: T.List[str] = []
        calls: T.List[str] = []
        # link_with / link_whole chains
        libs = self.visible(it.sp, ['static', 'shared', 'library', 'both'])
        link_with: T.List[str] = []
        link_whole: T.List[str] = []
        lang = r.choice(self.langs) if len(self.langs) > 1 else 'c'
        it.lang = lang
        use_modules: T.List[str] = []
        if libs and r.random() < 0.75:
            for lib in r.sample(libs, min(len(libs), r.randint(1, 3))):
                if lib.kind in ('static', 'both') and r.random() < 0.35:
                    e = self.ref(lib, it.sp)
                    link_whole.append(e + '.get_static_lib()' if lib.kind == 'both' else e)
                    self.features.add('link_whole')
                else:
                    link_with.append(self.ref(lib, it.sp))
                    self.features.add('link_with:' + lib.kind)
                    if lib.sp == it.sp:
                        calls.append(f'fn_{lib.id}_0')
                    if lang == 'fortran' and lib.lang == 'fortran' and lib.sp == it.sp and lib.has_module:
                        use_modules.append(f'mod_{lib.id}_0')
                        self.features.add('fortran:use-module-of-linked-library')
                if lang != lib.lang:
                    self.features.add(f'link:{lang}-to-{lib.lang}')
                it.deps.append(lib.id)
                if lib.sp != it.sp:
                    self.features.add('uses-subproject-lib')
        # generated sources
        gens = [x for x in self.earlier(it.sp, ['custom']) if x.c_like_outputs]
        if gens and r.random() < 0.45:
            g = r.choice(gens)
            if r.random() < 0.5 or len(g.outputs) == 1:
                srcs.append(g.var)
            else:
                srcs.append(f'{g.var}[{r.randrange(len(g.outputs))}]')
                self.features.add('custom-target-index-as-source')
            it.deps.append(g.id)
            self.features.add('generated-source:custom_target')
        if r.random() < 0.25:
            gv = self.ensure_generator(it.sp)
            n = r.randint(1, 2)
            ins = []
            for k in range(n):
                fn = f'{it.id}_g{k}.in'
                self.add_file(it.sp, it.dir, fn, 'x\n')
                ins.append(mstr(fn))
            srcs.append(f"{gv}.process({', '.join(ins)})")
            self.features.add('generated-source:generator')
        if r.random() < 0.15:
            # inputs below the target's directory, their relative path kept in the private dir
            gv = self.ensure_generator(it.sp)
            ins = []
            for k, seg in enumerate(r.sample(['', 'deep', 'deep/er', 'o ther'], r.randint(2, 3))):
                rel = f'pp_{it.id}/' + (seg + '/' if seg else '') + f'{it.id}_p{k}.in'
                self.add_file(it.sp, it.dir, rel, 'x\n')
                ins.append(mstr(rel))
            srcs.append(f"{gv}.process({', '.join(ins)}, preserve_path_from: meson.current_source_dir() / 'pp_{it.id}')")
            self.features.add('generated-source:generator-preserve-path')
        single = [x for x in self.earlier(it.sp, ['custom']) if x.id not in it.deps]
        if single and r.random() < 0.12:
            g = r.choice(single)
            gv = self.ensure_generator(it.sp)
            srcs.append(f"{gv}.process({g.var}[{r.randrange(len(g.outputs))}])")
            it.deps.append(g.id)
            self.features.add('generator-processes-built-target')
        if r.random() < 0.25:
            srcs.append(self.gen_configure_file(it.sp, it.dir, header=True))
            self.features.add('generated-source:configure_file')
        if kind != 'exe' or r.random() < 0.3:
            objs = [x for x in self.earlier(it.sp, ['static']) if x.id not in it.deps]
            if objs and r.random() < 0.15:
                o = r.choice(objs)
                kw.append(f'objects: {o.var}.extract_all_objects(recursive: false)')
                it.deps.append(o.id)
                self.features.add('extract_all_objects')
        nsrc = r.choice([1, 1, 2, 3, 4, 4, 5, 8])
        asm_only = kind != 'exe' and r.random() < 0.07
        if asm_only:
            # a library made of one assembly source (never unity-compiled)
            fn = f'{it.id}_asm.S'
            self.add_file(it.sp, it.dir, fn, asm_source(f'fn_{it.id}_0'))
            own = [fn]
            nsrc = 1
            self.features.add('asm-only-library')
        else:
            own = [self.c_source(it, k, main=(kind == 'exe' and k == 0), calls=calls if k == 0 else [], includes=[],
                                 lang=lang, use_modules=use_modules if k == 0 else [])
                   for k in range(nsrc)]
            it.has_module = lang == 'fortran' and kind != 'exe'
            if lang != 'c':
                self.features.add('lang:' + lang)
                if r.random() < 0.2:
                    # a mixed-language target: one more source in C
                    extra_c = f'{it.id}_mixed.c'
                    self.add_file(it.sp, it.dir, extra_c, f'int mixed_{it.id}(void) {{ return 0; }}\n')
                    own.append(extra_c)
                    self.features.add('mixed-language-target')
            if kind != 'exe' and r.random() < 0.06:
                fn = f'{it.id}_extra.S'
                self.add_file(it.sp, it.dir, fn, asm_source(f'fn_{it.id}_asm'))
                own.append(fn)
                self.features.add('asm-source')
        if nsrc > 1:
            self.features.add('multi-source')
        # a source from another directory with the same basename as one of ours
        if r.random() < 0.15 and it.dir:
            other = f'xd_{it.id}.c'
            self.files[self.path_in(it.sp, '', other)] = f'int xd_{it.id}(void) {{ return 1; }}\n'
            up = '/'.join(['..'] * (it.dir.count('/') + 1))
            own.append(f'{up}/{other}')
            self.features.add('source-from-parent-dir')
        srcs = [mstr(s) for s in own] + srcs
        if link_with:
            kw.append('link_with: ' + mlist(link_with))
        if link_whole:
            kw.append('link_whole: ' + mlist(link_whole))
        if r.random() < 0.3:
            it.default = False
            kw.append('build_by_default: false')
            self.features.add(f'non-default:{kind}')
        elif r.random() < 0.15:
            kw.append('build_by_default: true')
        if kind == 'exe' and r.random() < 0.12:
            it.suffix = r.choice(['bin', 'x', 'out'])
            kw.append(f'name_suffix: {mstr(it.suffix)}')
            self.features.add('name_suffix')
        if kind in ('static', 'shared') and r.random() < 0.12:
            it.prefix = r.choice(['', 'my', 'lib_'])
            kw.append(f'name_prefix: {mstr(it.prefix)}')
            self.features.add('name_prefix')
        if kind == 'shared' and r.random() < 0.25:
            if r.random() < 0.5:
                it.version = r.choice(['1.2.3', '0.1', '7'])
                kw.append(f'version: {mstr(it.version)}')
            else:
                it.soversion = r.choice(['1', '12', 'x'])
                kw.append(f'soversion: {mstr(it.soversion)}')
            self.features.add('shlib-version-alias')
        if r.random() < 0.15:
            kw.append(f"c_args: ['-DX_{it.id}=1']")
        if kind == 'exe' and r.random() < 0.1:
            kw.append('install: true')
        args = [mstr(it.name)] + srcs + kw
        it.lines.append(f"{it.var} = {func}({', '.join(args)})")

    def ensure_generator(self, sp: str) -> str:
        var = 'gen_c'
        key = (sp, '', 'pre')
        marker = f'{var} = generator('
        # defined at the very top of the project so every directory sees it
        if not any(marker in ln for ln in self.body[key]):
            out = self.rng.choice(['@BASENAME@.gen.c', '@PLAINNAME@.c', '@BASENAME@_g.c'])
            self.body[key].insert(0, f"{var} = generator(py, output: {mstr(out)}, "
                                     f"arguments: [conv_tool_path, '@INPUT@', '@OUTPUT@'])")
        return var

    def gen_configure_file(self, sp: str, d: str, header: bool) -> str:
        r = self.rng
        self.counter += 1
        n = self.counter
        var = f'cf{n}'
        key = self.cur_slot
        mode = r.choice(['configuration', 'configuration', 'copy', 'input'])
        out = f'cfg{n}.h' if header else f'cfg{n}.txt'
        if r.random() < 0.2:
            out = f'cfg {n} $x.h' if header else f'cfg:{n}.txt'
            self.features.add('configure_file:odd-name')
        if mode == 'configuration':
            self.body[key].append(f"{var} = configure_file(output: {mstr(out)}, configuration: {{'V{n}': {n}}})")
        elif mode == 'copy':
            self.add_file(sp, d, f'cfg{n}.in', f'#define COPIED_{n} 1\n')
            self.body[key].append(f"{var} = configure_file(input: 'cfg{n}.in', output: {mstr(out)}, copy: true)")
        else:
            self.add_file(sp, d, f'cfg{n}.h.in', f'#define IN_{n} @V{n}@\n#mesondefine W{n}\n')
            self.body[key].append(f"{var} = configure_file(input: 'cfg{n}.h.in', output: {mstr(out)}, "
                                  f"configuration: {{'V{n}': {n}, 'W{n}': true}})")
        self.features.add('configure_file:' + mode)
        return var

    def gen_custom(self, it: Item) -> None:
        r = self.rng
        nout = r.choice([1, 1, 2, 3])
        c_like = r.random() < 0.5
        outs: T.List[str] = []
        stem = ''.join(ch if ch.isalnum() else '_' for ch in it.name) or 'o'
        for k in range(nout):
            if c_like:
                ext = '.h' if (k > 0 or r.random() < 0.4) else '.c'
                o = f'{stem}_{it.id}_{k}{ext}'
            else:
                base = it.name if (k == 0 and r.random() < 0.4) else f'{it.name}_{k}'
                ext = r.choice(['.txt', '.dat', '', '.out'])
                o = f'{base}{ext}'
                if any(ch in o for ch in '/\\') or o.startswith('-'):
                    o = f'{stem}_{k}{ext}'
            outs.append(o)
        # outputs must be free in this directory
        tries = 0
        while not self._name_free(it.sp, it.dir, 'custom', it.name, outs) or len(set(outs)) != len(outs):
            tries += 1
            outs = [f'{stem}_{it.id}_{tries}_{k}' + ('.h' if c_like else '.txt') for k in range(nout)]
        it.outputs = outs
        it.c_like_outputs = c_like
        if nout > 1:
            self.features.add('custom:multi-output')
        kw: T.List[str] = ['output: ' + (mlist([mstr(o) for o in outs]) if nout > 1 or r.random() < 0.3 else mstr(outs[0]))]
        inputs: T.List[str] = []
        # inputs: files and earlier targets
        if r.random() < 0.7:
            fn = f'{it.id}.in'
            self.add_file(it.sp, it.dir, fn, 'input\n')
            inputs.append(mstr(fn))
        prev = self.earlier(it.sp, ['custom', 'exe', 'static', 'shared'])
        if prev and r.random() < 0.4:
            p = r.choice(prev)
            if p.kind == 'custom' and len(p.outputs) > 1 and r.random() < 0.5:
                inputs.append(f'{p.var}[{r.randrange(len(p.outputs))}]')
                self.features.add('custom:input-is-target-index')
            else:
                inputs.append(p.var)
                self.features.add('custom:input-is-' + p.kind)
            it.deps.append(p.id)
        capture = nout == 1 and r.random() < 0.25
        feed = False
        exes = self.earlier(it.sp, ['exe'])
        if capture:
            if len(inputs) == 1 and inputs[0].startswith("'") and r.random() < 0.3:
                feed = True
                kw.append('feed: true')
                self.features.add('custom:feed')
            cmd = ['py', 'cap_tool'] + ([] if feed else ["'@INPUT@'"] if inputs else [])
            kw.append('capture: true')
            self.features.add('custom:capture')
        elif exes and r.random() < 0.2:
            e = r.choice(exes)
            cmd = [e.var, "'--out'", "'@OUTPUT@'"]
            it.deps.append(e.id)
            self.features.add('custom:command-is-built-exe')
        else:
            cmd = ['py', 'gen_tool']
            if r.random() < 0.3 and nout == 1:
                self.features.add('custom:depfile')
                kw.append(f"depfile: {mstr(stem + '_' + it.id + '.d')}")
                cmd += ["'--dep'", "'@DEPFILE@'"]
            if inputs:
                cmd += ["'--in'", "'@INPUT@'"]
            cmd += ["'--out'"] + ([f"'@OUTPUT{k}@'" for k in range(nout)] if r.random() < 0.5 else ["'@OUTPUT@'"])
        idx_src = [p for p in self.earlier(it.sp, ['custom']) if p.id not in it.deps]
        if idx_src and not capture and r.random() < 0.1:
            p = r.choice(idx_src)
            cmd += ["'--in'", f'{p.var}[{r.randrange(len(p.outputs))}]']
            it.deps.append(p.id)
            self.features.add('custom:command-arg-is-target-index')
        if inputs:
            kw.append('input: ' + mlist(inputs))
        kw.append('command: ' + mlist(cmd))
        x = r.random()
        if x < 0.35:
            kw.append('build_by_default: true')
            it.default = True
            self.features.add('custom:build_by_default-true')
        elif x < 0.5:
            kw.append('build_by_default: false')
            it.default = False
        elif x < 0.6:
            kw.append("install: true, install_dir: 'share/c04'" if nout == 1 else
                      'install: true, install_dir: ' + mlist(["'share/c04'"] * nout))
            it.default = True     # install: true makes build_by_default default to true
            self.features.add('custom:install-implies-default')
        elif x < 0.67:
            kw.append("install: true, install_dir: 'share/c04', build_by_default: false" if nout == 1 else
                      'build_by_default: false, install: true, install_dir: ' + mlist(["'share/c04'"] * nout))
            it.default = False
            self.features.add('custom:install-but-explicitly-non-default')
        else:
            it.default = False
            self.features.add('custom:default-unset')
        if not it.default:
            self.features.add('non-default:custom')
        others = [p for p in self.earlier(it.sp, ['custom', 'exe', 'static', 'shared', 'library', 'both'])
                  if p.id not in it.deps]
        if others and r.random() < 0.25:
            p = r.choice(others)
            kw.append(f'depends: [{p.var}]')
            it.deps.append(p.id)
            self.features.add('custom:depends')
        if r.random() < 0.15:
            fn = f'{it.id}.extra'
            self.add_file(it.sp, it.dir, fn, 'x\n')
            kw.append(f'depend_files: files({mstr(fn)})')
            self.features.add('custom:depend_files')
        if r.random() < 0.12:
            kw.append("env: {'C04_VAR': 'a b'}")
            self.features.add('custom:env')
        if r.random() < 0.1:
            kw.append('build_always_stale: true')
            self.features.add('custom:always-stale')
        if r.random() < 0.08 and not capture:
            kw.append('console: true')
            self.features.add('custom:console')
        it.lines.append(f"{it.var} = custom_target({mstr(it.name)}, {', '.join(kw)})")

    def gen_alias_or_run(self, it: Item) -> None:
        r = self.rng
        prev = self.earlier(it.sp, ['custom', 'exe', 'static', 'shared', 'library', 'both'])
        if it.kind == 'alias':
            if not prev:
                it.kind = 'run'
            else:
                ds = r.sample(prev, min(len(prev), r.randint(1, 3)))
                it.deps += [p.id for p in ds]
                it.lines.append(f"{it.var} = alias_target({mstr(it.name)}, {', '.join(p.var for p in ds)})")
                self.features.add('alias_target')
                it.default = False
                return
        kw = ["command: [py, cap_tool, 'x']"]
        if prev and r.random() < 0.5:
            p = r.choice(prev)
            kw.append(f'depends: [{p.var}]')
            it.deps.append(p.id)
        it.lines.append(f"{it.var} = run_target({mstr(it.name)}, {', '.join(kw)})")
        it.default = False
        self.features.add('run_target')

    def gen_tests(self, sp: str, slot: T.Tuple[str, str, str]) -> None:
        r = self.rng
        exes = self.earlier(sp, ['exe'])
        if not exes:
            return
        n = r.randint(1, 3)
        for _ in range(n):
            self.counter += 1
            bench = r.random() < 0.2
            e = r.choice(exes)
            non_default_exes = [x for x in exes if not x.default]
            if non_default_exes and r.random() < 0.5:
                e = r.choice(non_default_exes)
                self.features.add('test:exe-is-non-default')
            prereq = [e.id]
            kw: T.List[str] = []
            cands = self.earlier(sp, ['custom', 'static', 'shared', 'library', 'both', 'exe'])
            nd = [c for c in cands if not c.default and c.id != e.id]
            if nd and r.random() < 0.7:
                ds = r.sample(nd, min(len(nd), r.randint(1, 2)))
                kw.append('depends: ' + mlist([d.var for d in ds]))
                prereq += [d.id for d in ds]
                self.features.add('test:depends-non-default')
            elif cands and r.random() < 0.3:
                d = r.choice(cands)
                kw.append(f'depends: {d.var}')
                prereq.append(d.id)
                self.features.add('test:depends')
            cts = self.earlier(sp, ['custom'])
            if cts and r.random() < 0.35:
                c = r.choice(cts)
                if len(c.outputs) > 1 and r.random() < 0.5:
                    kw.append(f"args: ['--data', {c.var}[{r.randrange(len(c.outputs))}]]")
                    self.features.add('test:arg-is-target-index')
                else:
                    kw.append(f"args: [{c.var}]")
                    self.features.add('test:arg-is-custom-target')
                prereq.append(c.id)
            name = r.choice(['t', 'check', 'unit test', 'a:b', 'tést']) + str(self.counter)
            func = 'benchmark' if bench else 'test'
            if bench:
                self.features.add('benchmark')
            self.body[slot].append(f"{func}({mstr(name)}, {e.var}{''.join(', ' + k for k in kw)})")
            self.tests.append({'name': name, 'benchmark': bench, 'prereq': sorted(set(prereq)), 'sp': sp})
        # built executables reached through find_program() after meson.override_find_program(): registered by this
        # project (and, for the main project, by the subproject), used in depends:, as executable, as argument
        nd_exes = [x for x in exes if not x.default]
        provided = list(self.overridden.get(sp, []))
        for x in r.sample(nd_exes, min(len(nd_exes), 2)) if r.random() < 0.5 else []:
            if x.id in [p_.id for p_ in provided]:
                continue
            self.body[slot].append(f"meson.override_find_program('c04prog-{x.id}', {x.var})")
            provided.append(x)
            self.overridden.setdefault(sp, []).append(x)
        if sp == '':
            provided += self.overridden.get('sp', [])
        for x in provided:
            for role in r.sample(['dep', 'exe', 'arg', 'bench-dep'], r.randint(1, 2)):
                self.counter += 1
                tn = f'lp{self.counter}'
                lp = f"find_program('c04prog-{x.id}')"
                e = r.choice(exes)
                bench = role == 'bench-dep'
                func = 'benchmark' if bench else 'test'
                if role in ('dep', 'bench-dep'):
                    call, via = f"{func}({mstr(tn)}, {e.var}, depends: [{lp}])", 'local-program-dep'
                    pre = [e.id, x.id]
                elif role == 'exe':
                    call, via = f"test({mstr(tn)}, {lp})", 'local-program-exe'
                    pre = [x.id]
                else:
                    call, via = f"test({mstr(tn)}, {e.var}, args: ['--tool', {lp}])", 'local-program-arg'
                    pre = [e.id, x.id]
                self.body[slot].append(call)
                self.tests.append({'name': tn, 'benchmark': bench, 'prereq': sorted(set(pre)), 'sp': sp,
                                   'via': {x.id: via}})
                self.features.add('test:' + via)
        # distinct targets that share a name (other dir / other kind): one test or benchmark for each of them, so
        # that every one must be a prerequisite in its own right
        byname: T.Dict[str, T.List[Item]] = {}
        for x in self.earlier(sp, ['exe', 'custom', 'static', 'shared', 'library', 'both']):
            byname.setdefault(x.name, []).append(x)
        for name_, group in byname.items():
            if len(group) < 2:
                continue
            self.features.add('test:same-named-distinct-targets')
            for bench in (False, True):
                for x in group:
                    self.counter += 1
                    tn = f'sn{self.counter}'
                    func = 'benchmark' if bench else 'test'
                    if x.kind == 'exe':
                        call = f"{func}({mstr(tn)}, {x.var})"
                    elif x.kind == 'custom' and r.random() < 0.5:
                        call = f"{func}({mstr(tn)}, py, args: ['-c', 'pass', {x.var}])"
                    else:
                        call = f"{func}({mstr(tn)}, py, args: ['-c', 'pass'], depends: [{x.var}])"
                    self.body[slot].append(call)
                    self.tests.append({'name': tn, 'benchmark': bench, 'prereq': [x.id], 'sp': sp})
        # a test whose "executable" is a custom target output (a script); rare
        scripts = [c for c in self.earlier(sp, ['custom']) if not c.default]
        if scripts and r.random() < 0.15:
            c = r.choice(scripts)
            self.counter += 1
            name = f'ctexe{self.counter}'
            self.body[slot].append(f"test({mstr(name)}, {c.var}{'[0]' if len(c.outputs) > 1 else ''})")
            self.tests.append({'name': name, 'benchmark': False, 'prereq': [c.id], 'sp': sp})
            self.features.add('test:exe-is-custom-target')

    # ---------------------------------------------------------------- driver
    def build(self) -> None:
        r = self.rng
        self.make_dirs()
        for sp in self.dirs:
            self.add_file(sp, 'tools', 'gen.py', TOOL_GEN)
            self.add_file(sp, 'tools', 'cap.py', TOOL_CAP)
            self.add_file(sp, 'tools', 'conv.py', TOOL_CONV)
        # assign targets to slots, then generate in evaluation order
        n_sp = 0
        if self.with_sp:
            n_sp = max(1, min(self.n_targets // 3, r.randint(1, 5)))
        sp_slots = [s for s in self.slots if s[0] == 'sp']
        main_slots = [s for s in self.slots if s[0] == '']
        assign: T.List[T.Tuple[int, T.Tuple[str, str, str]]] = []
        for k in range(self.n_targets):
            pool = sp_slots if k < n_sp else main_slots
            s = r.choice(pool)
            assign.append((self.slots.index(s), s))
        assign.sort(key=lambda x: x[0])
        for idx, (_, slot) in enumerate(assign):
            sp, d, _phase = slot
            self.cur_slot = slot
            kind = r.choice(KINDS)
            if idx == 0 or (sp == '' and not self.earlier('', KINDS) and kind in ('alias',)):
                kind = r.choice(['static', 'library', 'custom'])
            name = self.pick_name(sp, d, kind)
            it = Item(idx, kind, name, d, sp)
            if kind in ('exe', 'static', 'shared', 'library', 'both'):
                self.gen_build_target(it)
            elif kind == 'custom':
                self.gen_custom(it)
            else:
                self.gen_alias_or_run(it)
                if not self._name_free(sp, d, it.kind, it.name):
                    self.counter += 1
                    old = it.name
                    it.name = f'rt{self.counter}'
                    it.lines = [ln.replace(mstr(old), mstr(it.name), 1) for ln in it.lines]
            self.claim(it)
            self.items.append(it)
            self.body[slot] += it.lines
            self.features.add('kind:' + it.kind)
            if any(ord(ch) > 127 for ch in it.name):
                self.features.add('name:unicode')
            for ch, f in ((' ', 'blank'), ('$', 'dollar'), (':', 'colon')):
                if ch in it.name:
                    self.features.add('name:' + f)
            if sp:
                self.features.add('target-in-subproject')
            if d.count('/') == 1:
                self.features.add('target-in-depth2-subdir')
        names: T.Dict[str, T.Set[str]] = {}
        for it in self.items:
            names.setdefault(it.name, set()).add(it.sp + '|' + it.dir)
        if any(len(v) > 1 for v in names.values()):
            self.features.add('same-basename-in-two-dirs')
        # tests at the end of each project's root
        for sp in sorted(self.dirs, reverse=True):      # the subproject first: it is evaluated first
            self.gen_tests(sp, (sp, '', 'post'))
        # optional subprojects that get disabled because they fail somewhere (before any target, after targets,
        # after test()/benchmark()/alias/install registrations, on the version check)
        if r.random() < 0.35:
            for k in range(r.randint(1, 2)):
                stage = r.choice(FAIL_STAGES)
                via = r.choice(FAIL_VIAS)
                name, marker = f'optf{k}', f'FAILSP{k}'
                if stage == 'version-mismatch':
                    via = 'subproject'
                files, line = failing_subproject(name, marker, stage, via)
                self.files.update(files)
                where = r.choice([('', '', 'pre'), ('', '', 'post')])
                if where[2] == 'pre':
                    self.body[where].insert(0, line)
                else:
                    self.body[where].append(line)
                self.failed_subprojects.append({'name': name, 'marker': marker, 'stage': stage, 'via': via})
                self.features.add('optional-subproject-fails:' + stage)
                self.features.add('optional-subproject-via:' + via)
        self.emit()

    def emit(self) -> None:
        for sp in self.dirs:
            for d in self.dirs[sp]:
                lines: T.List[str] = []
                if d == '':
                    pname = 'c04 sp' if sp else 'c04 main'
                    extra = ''
                    langs = ', '.join(mstr(x) for x in self.langs)
                    lines.append(f"project({mstr(pname)}, {langs}{extra}, version: '1.0', meson_version: '>=1.0.0')")
                    lines.append("py = find_program('python3')")
                    lines.append("gen_tool = files('tools/gen.py')")
                    lines.append("cap_tool = files('tools/cap.py')")
                    lines.append("conv_tool_path = meson.current_source_dir() / 'tools/conv.py'")
                    if sp == '' and self.with_sp:
                        lines.append("sp = subproject('sp')")
                lines += self.body[(sp, d, 'pre')]
                for c in self._children(sp, d):
                    lines.append(f"subdir({mstr(c.rsplit('/', 1)[-1])})")
                lines += self.body[(sp, d, 'post')]
                self.files[self.path_in(sp, d, 'meson.build')] = '\n'.join(lines) + '\n'

    def desc(self) -> dict:
        return {'targets': [it.desc() for it in self.items], 'tests': self.tests,
                'features': sorted(self.features), 'flat_collision': self.flat_collision,
                'collision': None, 'has_subproject': self.with_sp,
                'failed_subprojects': self.failed_subprojects,
                'dirs': {k: v for k, v in self.dirs.items()}}


def generate(seed: T.Union[int, str], n_targets: T.Optional[int] = None,
             langs: T.Optional[T.Sequence[str]] = None) -> T.Tuple[T.Dict[str, str], dict]:
    """A random target-graph project that must configure (in mirror layout; under flat layout
    desc['flat_collision'] says whether two targets share a path)."""
    rng = random.Random(f'c04:{seed}')
    n = n_targets if n_targets is not None else rng.choice([3, 4, 5, 6, 8, 10, 12, 15, 18, 21, 25])
    odd = rng.choice([0.0, 0.15, 0.3, 0.6])
    with_sp = rng.random() < 0.5
    depth2 = rng.random() < 0.6
    # languages: mostly C; sometimes C++ and/or Fortran next to it (mixed-language link chains, Fortran module
    # scanning / dyndep statements)
    avail = available_languages() if langs is None else list(langs)
    x = rng.random()
    want = ['c'] if x < 0.6 else ['c', 'fortran'] if x < 0.8 else ['c', 'cpp'] if x < 0.9 else ['c', 'cpp', 'fortran']
    use = [l for l in want if l in avail]
    g = ProjectGen(rng, n, odd, with_sp=with_sp, depth2=depth2, langs=use)
    g.build()
    d = g.desc()
    d['langs'] = use
    d['seed'] = str(seed)
    d['n_targets'] = n
    return g.files, d


# ------------------------------------------------------------------------------------------------
# Deliberate collisions.  certain=True: two targets declare the very same build-dir path under every
# layout/default_library, so the project must be rejected.  certain=False: whether the paths collide depends
# on the configuration or on a meson convention; accepted is fine as long as the manifest has one producer/path.
COLLISION_KINDS = [
    'same-output-two-custom', 'custom-output-like-static-lib', 'custom-output-like-exe',
    'reserved-name-root-exe', 'reserved-name-root-custom', 'reserved-name-root-run',
    'dup-name-exe-exe', 'dup-name-lib-lib', 'dup-name-custom-custom', 'reserved-run-in-subdir',
    'meson-internal-prefix', 'meson-dash-prefix', 'both-vs-static', 'exe-suffix-like-static',
    'alias-vs-exe-root', 'run-vs-custom-output-root', 'static-vs-library', 'same-basename-flat',
    'object-name-alias', 'subproject-run-name-vs-exe', 'generator-same-output-twice',
    'custom-output-twice-in-one-target', 'shared-vs-library', 'multi-output-custom-one-colliding',
    'subdir-twice:same-spelling', 'subdir-twice:dot-slash', 'subdir-twice:trailing-slash',
    'subdir-twice:inner-dot', 'subdir-twice:double-slash', 'subdir-twice:nested-dot', 'subdir-twice:symlink',
] + ['normalised-spelling:' + _k for _k in (
    'backslash-custom-output', 'backslash-multi-output', 'backslash-exe-name', 'backslash-lib-name',
    'backslash-dot-custom-output', 'backslash-dotdot-custom-output', 'backslash-name-suffix',
    'backslash-name-prefix', 'slash-custom-output', 'dot-slash-custom-output', 'double-slash-custom-output',
    'dotdot-custom-output', 'slash-exe-name', 'slash-name-suffix')]
# kinds whose colliding pair only coincides in the layout that keeps sub directories
MIRROR_ONLY_KINDS = [k for k in COLLISION_KINDS if k.startswith('normalised-spelling:')]


def generate_collision(seed: T.Union[int, str], kind: T.Optional[str] = None) -> T.Tuple[T.Dict[str, str], dict]:
    rng = random.Random(f'c04-collision:{seed}')
    if kind is None:
        kind = rng.choice(COLLISION_KINDS)
    sub = rng.choice(['', 'a', 'a'])      # directory in which the colliding pair lives (when it may be a subdir)
    nm = rng.choice(['foo', 'bar', 'foo bar', 'x$y', 'c:d', 'zü'])
    files: T.Dict[str, str] = {
        'tools/gen.py': TOOL_GEN, 'tools/cap.py': TOOL_CAP,
        'm.c': 'int main(void) { return 0; }\n', 'l.c': 'int l(void) { return 0; }\n',
        'a/m.c': 'int main(void) { return 0; }\n', 'a/l.c': 'int l(void) { return 0; }\n',
        'c/m.c': 'int main(void) { return 0; }\n',
        'in.txt': 'x\n', 'a/in.txt': 'x\n',
    }
    head = ["project('c04 collision', 'c', meson_version: '>=1.0.0')", "py = find_program('python3')",
            "gen_tool = files('tools/gen.py')", "cap_tool = files('tools/cap.py')",
            "bystander = executable('bystander', 'm.c')"]
    body: T.List[str] = []       # goes to `sub`/meson.build (or the root when sub == '')
    root_tail: T.List[str] = []
    root_head: T.List[str] = []  # root lines before subdir(sub)
    paths: T.List[str] = []      # the build-dir paths at which the pair coincides (classifier input)
    certain = True
    certain_when: T.Dict[str, str] = {}     # configuration values under which the paths really coincide
    symlinks: T.Dict[str, str] = {}
    why = ''
    need_root = False

    def ct(name: str, out: str, extra: str = '') -> str:
        return (f"custom_target({mstr(name)}, output: {mstr(out)}, command: [py, gen_tool, '--out', '@OUTPUT@']"
                f"{extra})")
    q = mstr(nm)
    if kind == 'same-output-two-custom':
        body += [ct('ct one', nm + '.txt', ', build_by_default: true'), ct('ct two', nm + '.txt')]
        why = 'two custom targets with the same output file in one directory'
    elif kind == 'multi-output-custom-one-colliding':
        body += [ct('ct one', nm + '.txt', ', build_by_default: true'),
                 f"custom_target('ct multi', output: ['other.h', {mstr(nm + '.txt')}, 'third.c'], "
                 "command: [py, gen_tool, '--out', '@OUTPUT@'])"]
        why = 'the second of three outputs of a custom target equals the output of another custom target'
        if rng.random() < 0.5:
            body.reverse()
    elif kind.startswith('subdir-twice:'):
        # the directory a/ (an executable, a library and a custom target) is entered a second time; every output
        # path of the second visit is, after path normalisation, a path of the first visit
        how = kind.split(':', 1)[1]
        spelling = {'same-spelling': 'a', 'dot-slash': './a', 'trailing-slash': 'a/', 'inner-dot': 'a/.',
                    'double-slash': 'a//', 'nested-dot': 'a/./b', 'symlink': 'alink'}[how]
        sub = 'a'
        body += [f"executable({q}, 'm.c')", f"library({q}, 'l.c')", ct('gen hdr', nm + '.h', ', build_by_default: true')]
        if how == 'nested-dot':
            body.append("subdir('b')")
            files['a/b/meson.build'] = f"executable({q}, 'm.c')\n" + ct('gen b', nm + '_b.h') + '\n'
            files['a/b/m.c'] = 'int main(void) { return 0; }\n'
        root_tail.append(f"subdir({mstr(spelling)})")
        if how == 'symlink':
            symlinks['alink'] = 'a'
            certain_when = {'layout': 'flat'}   # a/<x> and alink/<x> are different build paths in mirror layout
        why = f"the source directory a{'/b' if how == 'nested-dot' else ''} is entered twice, the second time as {spelling!r}"
    elif kind == 'custom-output-like-static-lib':
        body += [f"static_library({q}, 'l.c')", ct('gen lib', f'lib{nm}.a', ', build_by_default: true')]
        why = 'custom target output named like the static library file'
        if rng.random() < 0.5:
            body.reverse()
    elif kind == 'custom-output-like-exe':
        body += [f"executable({q}, 'm.c')", ct('gen exe', nm)]
        why = 'custom target output named like the executable file'
        if rng.random() < 0.5:
            body.reverse()
    elif kind.startswith('reserved-name-root'):
        need_root = True
        res = rng.choice(RESERVED)
        if kind.endswith('exe'):
            body.append(f"executable({mstr(res)}, 'm.c')")
        elif kind.endswith('custom'):
            body.append(ct(res, 'res_out.txt'))
        else:
            body.append(f"run_target({mstr(res)}, command: [py, cap_tool])")
        why = f'reserved target name {res!r} in the root directory'
    elif kind == 'dup-name-exe-exe':
        body += [f"executable({q}, 'm.c')", f"executable({q}, 'm.c', build_by_default: false)"]
        why = 'two executables with the same name in one directory'
    elif kind == 'dup-name-lib-lib':
        f = rng.choice(['static_library', 'shared_library', 'library', 'both_libraries'])
        body += [f"{f}({q}, 'l.c')", f"{f}({q}, 'l.c')"]
        why = f'two {f} with the same name in one directory'
    elif kind == 'dup-name-custom-custom':
        body += [ct(nm, 'o1.txt'), ct(nm, 'o2.txt')]
        why = 'two custom targets with the same name (different outputs) in one directory'
    elif kind == 'reserved-run-in-subdir':
        sub = 'a'
        res = rng.choice(['test', 'clean', 'install', 'benchmark', 'dist', 'uninstall', 'all', 'reconfigure',
                          'build.ninja', 'PHONY', 'clean-ctlist'])
        f = rng.choice(['run', 'alias'])
        if f == 'run':
            body.append(f"run_target({mstr(res)}, command: [py, cap_tool])")
        else:
            body.append(f"alias_target({mstr(res)}, bystander)")
        why = f'{f} target named {res!r} in a sub directory: its ninja name is the reserved top-level name'
    elif kind == 'meson-internal-prefix':
        body.append(f"executable('meson-internal__{nm}', 'm.c')")
        why = 'target name with the reserved meson-internal__ prefix'
    elif kind == 'meson-dash-prefix':
        body.append(rng.choice([f"executable('meson-test-prereq', 'm.c')", ct('meson-benchmark-prereq', 'mo.txt'),
                                "executable('meson-implicit-outs', 'm.c')", "run_target('meson-uninstalled', command: [py, cap_tool])"]))
        why = 'target name starting with meson- and without extension'
    elif kind == 'both-vs-static':
        body += [f"both_libraries({q}, 'l.c')", f"static_library({q}, 'l.c', build_by_default: false)"]
        why = 'both_libraries and static_library of the same name: lib<name>.a twice'
        if rng.random() < 0.5:
            body.reverse()
    elif kind == 'exe-suffix-like-static':
        body += [f"static_library({q}, 'l.c')", f"executable('lib' + {q}, 'm.c', name_suffix: 'a')"]
        why = 'executable lib<name> with name_suffix a equals the static library file'
    elif kind == 'alias-vs-exe-root':
        need_root = True
        certain_when = {'layout': 'mirror'}
        body += [f"e = executable({q}, 'm.c')", f"alias_target({q}, bystander)"]
        why = 'alias target and executable of the same name in the root: same ninja path'
    elif kind == 'run-vs-custom-output-root':
        need_root = True
        certain_when = {'layout': 'mirror'}
        body += [ct('some ct', nm), f"run_target({q}, command: [py, cap_tool])"]
        why = 'run target named like a custom target output in the root'
        if rng.random() < 0.5:
            body.reverse()
    elif kind == 'static-vs-library':
        body += [f"static_library({q}, 'l.c')", f"library({q}, 'l.c')"]
        certain = False
        why = 'static_library and library() of one name: same file only when default_library is static or both'
    elif kind == 'shared-vs-library':
        body += [f"shared_library({q}, 'l.c')", f"library({q}, 'l.c')"]
        certain = False
        why = 'shared_library and library() of one name: same file only when default_library is shared or both'
    elif kind == 'same-basename-flat':
        sub = 'a'
        body.append(f"executable({q}, 'm.c')")
        root_tail.append(f"executable({q}, 'm.c')")
        certain = False
        why = 'same executable name in two directories: same path only under --layout flat'
    elif kind == 'object-name-alias':
        files['a/b_u.c'] = 'int u1(void) { return 1; }\n'
        files['a_b/u.c'] = 'int u2(void) { return 2; }\n'
        need_root = True
        body.append(f"executable({q}, 'm.c', 'a/b_u.c', 'a_b/u.c')")
        certain = False
        why = 'two sources of one target whose object file names coincide (a/b_u.c, a_b/u.c)'
    elif kind == 'subproject-run-name-vs-exe':
        need_root = True
        files['subprojects/sp/meson.build'] = ("project('sp', 'c')\npy = find_program('python3')\n"
                                               "run_target('rt', command: [py, '-c', 'pass'])\n")
        certain_when = {'layout': 'mirror'}
        body += ["subproject('sp')", "executable('sp@@rt', 'm.c')"]
        why = "run target rt of subproject sp has the ninja name sp@@rt, as has the root executable 'sp@@rt'"
    elif kind == 'generator-same-output-twice':
        files['tools/conv.py'] = TOOL_CONV
        files['a/x.in'] = 'x\n'
        files['x.in'] = 'x\n'
        need_root = True
        body += ["g = generator(py, output: '@BASENAME@.c', arguments: [meson.current_source_dir() / 'tools/conv.py', '@INPUT@', '@OUTPUT@'])",
                 f"executable({q}, 'm.c', g.process('x.in'), g.process('a/x.in'))"]
        certain = False
        why = 'one generator run on x.in and a/x.in for one target: same private-dir output x.c'
    elif kind == 'custom-output-twice-in-one-target':
        body.append(f"custom_target('twice', output: [{q}, {q}], command: [py, gen_tool, '--out', '@OUTPUT@'])")
        certain = False
        why = 'one custom target naming the same output twice'
    elif kind.startswith('normalised-spelling:'):
        # a target of the ROOT directory whose name / output / name_prefix / name_suffix is spelled so that the
        # path the Ninja writer emits for it (backslash -> slash; ninja itself collapses ./, // and x/..) is the
        # regular path of a target in the sub directory a/ (or, for the ./ and ../ spellings, of a sibling)
        how = kind.split(':', 1)[1]
        sub = 'a'
        certain_when = {'layout': 'mirror'}
        root: T.List[str] = []
        out = nm + '.txt'
        if how in ('backslash-custom-output', 'slash-custom-output', 'double-slash-custom-output'):
            sep = {'backslash-custom-output': '\\', 'slash-custom-output': '/', 'double-slash-custom-output': '//'}[how]
            body.append(ct('plain ct', out, ', build_by_default: true'))
            root.append(ct('odd ct', 'a' + sep + out))
            paths.append('a/' + out)
        elif how == 'backslash-multi-output':
            body.append(ct('plain ct', out))
            root.append(f"custom_target('odd multi', output: ['other.h', {mstr('a' + chr(92) + out)}, 'third.c'], "
                        "command: [py, gen_tool, '--out', '@OUTPUT@'], build_by_default: true)")
            paths.append('a/' + out)
        elif how in ('backslash-exe-name', 'slash-exe-name'):
            sep = chr(92) if how.startswith('backslash') else '/'
            body.append(f"executable({q}, 'm.c')")
            root.append(f"executable({mstr('a' + sep + nm)}, 'm.c', build_by_default: false)")
            paths.append('a/' + nm)
        elif how == 'backslash-lib-name':
            # liba\<nm>.a is written as liba/<nm>.a: the custom target output <nm>.a in the directory liba/
            sub = 'liba'
            files['liba/in.txt'] = 'x\n'
            body.append(ct('plain ct', nm + '.a', ', build_by_default: true'))
            root.append(f"static_library({mstr('a' + chr(92) + nm)}, 'l.c')")
            paths.append('liba/' + nm + '.a')
        elif how in ('backslash-dot-custom-output', 'dot-slash-custom-output'):
            sep = chr(92) if how.startswith('backslash') else '/'
            need_root = True
            body += [ct('plain ct', out, ', build_by_default: true'), ct('odd ct', '.' + sep + out)]
            paths.append(out)
            certain_when = {}
        elif how in ('backslash-dotdot-custom-output', 'dotdot-custom-output'):
            sep = chr(92) if how.startswith('backslash') else '/'
            body.append(ct('odd ct', '..' + sep + out))
            root.append(ct('plain ct', out, ', build_by_default: true'))
            paths.append(out)
        elif how in ('backslash-name-suffix', 'slash-name-suffix'):
            # <nm>.a\<x> is written as <nm>.a/<x>: the custom target output <x> in the directory <nm>.a/
            sep = chr(92) if how.startswith('backslash') else '/'
            sub = 'e2.x'
            body.append(ct('plain ct', 'y' + nm, ', build_by_default: true'))
            root.append(f"executable('e2', 'm.c', name_suffix: {mstr('x' + sep + 'y' + nm)})")
            paths.append('e2.x/y' + nm)
        elif how == 'backslash-name-prefix':
            sub = 'pre'
            body.append(ct('plain ct', 'fix' + nm, ', build_by_default: true'))
            root.append(f"executable({q}, 'm.c', name_prefix: {mstr('pre' + chr(92) + 'fix')})")
            paths.append('pre/fix' + nm)
        else:
            raise AssertionError(kind)
        if rng.random() < 0.5:
            root_head += root
        else:
            root_tail += root
        why = f'a root-directory target spelled ({how}) so that the written path equals {paths[0]!r} of another target'
    else:
        raise AssertionError(kind)
    if need_root:
        sub = ''
    lines = list(head) + root_head
    if sub:
        lines.append(f"subdir({mstr(sub)})")
        files[f'{sub}/meson.build'] = '\n'.join(body) + '\n'
    else:
        lines += body
    lines += root_tail
    files['meson.build'] = '\n'.join(lines) + '\n'
    desc = {'targets': [], 'tests': [], 'features': ['collision:' + kind], 'flat_collision': False,
            'collision': {'kind': kind, 'certain': certain, 'certain_when': certain_when, 'why': why, 'dir': sub,
                          'paths': paths},
            'has_subproject': False, 'symlinks': symlinks,
            'seed': str(seed)}
    return files, desc
