"""gen_c17 -- generated projects and rewriter command sequences for C17.

A project is a meson.build (optionally with one subdir) whose build targets / dependency() calls / project()
call carry *arbitrary expressions in the arguments a rewriter command does not address*: parenthesised logic
under `not`, arithmetic that needs its parentheses, method calls / indexing on parenthesised expressions,
ternaries, strings with quote / backslash / escapes / unicode / multiline / f-strings, array and dict
literals with comments.  Sources are given inline, as array literals, through variables, files(), `+=`,
concatenation, a variable shared by two targets, the `sources:` keyword, get_variable().

Every expression is validated with the reference interpreter while generating (well-typed, no division by
zero), so that the reference view of the project always evaluates.

Commands are produced from the *reference model* of the current project state (vf.ref.refc17.Model), in the
JSON ("script mode") form of docs/markdown/Rewriter.md; to_cli() gives the equivalent CLI argv when one exists.
"""
from __future__ import annotations

import random
import typing as T

from vf.ref import refmeson as R
from vf.ref import refc17 as M

# --------------------------------------------------------------------------------------------------
# expressions

WORDS = ['foo', 'bar', 'baz', 'lib', 'opt', 'usr', 'x86', 'core', 'util', 'net']
STR_PIECES: T.List[T.Tuple[str, str, int]] = [
    # (source text inside '...', feature, weight)
    ("\\'", 'str-quote', 4),
    ('\\\\', 'str-backslash', 8),
    ('\\n', 'str-nl', 4),
    ('\\t', 'str-tab', 4),
    ('\\r', 'str-cr', 1),
    ('é', 'str-unicode', 5),
    ('日本', 'str-unicode', 3),
    ('\\u00e9', 'str-unicode-escape', 3),
    ('\\x41', 'str-hex-escape', 2),
    ('\\101', 'str-octal-escape', 1),
    ('\\N{BULLET}', 'str-named-escape', 1),
    ('\\d', 'str-unknown-escape', 2),
    ('#', 'str-hash', 4),
    ('@0@', 'str-at', 2),
    (' ', 'str-space', 6),
    ('(', 'str-paren', 2),
    (')', 'str-paren', 2),
    (',', 'str-comma', 2),
    ('\\x0c', 'str-formfeed-escape', 1),
    ('\\u2028', 'str-linesep-escape', 1),
]


class ExprGen:
    """Typed expression generator over a fixed variable environment; records the features it used."""

    def __init__(self, rng: random.Random, env: T.Dict[str, T.Any], fancy: float = 0.75) -> None:
        self.rng = rng
        self.env = env
        self.fancy = fancy
        self.features: T.List[str] = []
        self.bools = [k for k, v in env.items() if type(v) is bool]
        self.ints = [k for k, v in env.items() if type(v) is int]
        self.strs = [k for k, v in env.items() if type(v) is str]

    # ---- helpers ---------------------------------------------------------------------------------
    def feat(self, f: str) -> None:
        self.features.append(f)

    def ok(self, text: str, typ: type) -> bool:
        try:
            v = R.evaluate_expression(text, self.env)
        except R.RefError:
            return False
        return type(v) is typ or (typ is list and type(v) is list)

    def sub(self, typ: str, depth: int) -> str:
        """A validated sub-expression, parenthesised unless it is a postfix/primary expression, so that the
        text it is embedded in parses the way the template means it."""
        text = self.pick(typ, depth)
        try:
            kind = R.parse_expression(text).kind
        except R.RefError:
            return text
        if kind in ('id', 'int', 'bool', 'str', 'fstr', 'array', 'dict', 'call', 'method', 'index', 'paren'):
            return text
        return '(' + text + ')'

    def pick(self, typ: str, depth: int = 2) -> str:
        fn = {'bool': self._bool, 'int': self._int, 'str': self._str}[typ]
        want = {'bool': bool, 'int': int, 'str': str}[typ]
        for _ in range(12):
            mark = len(self.features)
            text = fn(depth)
            if self.ok(text, want):
                return text
            del self.features[mark:]
        return {'bool': 'true', 'int': '7', 'str': "'plain'"}[typ]

    # ---- atoms -----------------------------------------------------------------------------------
    def str_literal(self, fancy: T.Optional[float] = None) -> str:
        r = self.rng
        fancy = self.fancy if fancy is None else fancy
        parts = [r.choice(WORDS)]
        if r.random() < fancy:
            for _ in range(r.choice([1, 1, 2, 3])):
                piece, f, _w = r.choices(STR_PIECES, weights=[w for _p, _f, w in STR_PIECES])[0]
                parts.append(piece)
                self.feat(f)
                parts.append(r.choice(WORDS + ['', '']))
        body = ''.join(parts)
        kind = r.random()
        if kind < 0.08:
            self.feat('mstr')
            raw = body.replace("\\'", "'").replace('\\n', '\n')
            if r.random() < 0.25:
                raw += r.choice(['  \nend', '\n\nend', '\t\n'])
                self.feat('mstr-blank-before-newline')
            if raw.endswith("'") or "'''" in raw:
                raw += ' '
            return "'''" + raw + "'''"
        if '@' in body:
            return "'" + body + "'"
        if kind < 0.14 and self.ints:
            self.feat('fstr')
            return "f'" + body + '@' + r.choice(self.ints + self.strs) + "@'"
        if kind < 0.17 and self.ints:
            self.feat('mfstr')
            raw = body.replace("\\'", "'")
            return "f'''" + raw + '\n@' + r.choice(self.ints) + "@ '''"
        return "'" + body + "'"

    def b_atom(self) -> str:
        r = self.rng
        return r.choice(self.bools) if self.bools and r.random() < 0.8 else r.choice(['true', 'false'])

    def i_atom(self) -> str:
        r = self.rng
        if self.ints and r.random() < 0.7:
            return r.choice(self.ints)
        if r.random() < 0.15:
            self.feat('int-based-literal')
            return r.choice(['0x10', '0b101', '0o17', '0XfF'])
        return str(r.randint(1, 9))

    def s_atom(self) -> str:
        r = self.rng
        return r.choice(self.strs) if self.strs and r.random() < 0.5 else self.str_literal()

    # ---- typed generators ------------------------------------------------------------------------
    def _bool(self, d: int) -> str:
        r = self.rng
        B = (lambda: self.sub('bool', d - 1)) if d > 0 and r.random() < 0.35 else self.b_atom
        I = (lambda: self.sub('int', d - 1)) if d > 0 and r.random() < 0.35 else self.i_atom
        S = (lambda: self.sub('str', d - 1)) if d > 0 and r.random() < 0.25 else self.s_atom
        k = r.randrange(16) if r.random() < self.fancy else 99
        if k == 0:
            self.feat('not-paren-and')
            return f'not ({B()} and {B()})'
        if k == 1:
            self.feat('not-paren-or')
            return f'not ({B()} or {B()})'
        if k == 2:
            self.feat('and-paren-or')
            return r.choice([f'({B()} or {B()}) and {B()}', f'{B()} and ({B()} or {B()})'])
        if k == 3:
            self.feat('cmp-paren-cmp')
            return r.choice([f'({I()} == {I()}) == {B()}', f'({B()} != {B()}) != {B()}', f'{B()} == ({I()} != {I()})'])
        if k == 4:
            self.feat('not-paren-cmp')
            return f'not ({I()} == {I()})'
        if k == 5:
            self.feat('cmp-of-arith')
            return f'{self.sub("int", max(d, 1))} {r.choice(["==", "!="])} {r.randint(-20, 40)}'
        if k == 6:
            self.feat('method-on-paren')
            return r.choice([f'({S()} + {S()}).contains({self.s_atom()})', f'({I()} + {I()}).is_even()',
                             f"(not {B()}).to_string() == 'true'", f'({I()} - {I()}).is_odd()'])
        if k == 7:
            self.feat('ternary')
            return f'{B()} ? {B()} : {B()}'
        if k == 8:
            self.feat('paren-ternary')
            return r.choice([f'({B()} ? {B()} : {B()}) and {B()}', f'not ({B()} ? {B()} : {B()})',
                             f'{B()} ? ({B()} and {B()}) : {B()}'])
        if k == 9:
            self.feat('in-array')
            return r.choice([f'{S()} in [{self.s_atom()}, {self.s_atom()}]', f'{I()} not in [1, 2, {I()}]'])
        if k == 10:
            self.feat('str-method-bool')
            return r.choice([f'{S()}.startswith({self.s_atom()})', f"{S()}.contains('o')", f'{S()} == {S()}',
                             f'{S()} != {S()}'])
        if k == 11:
            self.feat('not-atom')
            return f'not {self.b_atom()}'
        if k == 12:
            self.feat('or-paren-and')
            return f'({B()} and {B()}) or {B()}'
        if k == 13:
            self.feat('dict-method')
            return f"{{'k' : {I()}, {self.str_literal(0.3)} : 2}}.has_key({self.s_atom()})"
        if k == 14:
            self.feat('array-method')
            return f'[{I()}, {I()}].contains({I()})'
        if k == 15:
            self.feat('neg-paren-sum')
            return f'-({I()} + {I()}) == -{r.randint(1, 12)}'
        return self.b_atom()

    def _int(self, d: int) -> str:
        r = self.rng
        I = (lambda: self.sub('int', d - 1)) if d > 0 and r.random() < 0.35 else self.i_atom
        B = self.b_atom
        k = r.randrange(14) if r.random() < self.fancy else 99
        if k == 0:
            self.feat('neg-paren-sum')
            return f'-({I()} + {I()})'
        if k == 1:
            self.feat('mul-paren-sum')
            return r.choice([f'({I()} + {I()}) * {I()}', f'{I()} * ({I()} - {I()})'])
        if k == 2:
            self.feat('sub-paren-sub')
            return f'{I()} - ({I()} - {I()})'
        if k == 3:
            self.feat('div-paren-mul')
            return f'{I()} / ({I()} * {I()})'
        if k == 4:
            self.feat('mul-paren-div')
            return r.choice([f'{I()} * ({I()} / {I()})', f'{I()} * ({I()} % {I()})'])
        if k == 5:
            self.feat('mod-paren')
            return r.choice([f'{I()} % ({I()} + {I()})', f'({I()} * {I()}) % {I()}', f'{I()} / ({I()} / {I()})'])
        if k == 6:
            self.feat('paren-ternary')
            return f'({B()} ? {I()} : {I()}) + {I()}'
        if k == 7:
            self.feat('index-array')
            return r.choice([f'[{I()}, {I()}][{r.choice([0, 1, -1])}]', f'([{I()}] + [{I()}])[1]'])
        if k == 8:
            self.feat('array-method')
            return f'[{I()}, {I()}, {I()}].length()'
        if k == 9:
            self.feat('neg-atom')
            return f'-{self.i_atom()}'
        if k == 10:
            self.feat('left-assoc-chain')
            return f'{I()} - {I()} - {I()}'
        if k == 11:
            self.feat('neg-paren-neg')
            return f'-(-{self.i_atom()})'
        if k == 12:
            self.feat('method-on-paren')
            return f"({I()} + {I()}).to_string().to_int()"
        if k == 13:
            self.feat('ternary')
            return f'{B()} ? {I()} : {I()}'
        return self.i_atom()

    def _str(self, d: int) -> str:
        r = self.rng
        S = (lambda: self.sub('str', d - 1)) if d > 0 and r.random() < 0.3 else self.s_atom
        I = self.i_atom
        B = self.b_atom
        k = r.randrange(12) if r.random() < self.fancy else 99
        if k == 0:
            self.feat('str-concat')
            return f'{S()} + {S()}'
        if k == 1:
            self.feat('method-on-paren')
            return r.choice([f'({S()} + {S()}).to_upper()', f'({S()} + {S()}).strip()', f'({I()} + {I()}).to_string()'])
        if k == 2:
            self.feat('paren-ternary')
            return f'({B()} ? {S()} : {S()}) + {S()}'
        if k == 3:
            self.feat('str-pathjoin')
            return f"{S()} / 'sub'"
        if k == 4:
            self.feat('str-format')
            return f"'@0@-@1@'.format({I()}, {S()})"
        if k == 5:
            self.feat('str-join')
            return f"'-'.join([{S()}, {S()}])"
        if k == 6:
            self.feat('index-array')
            return f'[{S()}, {S()}][{r.choice([0, 1])}]'
        if k == 7:
            self.feat('index-dict')
            return f"{{'k' : {S()}}}['k']"
        if k == 8:
            self.feat('str-method')
            return r.choice([f'{S()}.strip()', f"{S()}.replace('o', {self.s_atom()})", f'{S()}.to_upper()',
                             f"{S()}.underscorify()"])
        if k == 9:
            self.feat('ternary')
            return f'{B()} ? {S()} : {S()}'
        if k == 10:
            self.feat('index-on-paren')
            return f"({S()} + ',' + {S()}).split(',')[0]"
        return self.str_literal()


# --------------------------------------------------------------------------------------------------
# projects

BOOL_KW = ['install', 'build_by_default', 'gui_app', 'pie', 'export_dynamic', 'implib']
STR_KW = ['install_dir', 'build_rpath', 'install_rpath', 'name_prefix', 'name_suffix', 'win_subsystem']
LIST_KW = ['c_args', 'link_args', 'cpp_args', 'objc_args']
DEP_BOOL_KW = ['required', 'static', 'native']
DEP_STR_KW = ['method', 'not_found_message', 'language']
DEP_LIST_KW = ['version', 'modules']
SRC_EXT = ['.c', '.cpp', '.cc']
DEFOPT_VALUES: T.Dict[str, T.List[str]] = {
    'buildtype': ['debug', 'release', 'plain', 'minsize'],
    'warning_level': ['0', '1', '2', '3'],
    'werror': ['true', 'false', 'True', 'FALSE'],
    'debug': ['true', 'false', 'TRUE', 'False'],
    'optimization': ['0', '2', 's', 'g'],
    'default_library': ['shared', 'static', 'both'],
    'unity': ['on', 'off', 'subprojects'],
    'strip': ['true', 'false', 'tRuE'],
    'prefix': ['/usr', '/opt/x'],
    'layout': ['mirror', 'flat'],
}
# literal default_options entries whose key ends with / contains another option's key, or whose value contains `key=`
CONFUSABLE_DEFOPTS = ['b_ndebug=if-release', 'build.c_args=-DB', 'c_args=-Ddebug=1 -Dstrip=x', 'c_link_args=-s', 'c_std=c11',
                      'cpp_std=c++14', 'sub:werror=true', 'build.cpp_std=c++11', 'sub:debug=false', 'b_lto=false']
# entries with a backslash that is still an escape sequence after one decoding (source text '...\\t...')
BACKSLASH_DEFOPTS = ['c_args=-DSEP="\\t" -DROOT="C:\\\\tools"', 'cpp_args=-DNL="\\n"', 'c_link_args=-Wl,\\x41', 'objc_args=a\\\\nb']
CONFUSABLE_TAILS = ['debug', 'c_args', 'std', 'werror', 'args', 'strip', 'link_args', 'cpp_std', 'lto']
COMMENTS = ['# plain comment', "# it's (a) comment, with 'quotes'", '# ünïcödé 日本 comment', '#no space', '#  x = [1, 2',
            "# executable('ghost', 'ghost.c')"]


# how a later target may receive a source list that an earlier target uses by its plain name
SHARED_VIA = ['get-variable', 'get-variable', 'get-variable-into-variable', 'alias', 'alias-of-alias', 'plus-literal', 'plus-variables',
              'array-element', 'dict-value', 'array-index', 'files-argument', 'set-variable', 'plus-assign', 'ternary', 'foreach']


class ProjectGen:
    def __init__(self, rng: random.Random, linebreak_hazard: bool = False) -> None:
        self.rng = rng
        self.features: T.List[str] = []
        self.hazard = linebreak_hazard
        self.n = 0
        self.names: T.Set[str] = set()
        self.config: T.Dict[str, bool] = {}

    def fresh(self, prefix: str) -> str:
        self.n += 1
        return f'{prefix}{self.n}'

    def srcname(self, pool: T.Set[str], fancy: bool = True) -> str:
        r = self.rng
        for _ in range(50):
            base = r.choice(['main', 'util', 'a', 'b', 'core', 'io', 'z', 'm1', 'net', 'x10', 'x9'])
            if fancy and r.random() < 0.1:
                base += r.choice(["'q", 'é', 'é', ' sp', ' sp', '-d', '-d', '#h', '#h'])
                self.features.append('src-odd-name')
            if r.random() < 0.15:
                base = r.choice(['gen', 'src', 'lib']) + '/' + base
            name = base + r.choice(SRC_EXT)
            if name not in pool:
                pool.add(name)
                return name
        self.n += 1
        name = f'f{self.n}.c'
        pool.add(name)
        return name

    @staticmethod
    def lit(s: str) -> str:
        return "'" + s.replace('\\', '\\\\').replace("'", "\\'") + "'"

    def comment(self) -> str:
        c = self.rng.choice(COMMENTS)
        if self.hazard and self.rng.random() < 0.5:
            c += self.rng.choice(['\x0c', ' \u2028 ls', ' \x85 nel', ' \x0b'])
            self.features.append('raw-python-linebreak')
        return c

    def kwargs_for(self, eg: ExprGen, func: str, depvars: T.List[str], libvars: T.List[str]) -> T.List[T.Tuple[str, str]]:
        r = self.rng
        out: T.List[T.Tuple[str, str]] = []
        used: T.Set[str] = set()

        def add(k: str, v: str) -> None:
            if k not in used:
                used.add(k)
                out.append((k, v))
        if func == 'dependency':
            for _ in range(r.choice([0, 1, 2, 3])):
                c = r.random()
                if c < 0.45:
                    add(r.choice(DEP_BOOL_KW), eg.pick('bool'))
                elif c < 0.65:
                    add(r.choice(DEP_STR_KW), eg.pick('str', 1))
                elif c < 0.9:
                    if r.random() < 0.35:
                        # a list-typed keyword given as ONE bare string
                        self.features.append('strlist-kwarg-bare-string')
                        add(r.choice(DEP_LIST_KW), self.lit(r.choice(['>=1.0', 'core\\tx', 'a\\nb', 'C:\\\\tmp', 'mod\\x41'])) if r.random() < 0.5
                            else eg.str_literal())
                    else:
                        add(r.choice(DEP_LIST_KW), self.str_array(eg))
                else:
                    add('default_options', self.dict_literal(eg))
            return out
        for _ in range(r.choice([1, 2, 2, 3, 4, 5])):
            c = r.random()
            if c < 0.4:
                add(r.choice(BOOL_KW), eg.pick('bool'))
            elif c < 0.6:
                add(r.choice(STR_KW), eg.pick('str'))
            elif c < 0.78:
                add(r.choice(LIST_KW), self.str_array(eg))
            elif c < 0.86:
                add('d_module_versions', '[' + ', '.join(eg.pick('int') for _ in range(r.choice([1, 2]))) + ']')
            elif c < 0.9:
                add('override_options', self.dict_literal(eg))
            elif c < 0.95 and depvars:
                ds = r.sample(depvars, r.randint(1, min(2, len(depvars))))
                add('dependencies', ds[0] if len(ds) == 1 and r.random() < 0.4 else '[' + ', '.join(ds) + ']')
            elif libvars:
                add('link_with', '[' + r.choice(libvars) + ']')
            if func != 'executable' and r.random() < 0.15:
                add('soversion', eg.pick('int'))
        return out

    def str_array(self, eg: ExprGen) -> str:
        r = self.rng
        items = [eg.pick('str', 1) for _ in range(r.choice([1, 2, 2, 3]))]
        if r.random() < 0.35:
            self.features.append('array-with-comments')
            lines = ['[']
            for it in items:
                if r.random() < 0.4:
                    lines.append('    ' + self.comment())
                lines.append('    ' + it + ',' + ('  ' + self.comment() if r.random() < 0.4 else ''))
            lines.append('  ]')
            return '\n'.join(lines)
        return '[' + ', '.join(items) + ']'

    def dict_literal(self, eg: ExprGen) -> str:
        r = self.rng
        self.features.append('dict-literal')
        keys = r.sample(['werror', 'warning_level', 'opt_a', "k'q", 'k b'], r.choice([1, 2, 3]))
        ents = [f'{self.lit(k)} : {eg.pick(r.choice(["bool", "str", "int"]), 1)}' for k in keys]
        if r.random() < 0.4:
            self.features.append('dict-with-comments')
            return '{\n' + ''.join(f'    {e},  {self.comment()}\n' for e in ents) + '  }'
        return '{' + ', '.join(ents) + '}'

    def call_text(self, func: str, pos: T.List[str], kw: T.List[T.Tuple[str, str]], var: T.Optional[str],
                  oneline: bool = False) -> str:
        r = self.rng
        args = pos + [f'{k}{r.choice([" : ", ": ", ":"])}{v}' for k, v in kw]
        head = (f'{var} = ' if var else '') + func + '('
        layout = 0.0 if oneline else r.random()
        if layout < 0.45 or len(args) <= 1:
            return head + ', '.join(args) + ')'
        if layout < 0.8:
            body = (',\n' + ' ' * r.choice([2, 4, len(head)])).join(args)
            return head + body + (',' if r.random() < 0.3 else '') + ')'
        lines = [head]
        for i, a in enumerate(args):
            tail = ',' if i < len(args) - 1 or r.random() < 0.5 else ''
            lines.append('  ' + a + tail + ('  ' + self.comment() if r.random() < 0.3 else ''))
        lines.append(')')
        return '\n'.join(lines)

    def filler(self, eg: ExprGen, level: int = 0) -> T.List[str]:
        r = self.rng
        k = r.randrange(9)
        ind = '  ' * level
        if k == 0:
            return [ind + self.comment()]
        if k == 1:
            return ['']
        if k == 2:
            t = r.choice(['bool', 'int', 'str'])
            return [f'{ind}{self.fresh("v")} = {eg.pick(t)}' + ('  ' + self.comment() if r.random() < 0.3 else '')]
        if k == 3:
            self.features.append('filler-ordering-cmp')
            return [f'{ind}{self.fresh("v")} = {eg.pick("int")} {r.choice(["<", "<=", ">", ">="])} {eg.pick("int", 1)}']
        if k == 4:
            return [f'{ind}message({eg.pick("str", 1)})']
        if k == 5 and level == 0:
            self.features.append('filler-if')
            v = self.fresh('v')
            return [f'if {eg.pick("bool", 1)}', f'  {v} = {eg.pick("int", 1)}', 'else', f'  {v} = 0  # else', 'endif']
        if k == 6 and level == 0:
            self.features.append('filler-foreach')
            v = self.fresh('v')
            return [f'{v} = 0', f'foreach it : [1, 2, {eg.pick("int", 0)}]', f'  {v} += it', 'endforeach']
        if k == 7:
            self.features.append('filler-continuation')
            return [f'{ind}{self.fresh("v")} = {eg.pick("int", 1)} + \\', f'{ind}    {eg.pick("int", 1)}']
        return [f'{ind}{self.fresh("v")} = [{eg.pick("str", 1)}, {eg.pick("str", 0)}]']

    def generate(self) -> T.Dict[str, T.Any]:
        r = self.rng
        env: T.Dict[str, T.Any] = {}
        lines: T.List[str] = []
        sub_lines: T.List[str] = []
        with_sub = r.random() < 0.45

        # ---- project() (first statement: literals only) -------------------------------------------
        eg0 = ExprGen(r, {}, fancy=0.7)
        pkw: T.List[T.Tuple[str, str]] = []
        if r.random() < 0.7:
            pkw.append(('version', eg0.pick('str', 1) if r.random() < 0.5 else "'1.2.3'"))
        if r.random() < 0.4:
            pkw.append(('license', r.choice(["'MIT'", "['MIT', 'GPL-2.0']", f"[{eg0.str_literal()}]", eg0.str_literal(),
                                             self.lit('Custom\\tLicense')])))
        if r.random() < 0.3:
            pkw.append(('meson_version', r.choice(["'>=0.50.0'", "'>=' + '0.5' + 0.to_string() + '.0'", "(true ? '>=0.50.0' : '>=0.60.0')"])))
        defopts: T.List[str] = []
        if r.random() < 0.75:
            keys = r.sample(sorted(DEFOPT_VALUES), r.randint(1, 3))
            form = r.random()
            ents = [(k, r.choice(DEFOPT_VALUES[k])) for k in keys]
            defopts = [k for k, _ in ents]
            if form < 0.7:
                items = [self.lit(f'{k}={v}') for k, v in ents]
                if r.random() < 0.4:
                    for e in r.sample(CONFUSABLE_DEFOPTS, r.randint(1, 4)):
                        items.insert(r.randint(0, len(items)), self.lit(e))
                    self.features.append('defopt-confusable-keys')
                if r.random() < 0.3:
                    items.insert(r.randint(0, len(items)), self.lit(r.choice(BACKSLASH_DEFOPTS)))
                    if r.random() < 0.5:
                        items = items[-2:]            # short list: one delete leaves a single element
                    self.features.append('defopt-backslash-entry')
                if r.random() < 0.3:
                    items.append(r.choice(["'b_' + 'ndebug=' + (not (true and false)).to_string()",
                                           "'install_umask=0' + (0o20 + 6).to_string()",
                                           "'libdir=' + 'lib' / 'x'"]))
                    self.features.append('defopt-expression-entry')
                if len(items) > 1 and r.random() < 0.3:
                    pkw.append(('default_options', '[\n  ' + ',\n  '.join(items) + ',  # last\n]'))
                else:
                    pkw.append(('default_options', '[' + ', '.join(items) + ']'))
            elif form < 0.85:
                single = r.choice(BACKSLASH_DEFOPTS) if r.random() < 0.4 else f'{ents[0][0]}={ents[0][1]}'
                pkw.append(('default_options', self.lit(single)))
                defopts = [single.split('=')[0]]
                self.features.append('defopt-single-string')
            else:
                pkw.append(('default_options', '{' + ', '.join(f'{self.lit(k)} : {self.lit(v)}' for k, v in ents) + '}'))
                self.features.append('defopt-dict')
        r.shuffle(pkw)
        lines += self.call_text('project', ["'p17'"], pkw, None).split('\n')
        self.features += eg0.features

        # ---- prelude variables --------------------------------------------------------------------
        def define(name: str, text: str) -> None:
            env[name] = R.evaluate_expression(text, env)
            lines.append(f'{name} = {text}')
        for nm in ('ba', 'bb', 'bc'):
            define(nm, r.choice(['true', 'false']))
        for nm in ('n1', 'n2', 'n3'):
            define(nm, str(r.randint(1, 9)))
        egs = ExprGen(r, dict(env), fancy=0.8)
        for nm in ('s1', 's2'):
            define(nm, egs.str_literal())
        self.features += egs.features
        eg = ExprGen(r, dict(env))

        for _ in range(r.randint(0, 2)):
            lines += self.filler(eg)

        # ---- dependencies -------------------------------------------------------------------------
        depvars: T.List[str] = []
        for i in range(r.choice([0, 1, 1, 2])):
            var = f'dep{i}'
            name = ['zlib', 'threads', 'libfoo'][i]
            kw = self.kwargs_for(eg, 'dependency', [], [])
            lines += self.call_text('dependency', [self.lit(name)], kw, var).split('\n')
            depvars.append(var)

        # ---- targets ------------------------------------------------------------------------------
        pool: T.Set[str] = set()
        libvars: T.List[str] = []
        ntargets = r.choice([1, 2, 2, 3, 3, 4])
        shared_var: T.Optional[str] = None
        shared_kind = ''
        for i in range(ntargets):
            in_sub = with_sub and (i == ntargets - 1 or r.random() < 0.25)
            dest = sub_lines if in_sub else lines
            func = r.choice(['executable'] * 4 + ['static_library', 'shared_library', 'library', 'both_libraries', 'shared_module'])
            name = f't{i}' + r.choice(['', '', '-x', '_y', ' z'])
            var = f'tgt{i}' if r.random() < 0.7 else None
            srcs = [self.srcname(pool) for _ in range(r.choice([1, 2, 2, 3, 4]))]
            if r.random() < 0.2 and '/' not in srcs[0] and 'alt/' + srcs[0] not in pool:
                srcs.append('alt/' + srcs[0])           # same base name in another directory
                pool.add('alt/' + srcs[0])
                self.features.append('src-same-basename')
            shape = r.randrange(16)
            if shared_var is not None and not in_sub and r.random() < 0.45:
                shape = 6
            elif shared_var is None and not in_sub and i < ntargets - 1 and r.random() < 0.2:
                shape = r.choice([2, 2, 3])         # a list in a variable that a later target can share
            oneline = False
            # a variable consumed by a target of the subdirectory may be defined in the parent directory
            vdest = dest
            if in_sub and r.random() < 0.5:
                vdest = lines
                self.features.append('var-defined-in-parent-dir')
            pos: T.List[str] = []
            kw: T.List[T.Tuple[str, str]] = []
            sv = f'srcs{i}'
            L = self.lit
            for _ in range(r.choice([0, 0, 1])):
                dest += self.filler(eg)
            if shape == 0:
                self.features.append('src-inline')
                pos = [L(s) for s in srcs]
            elif shape == 1:
                self.features.append('src-inline-array')
                pos = ['[' + ', '.join(L(s) for s in srcs) + ']']
            elif shape == 2:
                self.features.append('src-var')
                if r.random() < 0.4 and len(srcs) > 1:
                    vdest += [f'{sv} = ['] + [f'  {L(s)},' + ('  ' + self.comment() if r.random() < 0.3 else '') for s in srcs] + [']']
                else:
                    vdest.append(f'{sv} = [' + ', '.join(L(s) for s in srcs) + ']')
                pos = [sv]
            elif shape == 3:
                self.features.append('src-files')
                vdest.append(f'{sv} = files(' + ', '.join(L(s) for s in srcs) + ')')
                pos = [sv]
            elif shape == 4:
                self.features.append('src-plusassign')
                vdest.append(f'{sv} = [{L(srcs[0])}]')
                for _ in range(r.choice([0, 1])):
                    vdest += self.filler(eg)
                rest = ', '.join(L(s) for s in srcs[1:])
                vdest.append(f'{sv} += ' + (f'files({rest})' if r.random() < 0.4 and rest else f'[{rest}]'))
                pos = [sv]
            elif shape == 5:
                self.features.append('src-concat')
                vdest.append(f'{sv} = [{L(srcs[0])}]')
                pos = [f'{sv} + [' + ', '.join(L(s) for s in srcs[1:]) + ']']
            elif shape == 6 and shared_var is not None and not in_sub:
                # a list SHARED with an earlier target (which uses it by its plain name); this target receives it by the
                # plain name too, or through an indirection: whatever command addresses one of the two targets, the
                # other one must keep its sources (or the command must refuse)
                self.features.append('src-shared-var')
                form = r.choice(SHARED_VIA) if r.random() < 0.75 else 'plain'
                if form == 'files-argument' and shared_kind != 'strings':
                    form = 'get-variable'
                self.features.append('src-shared-via-' + form)
                sh = shared_var
                other = L(srcs[1]) if len(srcs) > 1 else L(self.srcname(pool))
                if form == 'plain':
                    ex = sh
                elif form == 'get-variable':
                    ex = f"get_variable('{sh}')"
                elif form == 'get-variable-into-variable':
                    dest.append(f"mid{i} = get_variable('{sh}')")
                    ex = f'mid{i}'
                elif form == 'alias':
                    dest.append(f'al{i} = {sh}')
                    ex = f'al{i}'
                elif form == 'alias-of-alias':
                    dest += [f'al{i} = {sh}', f'al{i}b = al{i}']
                    ex = f'al{i}b'
                elif form == 'plus-literal':
                    ex = f'{sh} + [{other}]'
                elif form == 'plus-variables':
                    dest.append(f'more{i} = [{other}]')
                    ex = r.choice([f'more{i} + {sh}', f'{sh} + more{i}'])
                elif form == 'array-element':
                    ex = r.choice([f'[{sh}, {other}]', f'[{other}, {sh}]', f'[{sh}]'])
                elif form == 'dict-value':
                    dest.append(f"d{i} = {{'k' : {sh}, 'other' : [{other}]}}")
                    ex = f"d{i}['k']"
                elif form == 'array-index':
                    dest.append(f'arr{i} = [{sh}]')
                    ex = f'arr{i}[0]'
                elif form == 'files-argument':
                    ex = f'files({sh})'
                elif form == 'set-variable':
                    dest.append(f"set_variable('sv{i}', {sh})")
                    ex = f'sv{i}'
                elif form == 'plus-assign':
                    dest += [f'acc{i} = [{other}]', f'acc{i} += {sh}']
                    ex = f'acc{i}'
                elif form == 'ternary':
                    ex = r.choice(['true', 'n1 > 0', 'bb == bb']) + f' ? {sh} : []'
                else:
                    assert form == 'foreach'
                    dest += [f'acc{i} = []', f'foreach x{i} : {sh}', f'  acc{i} += x{i}', 'endforeach']
                    ex = f'acc{i}'
                pos = [ex] + [L(s) for s in srcs[:1]]
            elif shape == 7:
                # the `sources:` keyword: a variable, a literal array, a files() call, or next to positional sources
                form = r.randrange(4)
                self.features.append(['src-kwarg', 'src-kwarg-literal-array', 'src-kwarg-files', 'src-kwarg-and-positional'][form])
                if form == 0:
                    vdest.append(f'{sv} = [' + ', '.join(L(s) for s in srcs) + ']')
                    kw.append(('sources', sv))
                elif form == 1:
                    kw.append(('sources', '[' + ', '.join(L(s) for s in srcs) + ']'))
                elif form == 2:
                    kw.append(('sources', 'files(' + ', '.join(L(s) for s in srcs) + ')'))
                else:
                    pos = [L(srcs[0])]
                    more_src = srcs[1:] or [self.srcname(pool)]
                    kw.append(('sources', '[' + ', '.join(L(s) for s in more_src) + ']'))
            elif shape == 8:
                self.features.append('src-nested-array')
                pos = ['[' + L(srcs[0]) + ', [' + ', '.join(L(s) for s in srcs[1:]) + ']]']
            elif shape == 9:
                self.features.append('src-mixed')
                vdest.append(f'{sv} = [' + ', '.join(L(s) for s in srcs[1:]) + ']')
                pos = [L(srcs[0]), sv, L(self.srcname(pool))]
            elif shape == 10:
                self.features.append('src-get-variable')
                vdest.append(f'{sv} = [' + ', '.join(L(s) for s in srcs) + ']')
                pos = [f"get_variable('{sv}')"]
            elif shape in (14, 15):
                # the variable is assigned again inside an if/elif/else clause: what the target gets depends on the
                # configuration (get_option) -- the rewriter has to be right in every configuration
                self.features.append('src-var-reassigned-in-branch')
                opt = f'opt{i}'
                self.config[opt] = r.choice([True, False])
                cond = r.choice([f"get_option('{opt}')", f"not get_option('{opt}')", f"get_option('{opt}') and bb == bb"])
                alt = [self.srcname(pool) for _ in range(r.choice([1, 2]))]
                alt2 = [self.srcname(pool)]
                arr = lambda xs: '[' + ', '.join(L(x) for x in xs) + ']'
                noop = r.choice(["message('keeping the generic list')", f"v{i}x = 1", "warning('generic')"])
                dest.append(f'{sv} = {arr(srcs)}')
                if r.random() < 0.3:
                    self.features.append('src-var-used-before-and-after-clause')
                    dest.append(f"executable('u{i}', {sv})")
                form = r.randrange(6)
                self.features.append(f'branch-form-{form}')
                if form == 0:
                    dest += [f'if {cond}', f'  {sv} = {arr(alt)}', 'else', f'  {noop}', 'endif']
                elif form == 1:
                    dest += [f'if {cond}', f'  {noop}', 'else', f'  {sv} = {arr(alt)}', 'endif']
                elif form == 2:
                    dest += [f'if {cond}', f'  {sv} = {arr(alt)}', 'elif bb', f'  {noop}', 'else', f'  {noop}', 'endif']
                elif form == 3:
                    dest += [f'if {cond}', f'  {sv} = {arr(alt)}', 'else', f'  {sv} = {arr(alt2)}', 'endif']
                elif form == 4:
                    dest += [f'if {cond}', f'  {sv} += {arr(alt)}', 'else', f'  {noop}', 'endif']
                else:
                    dest += [f'if {cond}', f'  {sv} = {arr(alt)}', 'endif']
                pos = [sv] if r.random() < 0.6 else [L(self.srcname(pool)), sv]
            elif shape in (12, 13) and len(srcs) >= 2:
                # two (or three) list expressions next to each other on ONE line
                self.features.append('src-lists-on-one-line')
                oneline = True
                cut = r.randint(1, len(srcs) - 1)
                parts = [srcs[:cut], srcs[cut:]]
                if len(parts[1]) > 1 and r.random() < 0.4:
                    parts = [parts[0], parts[1][:1], parts[1][1:]]
                pos = []
                for part in parts:
                    items = ', '.join(L(s) for s in part)
                    pos.append(f'files({items})' if r.random() < 0.5 else f'[{items}]')
            else:
                self.features.append('src-files-inline')
                pos = ['files(' + ', '.join(L(s) for s in srcs) + ')']
            if shape in (2, 3) and shared_var is None and not in_sub:
                shared_var = sv
                shared_kind = 'strings' if shape == 2 else 'files'
            if r.random() < 0.3:
                ef = list(dict.fromkeys(self.srcname(pool, fancy=False).rsplit('.', 1)[0] + '.h' for _ in range(r.choice([1, 2]))))
                efs = r.random()
                if efs < 0.5:
                    kw.append(('extra_files', '[' + ', '.join(L(s) for s in ef) + ']'))
                    self.features.append('extra-inline')
                elif efs < 0.8:
                    vdest.append(f'ef{i} = [' + ', '.join(L(s) for s in ef) + ']')
                    kw.append(('extra_files', f'ef{i}'))
                    self.features.append('extra-var')
                elif efs < 0.9 or len(ef) < 2:
                    kw.append(('extra_files', 'files(' + ', '.join(L(s) for s in ef) + ')'))
                    self.features.append('extra-files')
                else:
                    kw.append(('extra_files', f'files({L(ef[0])}) + [{L(ef[1])}]'))
                    self.features.append('extra-lists-on-one-line')
                    oneline = True
            more = self.kwargs_for(eg, func, depvars, [] if in_sub else libvars)
            kw += [(k, v) for k, v in more if k not in {x for x, _ in kw}]
            if kw and r.random() < 0.5:
                r.shuffle(kw)
            nm = L(name) if r.random() < 0.85 else f"'t{i}' + {L(name[2:])}"
            text = self.call_text(func, [nm] + pos, kw, var, oneline)
            if not in_sub and r.random() < 0.12:
                self.features.append('target-in-if')
                dest += ['if true'] + ['  ' + x for x in text.split('\n')] + ['endif']
            else:
                dest += text.split('\n')
            if var and func != 'executable' and not in_sub:
                libvars.append(var)
            for _ in range(r.choice([0, 0, 1, 2])):
                dest += self.filler(eg)

        if with_sub:
            if not sub_lines:
                sub_lines.append('subvar = 1')
            at = r.randint(max(len(lines) - 6, 1), len(lines))
            # subdir() after everything it may need: simply put it last among the top-level statements
            lines.append("subdir('sub')")
            del at
        for _ in range(r.randint(0, 2)):
            lines += self.filler(eg)
        self.features += eg.features

        text = '\n'.join(lines) + '\n'
        if r.random() < 0.1:
            text = text.rstrip('\n')
            self.features.append('no-trailing-newline')
        files = {'meson.build': text}
        if with_sub:
            st = '\n'.join(sub_lines) + '\n'
            if r.random() < 0.1:
                st = st.rstrip('\n')
                self.features.append('no-trailing-newline')
            files['sub/meson.build'] = st
        return {'files': files, 'features': sorted(set(self.features)), 'defopts': defopts, 'pool': sorted(pool),
                'config': dict(self.config)}


def configurations(config: T.Mapping[str, bool]) -> T.List[T.Dict[str, bool]]:
    """The primary configuration first, then the others: every combination for up to 3 options, else the primary
    one with each single option flipped and the all-flipped one."""
    keys = sorted(config)
    out = [dict(config)]
    if not keys:
        return out
    if len(keys) <= 3:
        for mask in range(1, 1 << len(keys)):
            out.append({k: (not config[k]) if mask & (1 << i) else config[k] for i, k in enumerate(keys)})
        return out
    for k in keys:
        out.append({**config, k: not config[k]})
    out.append({k: not v for k, v in config.items()})
    return out


def gen_project(rng: random.Random, linebreak_hazard: bool = False) -> T.Dict[str, T.Any]:
    """A project the reference evaluates without error (retry until it does)."""
    for _ in range(20):
        g = ProjectGen(rng, linebreak_hazard)
        try:
            p = g.generate()
        except R.RefError:
            continue
        if all(M.Model(p['files'], c).ok for c in configurations(p['config'])) and M.Model(p['files'], p['config']).targets():
            return p
    raise RuntimeError('generator cannot produce an evaluable project')


# --------------------------------------------------------------------------------------------------
# commands (JSON form) from the reference model of the current state

RW_TARGET_KW = {'build_by_default': 'bool', 'build_rpath': 'str', 'dependencies': 'idlist', 'gui_app': 'bool',
                'link_with': 'idlist', 'export_dynamic': 'bool', 'implib': 'bool', 'install': 'bool',
                'install_dir': 'str', 'install_rpath': 'str', 'pie': 'bool'}
RW_DEP_KW = {'language': 'str', 'method': 'str', 'native': 'bool', 'not_found_message': 'str', 'required': 'bool',
             'static': 'bool', 'version': 'strlist', 'modules': 'strlist'}
RW_PROJECT_KW = {'default_options': 'strlist', 'meson_version': 'str', 'license': 'strlist', 'license_files': 'strlist',
                 'subproject_dir': 'str', 'version': 'str'}
RW_KW = {'target': RW_TARGET_KW, 'dependency': RW_DEP_KW, 'project': RW_PROJECT_KW}
VALUE_STRINGS = ['/usr/local', 'MixedCase/Lib', 'lib64', '1.2.4', 'cmake', 'x y', "it's", 'back\\slash', 'ünï', '>=2.0', 'a#b', '$ORIGIN/../lib']


def _target_id(rng: random.Random, rec: M.CallRec) -> str:
    if rec.var and rng.random() < 0.4:
        return rec.var
    return rec.name if isinstance(rec.name, str) else (rec.var or '?')


# spellings of a boolean a user may type (the rewriter accepts them case-insensitively); a string value reaches
# the rewriter from the command line and from a JSON command that carries "True" instead of true
BOOL_SPELLINGS = ['true', 'false', 'True', 'False', 'TRUE', 'FALSE', 'tRuE', 'fAlSe']


def _kw_value(rng: random.Random, typ: str, m: M.Model) -> T.Any:
    if typ == 'bool':
        if rng.random() < 0.4:
            return rng.choice(BOOL_SPELLINGS)
        return rng.choice([True, False])
    if typ == 'str':
        return rng.choice(VALUE_STRINGS)
    if typ == 'strlist':
        return rng.choice([rng.choice(VALUE_STRINGS), rng.sample(VALUE_STRINGS, 2)])
    if typ == 'idlist':
        deps = [c.var for c in m.deps() if c.var]
        if not deps:
            return None
        return rng.choice([deps[0], [deps[0]], deps[:2]])
    return None


def gen_command(rng: random.Random, m: M.Model, pool: T.Sequence[str]) -> T.Optional[dict]:
    """One rewriter command (script-mode object) addressing the project described by the model m."""
    tg = m.targets()
    if not tg:
        return None
    kind = rng.choices(
        ['kw-set', 'kw-delete', 'kw-add', 'kw-remove', 'defopt-set', 'defopt-delete', 'src-add', 'src-rm',
         'extra-add', 'extra-rm', 'tgt-add', 'tgt-rm', 'info', 'kw-info'],
        weights=[24, 8, 6, 6, 7, 5, 16, 9, 5, 4, 3, 3, 3, 2])[0]
    if kind.startswith('kw-') and kind != 'kw-info':
        fn = rng.choices(['target', 'dependency', 'project'], weights=[6, 2, 2])[0]
        if fn == 'dependency' and not m.deps():
            fn = 'target'
        if fn == 'target':
            rec = rng.choice(tg)
            ident = _target_id(rng, rec)
        elif fn == 'dependency':
            rec = rng.choice(m.deps())
            ident = rec.var if rec.var and rng.random() < 0.4 else rec.name
        else:
            rec = m.project()
            ident = rng.choice(['/', '/', '//'])
        if rec is None or not isinstance(ident, str):
            return None
        table = RW_KW[fn]
        present = [k for k, _ in rec.kw if k in table]
        op = kind[3:]
        if op == 'set':
            keys = rng.sample(sorted(table), rng.choice([1, 1, 2]))
            if present and rng.random() < 0.6:
                keys[0] = rng.choice(present)
            kwargs = {}
            for k in dict.fromkeys(keys):
                if fn == 'project' and k in ('subproject_dir',):
                    continue
                if k == 'default_options':
                    ks = rng.sample(sorted(DEFOPT_VALUES), 2)
                    kwargs[k] = [f'{x}={rng.choice(DEFOPT_VALUES[x])}' for x in ks]
                    continue
                v = _kw_value(rng, table[k], m)
                if v is not None:
                    kwargs[k] = v
            if not kwargs:
                return None
            return {'type': 'kwargs', 'function': fn, 'id': ident, 'operation': 'set', 'kwargs': kwargs}
        if op == 'delete':
            keys = [rng.choice(present)] if present and rng.random() < 0.8 else [rng.choice(sorted(table))]
            if present and rng.random() < 0.3:
                keys.append(rng.choice(present))
            return {'type': 'kwargs', 'function': fn, 'id': ident, 'operation': 'delete',
                    'kwargs': {k: None for k in dict.fromkeys(keys)}}
        lists = [k for k, t in table.items() if t in ('strlist', 'idlist')]
        if not lists:
            return None
        pl = [k for k in present if k in lists]
        k = rng.choice(pl) if pl and rng.random() < 0.7 else rng.choice(lists)
        typ = table[k]
        cur = rec.kwd().get(k)
        if k == 'default_options':
            ents = [x for x in M.listify(cur) if isinstance(x, str)] if cur is not None else []
            have_keys = {x.split('=')[0] for x in ents}
            if op == 'add':
                free = [x for x in sorted(DEFOPT_VALUES) if x not in have_keys]
                if not free:
                    return None
                kk = rng.choice(free)
                v0 = f'{kk}={rng.choice(DEFOPT_VALUES[kk])}'
            else:
                v0 = rng.choice(ents) if ents and rng.random() < 0.8 else 'debug=true'
            return {'type': 'kwargs', 'function': fn, 'id': ident, 'operation': op, 'kwargs': {k: v0}}
        if op == 'add':
            v = _kw_value(rng, typ, m)
            if v is None:
                return None
            return {'type': 'kwargs', 'function': fn, 'id': ident, 'operation': 'add', 'kwargs': {k: v}}
        # remove: a value that is present as a plain literal, or an absent one
        if typ == 'strlist':
            cands = [x for x in M.listify(cur) if isinstance(x, str)] if cur is not None else []
            v = rng.choice(cands) if cands and rng.random() < 0.7 else rng.choice(VALUE_STRINGS)
        else:
            deps = [c.var for c in m.deps() if c.var]
            if not deps:
                return None
            v = rng.choice(deps)
        return {'type': 'kwargs', 'function': fn, 'id': ident, 'operation': 'remove', 'kwargs': {k: v}}
    if kind == 'kw-info':
        fn = rng.choice(['target', 'target', 'dependency', 'project'])
        if fn == 'dependency' and m.deps():
            rec = rng.choice(m.deps())
            if isinstance(rec.name, str):
                return {'type': 'kwargs', 'function': 'dependency', 'id': rec.name, 'operation': 'info'}
        if fn == 'project':
            return {'type': 'kwargs', 'function': 'project', 'id': '/', 'operation': 'info'}
        rec = rng.choice(tg)
        return {'type': 'kwargs', 'function': 'target', 'id': _target_id(rng, rec), 'operation': 'info'}
    if kind == 'defopt-set':
        keys = rng.sample(sorted(DEFOPT_VALUES), rng.choice([1, 1, 2]))
        proj = m.project()
        cur = proj.kwd().get('default_options') if proj else None
        ents = [x for x in M.listify(cur) if isinstance(x, str)] if isinstance(cur, (list, str)) else []
        # prefer a key that is the tail of another entry's key, or occurs in another entry's value
        near = [k for k in sorted(DEFOPT_VALUES) if any((k + '=') in e and not e.startswith(k + '=') for e in ents)]
        if near and rng.random() < 0.7:
            keys[0] = rng.choice(near)
            keys = list(dict.fromkeys(keys))
        return {'type': 'default_options', 'operation': 'set', 'options': {k: rng.choice(DEFOPT_VALUES[k]) for k in keys}}
    if kind == 'defopt-delete':
        proj = m.project()
        cur = proj.kwd().get('default_options') if proj else None
        have = []
        if isinstance(cur, (list, str)):
            have = [x.split('=')[0] for x in M.listify(cur) if isinstance(x, str) and '=' in x]
        keys = [rng.choice(have)] if have and rng.random() < 0.8 else [rng.choice(sorted(DEFOPT_VALUES))]
        near = [k for k in CONFUSABLE_TAILS + sorted(DEFOPT_VALUES)
                if any((k + '=') in x and not x.startswith(k + '=') for x in M.listify(cur) if isinstance(x, str))] \
            if isinstance(cur, (list, str)) else []
        if near and rng.random() < 0.5:
            keys = [rng.choice(near)]
        return {'type': 'default_options', 'operation': 'delete', 'options': {k: None for k in keys}}
    rec = rng.choice(tg)
    ident = _target_id(rng, rec)
    if kind in ('src-add', 'extra-add'):
        ext = '.h' if kind == 'extra-add' else rng.choice(SRC_EXT)
        cur = [x for x in (m.extra(rec) if kind == 'extra-add' else m.sources(rec)) if isinstance(x, str)]
        files = []
        for _ in range(rng.choice([1, 1, 2])):
            c = rng.random()
            if c < 0.2 and cur:
                files.append(rng.choice(cur))                      # already there
            else:
                base = rng.choice(['new', 'added', 'aa', 'zz', 'mid', 'x11', "q'uote", 'ünew', 'dir/deep'])
                sub = rec.subdir + '/' if rec.subdir and rng.random() < 0.85 else ''
                if rec.subdir and rng.random() < 0.25:
                    # a sibling directory whose NAME starts with the name of the target's directory
                    sub = rec.subdir + rng.choice(['-common/', 's/', '_gen/', '2/inner/'])
                files.append(f'{sub}{base}{rng.randint(0, 99)}{ext}')
        return {'type': 'target', 'target': ident, 'operation': 'src_add' if kind == 'src-add' else 'extra_files_add',
                'sources': files}
    if kind in ('src-rm', 'extra-rm'):
        cur = [x for x in (m.extra(rec) if kind == 'extra-rm' else m.sources(rec)) if isinstance(x, str)]
        files = []
        for _ in range(rng.choice([1, 2, 2])):
            if cur and rng.random() < 0.85:
                files.append(rng.choice(cur))
            else:
                files.append('absent%d.c' % rng.randint(0, 9))
        return {'type': 'target', 'target': ident, 'operation': 'src_rm' if kind == 'src-rm' else 'extra_files_rm',
                'sources': list(dict.fromkeys(files))}
    if kind == 'tgt-add':
        subdirs = sorted({c.subdir for c in m.calls})
        name = rng.choice(['newprog', 'new-lib', 'new tgt', 'my.prog', '7zip', 'plain_1'])
        if m.find_target(name):
            return None
        return {'type': 'target', 'target': name, 'operation': 'target_add',
                'sources': [f'n{rng.randint(0, 9)}.c' for _ in range(rng.choice([1, 2]))],
                'subdir': rng.choice(subdirs), 'target_type': rng.choice(['executable', 'shared_library', 'static_library', 'library'])}
    if kind == 'tgt-rm':
        # not a target whose variable is used by another statement
        used = set()
        for sts in m.stmts.values():
            for st in sts:
                used |= M.ids_in(st.node.a[1] if st.kind in ('assign', 'plusassign') else st.node)
        cands = [c for c in tg if not c.var or c.var not in used]
        if not cands:
            return None
        rec = rng.choice(cands)
        return {'type': 'target', 'target': _target_id(rng, rec), 'operation': 'target_rm'}
    return {'type': 'target', 'target': ident, 'operation': 'info'}


CLI_TARGET_OPS = {'src_add': 'add', 'src_rm': 'rm', 'target_add': 'add_target', 'target_rm': 'rm_target',
                  'extra_files_add': 'add_extra_files', 'extra_files_rm': 'rm_extra_files', 'info': 'info'}


def to_cli(cmd: dict) -> T.Optional[T.List[str]]:
    """argv after `meson rewrite [-s dir]` for the command, or None when the CLI cannot express it."""
    def sval(v: T.Any) -> T.Optional[str]:
        if isinstance(v, bool):
            return 'true' if v else 'false'
        if isinstance(v, str):
            return v
        return None
    if cmd['type'] == 'target':
        argv = ['target']
        if cmd['operation'] == 'target_add':
            if cmd.get('subdir'):
                argv += ['-s', cmd['subdir']]
            argv += ['--type', cmd.get('target_type', 'executable')]
        argv += [cmd['target'], CLI_TARGET_OPS[cmd['operation']]] + list(cmd.get('sources', []))
        if any(s.startswith('-') for s in argv[1:] if s not in ('-s', '--type')):
            return None
        return argv
    if cmd['type'] == 'kwargs':
        if cmd['operation'] == 'info':
            return None    # the CLI `kwargs info` exists, but is not documented in Rewriter.md
        argv = ['kwargs', cmd['operation'], cmd['function'], cmd['id']]
        for k, v in cmd.get('kwargs', {}).items():
            if cmd['operation'] == 'delete':
                argv.append(k)
                continue
            s = sval(v)
            if s is None or s.startswith('-'):
                return None
            argv += [k, s]
        return argv
    if cmd['type'] == 'default_options':
        argv = ['default-options', cmd['operation']]
        for k, v in cmd.get('options', {}).items():
            if cmd['operation'] == 'delete':
                argv.append(k)
            else:
                argv += [k, str(v)]
        return argv
    return None


def gen_sequence(rng: random.Random, m: M.Model, pool: T.Sequence[str], maxlen: int = 3) -> T.List[dict]:
    """1..maxlen commands; round-trip pairs (add new then remove it; remove existing then add it) are explicit."""
    c = rng.random()
    tg = m.targets()
    if c < 0.12 and tg:
        rec = rng.choice(tg)
        ident = _target_id(rng, rec)
        sub = rec.subdir + '/' if rec.subdir else ''
        if rec.subdir and rng.random() < 0.3:
            sub = rec.subdir + rng.choice(['-common/', 's/'])
        f = f'{sub}rt_new{rng.randint(0, 99)}.c'
        return [{'type': 'target', 'target': ident, 'operation': 'src_add', 'sources': [f], 'law': 'add-then-rm'},
                {'type': 'target', 'target': ident, 'operation': 'src_rm', 'sources': [f], 'law': 'add-then-rm'}]
    if c < 0.24 and tg:
        rec = rng.choice(tg)
        cur = [x for x in m.sources(rec) if isinstance(x, str)]
        if cur:
            ident = _target_id(rng, rec)
            f = rng.choice(cur)
            return [{'type': 'target', 'target': ident, 'operation': 'src_rm', 'sources': [f], 'law': 'rm-then-add'},
                    {'type': 'target', 'target': ident, 'operation': 'src_add', 'sources': [f], 'law': 'rm-then-add'}]
    n = rng.choice([1, 1, 1, 2, 2, 3][:max(1, min(6, maxlen * 2))])
    out = []
    for _ in range(min(n, maxlen)):
        for _t in range(5):
            cmd = gen_command(rng, m, pool)
            if cmd is not None:
                out.append(cmd)
                break
    return out
