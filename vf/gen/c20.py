"""C20 workload generators: Cargo requirement strings, version strings, SemVer order domain,
cfg() expressions (exhaustive by depth / arity), strings with delimiters, token soups.

Plain data only; nothing here imports mesonbuild.
"""
from __future__ import annotations

import itertools
import random
import typing as T

from vf.ref import refcfg

OPS = ['', '^', '~', '=', '<', '<=', '>', '>=']
REQ_COMPONENTS = [0, 1, 2, 3]
VER_COMPONENTS = [0, 1, 2, 3, 4]
REQ_PRES = ['alpha', 'alpha.1', 'rc.1', '1']
VER_PRES = ['alpha', 'alpha.1', '1', 'rc.1']


def partial_versions(components: T.Sequence[int]) -> T.List[str]:
    out = [str(a) for a in components]
    out += [f'{a}.{b}' for a, b in itertools.product(components, repeat=2)]
    out += [f'{a}.{b}.{c}' for a, b, c in itertools.product(components, repeat=3)]
    return out


def requirements(rng: random.Random, n_comma: int) -> T.List[T.Tuple[str, str]]:
    """[(requirement, class)], deduplicated, deterministic order."""
    seen: T.Dict[str, str] = {}

    def add(req: str, klass: str) -> None:
        seen.setdefault(req, klass)

    pv = partial_versions(REQ_COMPONENTS)
    for op in OPS:
        for v in pv:
            add(op + v, 'op-partial')
    add('*', 'wildcard')
    for a in REQ_COMPONENTS:
        add(f'{a}.*', 'wildcard')
        for b in REQ_COMPONENTS:
            add(f'{a}.{b}.*', 'wildcard')
    full = [f'{a}.{b}.{c}' for a, b, c in itertools.product(REQ_COMPONENTS, repeat=3)]
    for op in OPS:
        for v in full:
            for pre in REQ_PRES:
                add(f'{op}{v}-{pre}', 'prerelease-req')
    # multi-digit components: numeric, not lexicographic, comparison
    md = partial_versions([9, 10])
    for op in OPS:
        for v in md:
            add(op + v, 'multidigit')
    # blanks the Cargo grammar allows
    for op in OPS[1:]:
        for v in ('1', '1.2', '1.2.3', '0.0.3', '1.2.3-alpha'):
            add(f'{op} {v}', 'whitespace')
            add(f'  {op}{v} ', 'whitespace')
    for r in ('>=1.2.3,<2', '>=1.2.3 ,<2', '>= 1.2.3 , < 2', ' >=1.2.3,  <2 ', '>1,<=2.1', '> 1 , <= 2.1'):
        add(r, 'whitespace')
    # comma lists of two: lower-bound-ish x upper-bound-ish (and a few arbitrary pairs)
    lows = [op + v for op in ('>=', '>', '^', '~', '') for v in pv] + \
           [f'{op}{v}-{pre}' for op in ('>=', '>') for v in full[::5] for pre in REQ_PRES[:2]]
    ups = [op + v for op in ('<', '<=') for v in pv] + \
          [f'{op}{v}-{pre}' for op in ('<', '<=') for v in full[::5] for pre in REQ_PRES[:2]]
    singles = [r for r, k in seen.items() if k in ('op-partial', 'prerelease-req')]
    for i in range(n_comma):
        if i % 5 == 4:
            a, b = rng.choice(singles), rng.choice(singles)
        else:
            a, b = rng.choice(lows), rng.choice(ups)
        sep = (', ', ',', ' , ')[i % 3]
        add(a + sep + b, 'comma2')
    # a few lists of three (every comparator must count, also the last one)
    for i in range(max(20, n_comma // 10)):
        a, b, c = rng.choice(lows), rng.choice(ups), rng.choice(singles if i % 2 else ups)
        sep = (', ', ',', ' , ')[i % 3]
        add(sep.join((a, b, c)), 'comma3')
    return list(seen.items())


def versions() -> T.List[T.Tuple[str, str]]:
    """[(version, class)] class in release, prerelease, build, multidigit, partial."""
    out: T.List[T.Tuple[str, str]] = []
    for a, b, c in itertools.product(VER_COMPONENTS, repeat=3):
        out.append((f'{a}.{b}.{c}', 'release'))
    for a, b, c in itertools.product(REQ_COMPONENTS, repeat=3):
        for pre in VER_PRES:
            out.append((f'{a}.{b}.{c}-{pre}', 'prerelease'))
        out.append((f'{a}.{b}.{c}+build', 'build'))
    for a, b, c in itertools.product([2, 9, 10, 11], repeat=3):
        out.append((f'{a}.{b}.{c}', 'multidigit'))
    for v in ('1.0.0-alpha+build.7', '1.2.3-rc.1+exp.sha', '0.0.0-alpha', '1.0.0+001', '1.2.3+b-c.1'):
        out.append((v, 'prerelease' if '-' in v.split('+')[0] else 'build'))
    # partial versions on the left: the pinned tests treat 1 == 1.0 == 1.0.0
    for v in ('0', '1', '2', '3', '0.0', '0.1', '1.0', '1.2', '2.3', '3.0', '4', '4.0'):
        out.append((v, 'partial'))
    seen: T.Dict[str, str] = {}
    for v, k in out:
        seen.setdefault(v, k)
    return list(seen.items())


# ---- SemVer order domain --------------------------------------------------------------------
ORDER_PRES = ['', 'alpha', 'alpha.1', 'alpha.beta', 'beta', 'beta.2', 'beta.11', 'rc.1', 'rc.2', 'rc.a',
              '0', '1', '2', '10', '1.2', '1.10', 'alpha.0', 'alpha.2', 'alpha.10', 'a.1.b', 'a.b', 'a.b.c',
              'x-y', 'x-1', 'a1', 'A', 'Z.1', '0a', 'rc.1a', 'rc.0a', '-', '--a', '1.alpha', 'alpha.1.1']
ORDER_TRIPLES = ['1.0.0', '1.0.1', '1.1.0', '2.0.0', '0.0.0', '1.10.0', '1.9.0']
ORDER_BUILDS = ['', '+build', '+001', '+b-c.1']


def order_domain(tier: str) -> T.List[str]:
    triples = ORDER_TRIPLES if tier == 'thorough' else ORDER_TRIPLES[:4]
    out: T.List[str] = []
    for t in triples:
        for p in ORDER_PRES:
            v = t + ('-' + p if p else '')
            out.append(v)
    # build metadata on a subset (must not influence precedence)
    for t in triples[:2]:
        for p in ('', 'alpha', 'alpha.1', '1', 'rc.1'):
            for b in ORDER_BUILDS[1:]:
                out.append(t + ('-' + p if p else '') + b)
    return list(dict.fromkeys(out))


# ---- cfg expressions ------------------------------------------------------------------------
ATOMS: T.List[refcfg.Ast] = [('name', 'a'), ('name', 'b'), ('eq', 'a', 'x'), ('eq', 'a', 'y')]
VALUES: T.List[T.Optional[str]] = [None, '', 'x', 'y']


def assignments() -> T.List[T.Dict[str, str]]:
    out = []
    for va, vb in itertools.product(VALUES, repeat=2):
        d: T.Dict[str, str] = {}
        if va is not None:
            d['a'] = va
        if vb is not None:
            d['b'] = vb
        out.append(d)
    return out


def level_up(args_pool: T.Sequence[refcfg.Ast], max_arity: int) -> T.Iterator[refcfg.Ast]:
    """All not(x), all(..), any(..) with 0..max_arity arguments drawn from args_pool."""
    for x in args_pool:
        yield ('not', x)
    for k in ('all', 'any'):
        for n in range(0, max_arity + 1):
            for combo in itertools.product(args_pool, repeat=n):
                yield (k, list(combo))


def depth1() -> T.List[refcfg.Ast]:
    """depth <= 1, arity <= 3: 4 + 4 + 2*85 = 178."""
    return list(ATOMS) + list(level_up(ATOMS, 3))


def depth2_count(max_arity: int = 2) -> int:
    n = len(depth1())
    return n + 2 * sum(n ** k for k in range(max_arity + 1))


def depth2_item(i: int, pool: T.Sequence[refcfg.Ast]) -> refcfg.Ast:
    """i-th expression of: not(x) for x in pool; then all/any with arity 0,1,2 over pool (index arithmetic,
    so that workers can enumerate slices without materialising the list)."""
    n = len(pool)
    if i < n:
        return ('not', pool[i])
    i -= n
    per = 1 + n + n * n
    k = 'all' if i < per else 'any'
    i %= per
    if i == 0:
        return (k, [])
    i -= 1
    if i < n:
        return (k, [pool[i]])
    i -= n
    return (k, [pool[i // n], pool[i % n]])


def random_expr(rng: random.Random, depth: int, max_arity: int, pool0: T.Sequence[refcfg.Ast]) -> refcfg.Ast:
    if depth == 0:
        return rng.choice(pool0)
    kind = rng.choice(('not', 'all', 'any', 'all', 'any'))
    if kind == 'not':
        return ('not', random_expr(rng, depth - 1, max_arity, pool0))
    n = rng.randint(0, max_arity)
    args = [random_expr(rng, rng.randint(0, depth - 1), max_arity, pool0) for _ in range(n)]
    if args:
        # make sure the requested depth is reached
        args[rng.randrange(len(args))] = random_expr(rng, depth - 1, max_arity, pool0)
    return (kind, args)


# string values containing blanks / commas / parentheses / '=' (a class of its own)
DELIM_VALUES = ['p q', ' x', 'x ', '  x', ' ', 'p,q', ',', 'x,', '(x)', 'x)', '(', ')', '(x', 'x=y', '=', '=x',
                'p q,r(s)', 'all(a)', 'not (a)', 'a, b', '\tx', 'x\ny']


def delimiter_cases() -> T.List[T.Tuple[str, T.Dict[str, str]]]:
    out: T.List[T.Tuple[str, T.Dict[str, str]]] = []
    for v in DELIM_VALUES:
        lit = f'a = "{v}"'
        exprs = [lit, f'a="{v}"', f'not({lit})', f'all({lit}, b)', f'any(b, {lit})', f'all(b, {lit}, a = "x")',
                 f'any(not({lit}))']
        pieces = [p for p in v.replace(',', ' ').replace('(', ' ').replace(')', ' ').replace('=', ' ').split() if p]
        vals: T.List[T.Optional[str]] = [v, v.strip(), 'x', '', None] + pieces
        for e in exprs:
            for va in dict.fromkeys(vals):
                for vb in (None, ''):
                    d: T.Dict[str, str] = {}
                    if va is not None:
                        d['a'] = va
                    if vb is not None:
                        d['b'] = vb
                    out.append((e, d))
    # the empty string literal: `a = ""` is false when a is unset or has another value.  (With a bare
    # `--cfg a`, which the dict stores as '', the outcome is a representation question and not demanded.)
    for e in ('a = ""', 'a=""', 'not(a = "")', 'any(a = "", b)', 'all(b, a = "")'):
        for va in (None, 'x'):
            for vb in (None, ''):
                d = {}
                if va is not None:
                    d['a'] = va
                if vb is not None:
                    d['b'] = vb
                out.append((e, d))
    return out


# token soups over the cfg alphabet
SOUP_TOKENS = ['a', 'b', 'all', 'any', 'not', '(', ')', ',', '=', '"x"', '"y"', '"']


def soups_exhaustive(max_len: int) -> T.Iterator[str]:
    for n in range(0, max_len + 1):
        for combo in itertools.product(SOUP_TOKENS, repeat=n):
            yield ' '.join(combo)


def soup_random(rng: random.Random) -> str:
    n = rng.randint(4, 11)
    toks = [rng.choice(SOUP_TOKENS) for _ in range(n)]
    seps = ['', ' ', ' ', '  ', '\t']
    out = []
    for i, t in enumerate(toks):
        out.append(t)
        if i + 1 < n:
            # never glue two word tokens together silently: that would just make another identifier,
            # which is fine for the oracle (it reads the string) but wastes cases
            nxt = toks[i + 1]
            if t[-1].isalnum() and nxt[0].isalnum():
                out.append(' ')
            else:
                out.append(rng.choice(seps))
    return ''.join(out)


def near_miss(rng: random.Random, text: str) -> str:
    """One edit of a well-formed expression: delete / insert / duplicate / swap / replace a token-ish char run."""
    toks = refcfg.tokenize(text)
    parts = [t if k != 'str' else f'"{t}"' for k, t in toks]
    if not parts:
        return rng.choice(SOUP_TOKENS)
    i = rng.randrange(len(parts))
    how = rng.randrange(6)
    if how == 0:
        del parts[i]
    elif how == 1:
        parts.insert(i, rng.choice(SOUP_TOKENS))
    elif how == 2:
        parts.insert(i, parts[i])
    elif how == 3 and len(parts) > 1:
        j = (i + 1) % len(parts)
        parts[i], parts[j] = parts[j], parts[i]
    elif how == 4:
        parts[i] = rng.choice(SOUP_TOKENS)
    else:
        parts = parts[:i]          # truncation (unbalanced)
    out = []
    for k, p in enumerate(parts):
        out.append(p)
        if k + 1 < len(parts):
            nxt = parts[k + 1]
            glue = p[-1].isalnum() and nxt[0].isalnum()
            out.append(' ' if glue or rng.random() < 0.5 else '')
    return ''.join(out)


def single_edit_neighbourhood() -> T.List[str]:
    """Every string one token edit away (delete / insert / replace, tokens from SOUP_TOKENS) from a
    well-formed expression of depth <= 1 and arity <= 2 - enumerated, deduplicated.  Contains e.g.
    `all(a b)` (comma deleted) and `not(a, b)` (`all` replaced)."""
    bases = list(ATOMS) + list(level_up(ATOMS, 2))
    out: T.Dict[str, None] = {}
    for ast in bases:
        toks = refcfg.tokenize(refcfg.render(ast, 0))
        parts = [t if k != 'str' else f'"{t}"' for k, t in toks]
        variants: T.List[T.List[str]] = []
        for i in range(len(parts)):
            variants.append(parts[:i] + parts[i + 1:])
            for t in SOUP_TOKENS:
                variants.append(parts[:i] + [t] + parts[i + 1:])
        for i in range(len(parts) + 1):
            for t in SOUP_TOKENS:
                variants.append(parts[:i] + [t] + parts[i:])
        for v in variants:
            out.setdefault(' '.join(v))
    return list(out)
