"""Workload generators for C18: line alphabets, structured random TAP streams, arbitrary text.

Nothing here imports mesonbuild or the reference; a stream is a list of str (lines, usually with '\\n').
"""
from __future__ import annotations

import random
import typing as T

# ---- alphabets for the exhaustive enumeration ----------------------------------------------------
# core: 16 line forms that reach every state/counter of a TAP consumer
CORE: T.List[str] = [
    'ok',                       # unnumbered
    'ok 1',
    'ok 2',
    'ok 3 third',               # number + name
    'not ok',
    'not ok 2 # TODO wip',      # expected failure
    'ok # SKIP nope',           # skip, unnumbered
    'ok 1 # TODO',              # unexpected pass
    '1..2',
    '1..3',
    'TAP version 13',
    '  ---',
    '  ...',
    '  k: v',                   # indented text
    '# comment',
    'Bail out! stop',
]

# extended: every form listed in DESIGN.md C18/W (used to a smaller depth)
EXTENDED: T.List[str] = CORE + [
    '',                         # blank
    'garbage',
    'not ok 1 # SKIP still a failure',
    'ok 2 # skipped because',
    'ok 1 # FIXME not a directive',
    'not ok 3 name',
    'ok 0',
    '1..0',
    '1..0 # SKIP all of it',
    '1..1',
    'TAP version 12',
    'TAP version 14',
    '    deeper: v',
    'ok 4 four # todo later',
    '  not ok 1 indented is not a test line',
]

# yaml13: the lines that decide whether a YAML block is entered, left or left open, enumerated DEEPER than the core alphabet and
# always behind a `TAP version 13` first line (element 0; the enumeration fixes it as the first line).  Column-0 diagnostics and
# completely empty lines are part of it: whether they sit before the `  ---`, inside the block or after it changes the outcome.
YAML13: T.List[str] = [
    'TAP version 13',
    'ok',
    'not ok 2 # TODO wip',
    '  ---',
    '  ...',
    '  k: v',
    '# comment',
    '',                         # completely empty line
    'garbage',
    '1..2',
]

ALPHABETS: T.Dict[str, T.List[str]] = {'core': CORE, 'ext': EXTENDED, 'yaml13': YAML13}

WORDS = ['alpha', 'beta', 'the test', 'x', 'café', '測試', 'a-b', 'q.r', 'n 2', 'ok', 'not', 'skip', 'todo',
         'with  two spaces', '1..2 inside', 'Bail', 'TAP', '\U0001f600']
REASONS = ['', 'why', 'not yet', 'because of 1..3', 'see #12', 'café']


def _directive(rng: random.Random) -> str:
    r = rng.random()
    if r < 0.35:
        return ' # ' + rng.choice(['SKIP', 'skip', 'Skip', 'SKIPPED', 'skipped', 'skipping']) + (' ' + rng.choice(REASONS)).rstrip()
    if r < 0.7:
        return ' # ' + rng.choice(['TODO', 'todo', 'ToDo']) + (' ' + rng.choice(REASONS)).rstrip()
    if r < 0.8:
        return ' #' + rng.choice(['SKIP', 'TODO']) + ' tight'
    if r < 0.9:
        return ' # ' + rng.choice(['FIXME', 'note', 'TODOS', 'todo_later', 'SKI', 'comment only'])
    return '#SKIP'


def structured(rng: random.Random, max_lines: int = 200) -> T.List[str]:
    """A TAP producer with injected faults (numbering, plans, YAML, version, bail-out)."""
    out: T.List[str] = []
    fault = rng.random() < 0.6          # 40 % of the streams are meant to be clean
    version = 12
    if rng.random() < 0.55:
        version = rng.choice([13, 13, 13, 13, 14, 12]) if fault else 13
        out.append(f'TAP version {version}')
    elif fault and rng.random() < 0.1:
        out.append(rng.choice(['', '# hello']))
        out.append('TAP version 13')     # misplaced
    ntests = rng.choice([0, 1, 2, 3, 4, 5, 8, 13, 30, 60]) if rng.random() < 0.8 else rng.randrange(0, 70)
    plan_mode = rng.choice(['early', 'early', 'late', 'late', 'none'])
    plan_n = ntests
    if fault and rng.random() < 0.25:
        plan_n = max(0, ntests + rng.choice([-2, -1, 1, 2]))

    def plan_line() -> str:
        if plan_n == 0 and rng.random() < 0.5:
            return '1..0 # SKIP ' + rng.choice(REASONS[1:])
        if fault and rng.random() < 0.03:
            return f'1..{plan_n} # SKIP not allowed here'
        return f'1..{plan_n}'

    def noise() -> None:
        r = rng.random()
        if r < 0.10:
            out.append('# ' + rng.choice(WORDS))
        elif r < 0.14:
            out.append('')
        elif r < 0.17:
            out.append(rng.choice(['garbage', 'OK 1', 'Not ok', 'PASS', 'oké', '  indented', '\tTAB', '2..3', '1.. 3', 'bail',
                                   'TAP', 'version 13', '---', '...']))

    if plan_mode == 'early':
        noise()
        out.append(plan_line())
    counter = 0
    numbered = rng.random() < 0.8
    for t in range(ntests):
        if len(out) >= max_lines - 4:
            break
        noise()
        counter += 1
        num = counter
        if fault:
            r = rng.random()
            if r < 0.03:
                num = max(0, counter - rng.choice([1, 1, 2]))      # duplicate
            elif r < 0.06:
                num = counter + rng.choice([1, 1, 2, 10])          # gap
                if rng.random() < 0.5:
                    counter = num
            elif r < 0.065:
                num = 0
        ok = rng.random() < 0.8
        line = 'ok' if ok else 'not ok'
        if numbered or rng.random() < 0.1:
            if rng.random() < 0.97:
                line += f' {num}'
        r = rng.random()
        if r < 0.5:
            line += ' ' + rng.choice(WORDS)
        elif r < 0.6:
            line += ' - ' + rng.choice(WORDS)
        if rng.random() < 0.2:
            line += _directive(rng)
        out.append(line)
        if rng.random() < 0.15:
            indent = rng.choice(['  ', '  ', '    ', ' ', '\t'])
            out.append(indent + '---')
            for _ in range(rng.randrange(0, 4)):
                out.append(indent + rng.choice(['k: v', 'message: "ok 1"', '  nested: 1', '- item', '# not a comment', '1..4',
                                                'Bail out! no', '---', ' ']))
            if fault and rng.random() < 0.1:
                out.append(rng.choice(['', ' short', 'k: v', indent[:-1] + 'x']) if rng.random() < 0.7 else indent + 'k: v')
            if not (fault and rng.random() < 0.15):
                out.append(indent + '...')
        if fault and rng.random() < 0.01:
            out.append('Bail out! ' + rng.choice(WORDS))
        if fault and plan_mode == 'late' and rng.random() < 0.02:
            out.append(plan_line())            # middle plan -> later tests come after a late plan
            plan_mode = 'done'
        if fault and rng.random() < 0.01:
            out.append('TAP version 13')       # misplaced
    if plan_mode == 'late':
        noise()
        out.append(plan_line())
    if fault and rng.random() < 0.06:
        out.append(f'1..{rng.choice([plan_n, plan_n + 1, 1])}')   # second plan
    if fault and rng.random() < 0.05:
        out.append(rng.choice(['ok', f'ok {counter + 1}', 'not ok']))  # a test after everything
    noise()
    out = out[:max_lines]
    eol = rng.random()
    if eol < 0.8:
        return [l + '\n' for l in out]
    if eol < 0.9:
        return [l + '\n' for l in out[:-1]] + out[-1:]
    return out


# ---- arbitrary text ---------------------------------------------------------------------------------
_EXOTIC_WS = ['\x0b', '\x0c', '\x1c', '\x1d', '\x1e', '\x1f', '\x85', '\xa0', '\u1680', '\u2003', '\u2028', '\u2029', '\u3000', '\r']
_TAPPISH = ['ok', 'not ok', 'ok 1', 'not ok 2', '1..3', '1..', 'Bail out!', 'TAP version 13', 'TAP version ', '  ---', '  ...',
            '# SKIP', '# TODO', ' # skip', ' # todo', '#', '..', '---', '...', 'ok 1 # SKIP x', 'not ok # TODO y']


def _rand_char(rng: random.Random) -> str:
    r = rng.random()
    if r < 0.5:
        return chr(rng.randrange(0x20, 0x7f))
    if r < 0.62:
        c = chr(rng.randrange(0, 0x20))
        return ' ' if c == '\n' else c
    if r < 0.72:
        return rng.choice(_EXOTIC_WS)
    if r < 0.82:
        return rng.choice('0123456789#. \t')
    if r < 0.92:
        return chr(rng.randrange(0xa0, 0x3000))
    while True:
        c = rng.randrange(0x3000, 0x10ffff)
        if not 0xd800 <= c <= 0xdfff:
            return chr(c)


def _mutate(rng: random.Random, s: str) -> str:
    for _ in range(rng.randrange(1, 4)):
        op = rng.randrange(4)
        pos = rng.randrange(len(s) + 1)
        if op == 0:
            s = s[:pos] + _rand_char(rng) + s[pos:]
        elif op == 1 and s:
            s = s[:pos] + s[pos + 1:]
        elif op == 2 and s:
            s = s[:pos] + _rand_char(rng) + s[pos + 1:]
        else:
            s = s[:pos] + rng.choice(_TAPPISH) + s[pos:]
    return s.replace('\n', ' ')


def arbitrary_line(rng: random.Random) -> str:
    r = rng.random()
    if r < 0.30:
        return ''.join(_rand_char(rng) for _ in range(rng.randrange(0, 40)))
    if r < 0.60:
        return _mutate(rng, rng.choice(_TAPPISH + EXTENDED))
    if r < 0.70:
        return rng.choice(EXTENDED)
    if r < 0.75:   # lenient decoding of random bytes, as mtest.decode() does
        b = bytes(rng.randrange(256) for _ in range(rng.randrange(1, 30))).replace(b'\n', b' ')
        try:
            return b.decode('utf-8')
        except UnicodeDecodeError:
            return b.decode('iso-8859-1', errors='ignore')
    if r < 0.80:   # very long lines
        n = rng.choice([1000, 5000, 70000, 200000])
        kind = rng.randrange(4)
        if kind == 0:
            return rng.choice(['ok ', 'not ok 1 ', '# ', 'x', '  ']) + 'a' * n
        if kind == 1:
            return 'ok 1 ' + '#' * min(n, 5000)
        if kind == 2:
            return ' ' * n + rng.choice(['---', '...', 'ok', ''])
        return 'ok ' + ' '.join(['w'] * (n // 2))
    if r < 0.84:   # long digit runs (below and above CPython's int<->str guard of 4300 digits)
        d = rng.choice([18, 19, 20, 40, 400, 4299, 4300])
        return rng.choice(['ok ', 'not ok ', '1..', 'TAP version ', 'ok x ']) + rng.choice('123456789') + \
            ''.join(rng.choice('0123456789') for _ in range(d - 1))
    if r < 0.92:
        return rng.choice(['ok', 'not ok', 'ok 2', '1..2']) + rng.choice(_EXOTIC_WS) + rng.choice(['1', 'x', '# SKIP', ''])
    return rng.choice(_EXOTIC_WS + [' ', '\t']) * rng.randrange(1, 4) + rng.choice(['---', '...', 'k: v', 'ok 1', ''])


def arbitrary(rng: random.Random, max_lines: int = 40) -> T.List[str]:
    n = rng.randrange(1, max_lines)
    base: T.List[str] = []
    if rng.random() < 0.5:
        base = [l.rstrip('\n') for l in structured(rng, max_lines=20)]
    lines = list(base)
    for _ in range(n):
        pos = rng.randrange(len(lines) + 1)
        lines.insert(pos, arbitrary_line(rng))
    lines = lines[:max_lines]
    r = rng.random()
    if r < 0.7:
        return [l + '\n' for l in lines]
    if r < 0.8:
        return [l + '\r\n' for l in lines]
    return lines


def digit_limit_probes() -> T.List[T.List[str]]:
    """directed: numbers longer than CPython's default int-from-str limit (4300 digits)"""
    big = '1' * 4301
    return [[f'ok {big}\n'], [f'1..{big}\n'], [f'TAP version {big}\n'], ['ok 1\n', f'not ok {big} name # TODO\n']]
