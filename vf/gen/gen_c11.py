"""C11 workload generator: projects with install rules + the EXPECTED installed tree.

Nothing here imports mesonbuild.  The expected tree is computed from the generator's own description of the
rules, following the property text, docs/markdown/Installing.md and the reference pages of the install_*
functions (docs/yaml/functions/install_*.yaml):

  destination   relative install dirs are below the prefix, absolute ones are used as they are; both are
                re-rooted under DESTDIR by the check (DESTDIR + path)
  install_data  {install_dir or datadir/projectname}/[dirname(src) if preserve_path]/{rename[i] or basename}
  install_headers {install_dir or includedir/subdir}/[dirname(src) if preserve_path]/basename
  install_man   {mandir}/[locale]/man<N>/<name without .locale>   or   install_dir/basename
  install_subdir install_dir/[basename(dir) unless strip_directory]/<tree minus excludes>
  install_emptydir / install_symlink  as given
  targets       executable -> bindir, libraries -> libdir (unless install_dir), custom_target outputs into the
                install_dir list (false = not installed), configure_file(install: true) -> install_dir
  mode          install_mode (verbatim, never masked) else 0777/0666 by the x bit of the copied file, masked by
                install_umask; install_umask=preserve keeps the source mode.  Directories: 0777 & ~umask, except an
                install_emptydir with install_mode
  tags          install_tag, else the defaults of Installing.md (executable/shared_library runtime,
                static_library/headers devel, man man, files into bindir runtime, includedir devel, localedir i18n,
                'installed-tests' tests), else untagged (= not installed under --tags)

Every spec is plain JSON (replayable).  `hazards` are features known to deviate on the unchanged tree; they are
only used by the directed probes of the check, never by the random generator.
"""
from __future__ import annotations

import os
import posixpath
import random
import typing as T

PERMS = ['rwxr-x---', 'rw-r--r--', 'rw-------', 'rwxrwxr-x', 'r--r--r--', 'rw-rw-r--', 'rwxr-xr-x', 'r-xr-xr-x',
         'rw-rw-rw-', 'rwxrwxrwx', 'rwx------', 'rw-r-----']
OWNERS: T.List[T.Tuple[T.Union[str, int], T.Union[str, int], int, int]] = [
    (0, 0, 0, 0), ('root', 'root', 0, 0), (2, 3, 2, 3), ('daemon', 'daemon', 1, 1), ('bin', 0, 2, 0), (0, 'sys', 0, 3), (6, 12, 6, 12),
    # uid/gid 1 as a *number* is avoided: the install_mode validator rejects it at configure time (`True in mode`)
]
UMASKS = ['022', '022', '027', '077', '002', '000', '007', 'preserve']
PREFIXES = ['/usr', '/opt/x y', '/usr/local', '/opt/prëfix']
DECOR = ['', '', ' ', 'ü', ' é ', '$', '+', ',', '(1)', '#', '~', 'ß x', '%', '=', '@', '&']
SAFE_DECOR = ['', '', ' ', 'ü', ' é ', '+', 'ß x', '-', '_']
TAGS = ['runtime', 'devel', 'man', 'doc', 'mine', 'tägged', 'i18n', 'bin-devel']


KILLER = 'c11-killer.sh'
KILLER_SH = ('#!/bin/sh\n# runs last; the parent is the `meson install` process (run_exe -> Popen)\n'
             'if [ -n "$C11_KILL_PARENT" ]; then kill -KILL $PPID; sleep 0.2; fi\n'
             'if [ -n "$C11_SCRIPT_EXIT" ]; then exit "$C11_SCRIPT_EXIT"; fi\nexit 0\n')
# Placeholder for "the DESTDIR this project will be installed under" (coincide projects): absolute install dirs and
# prefixes that textually start with the DESTDIR string (the same path, below it, or a sibling such as <destdir>-shared).
# They are paths of the final system like any other absolute path and must be re-rooted under DESTDIR.
DD = '/@DESTDIR@'


def perms_bits(s: str) -> int:
    """'rwxr-x---' -> 0o750 (no setuid/sticky letters are generated)."""
    bits = 0
    for i, ch in enumerate(s):
        if ch != '-':
            bits |= 1 << (8 - i)
    return bits


def q(s: str) -> str:
    """A meson string literal."""
    return "'" + s.replace('\\', '\\\\').replace("'", "\\'") + "'"


def qlist(xs: T.Sequence[str]) -> str:
    return '[' + ', '.join(q(x) for x in xs) + ']'


class Gen:
    def __init__(self, seed: T.Any, kind: str, coincide: bool = False) -> None:
        self.rng = random.Random(f'c11gen:{seed}')
        self.coincide = coincide
        self.kind = kind  # 'data' (backend none) | 'custom' (language-less, ninja) | 'c'
        self.n = 0
        self.files: T.Dict[str, dict] = {}      # source tree: rel -> {'content','mode'} | {'symlink'}
        self.dirs: T.Dict[str, int] = {}        # explicit (possibly empty) source dirs -> mode
        self.rules: T.List[dict] = []
        self.entries: T.List[dict] = []          # expected installed objects (without ancestor dirs)
        self.features: T.Set[str] = set()
        self.taken: T.Set[str] = set()           # logical destination paths already used
        self.opts: T.Dict[str, str] = {}
        self.projname = ''
        self.sp_projname = ''

    # ---- names ----------------------------------------------------------------------------------
    def u(self) -> int:
        self.n += 1
        return self.n

    def name(self, stem: str, ext: str = '', plain: bool = False, safe: bool = False) -> str:
        d = '' if plain else self.rng.choice(SAFE_DECOR if safe else DECOR)
        if d.strip() != d or d:
            self.features.add('name:odd')
        return f'{stem}{d}{self.u()}{ext}'

    def dname(self, stem: str) -> str:
        return self.name(stem)

    # ---- source files ---------------------------------------------------------------------------
    def add_file(self, rel: str, executable: T.Optional[bool] = None, content: T.Optional[str] = None) -> str:
        if executable is None:
            executable = self.rng.random() < 0.25
        mode = self.rng.choice([0o755, 0o755, 0o700, 0o775]) if executable else self.rng.choice([0o644, 0o644, 0o600, 0o664, 0o640])
        if content is None:
            content = f'content of {rel} #{self.u()}\n' * self.rng.randint(1, 3)
        self.files[rel] = {'content': content, 'mode': mode}
        return rel

    def add_symlink(self, rel: str, target: str) -> str:
        self.files[rel] = {'symlink': target}
        return rel

    def src_mode(self, rel: str) -> int:
        """Mode of the file a (followed) source path refers to."""
        f = self.files[rel]
        if 'symlink' in f:
            return self.src_mode(posixpath.normpath(posixpath.join(posixpath.dirname(rel), f['symlink'])))
        return f['mode']

    def real_src(self, rel: str) -> str:
        f = self.files[rel]
        if 'symlink' in f:
            return self.real_src(posixpath.normpath(posixpath.join(posixpath.dirname(rel), f['symlink'])))
        return rel

    # ---- options --------------------------------------------------------------------------------
    def pick_options(self) -> None:
        r = self.rng
        self.opts = {
            'prefix': r.choice(PREFIXES + ([DD + '/pfx', DD + 'x/usr', DD] * 2 if self.coincide else [])),
            'bindir': r.choice(['bin', 'bin', 'b in']),
            'libdir': r.choice(['lib', 'lib64', 'lib/x86_64-linux-gnu']),
            'includedir': r.choice(['include', 'include', 'inc lude']),
            'datadir': r.choice(['share', 'share', 'da ta']),
            'mandir': r.choice(['share/man', 'man', 'share/män']),
            'localedir': 'share/locale',
            'install_umask': r.choice(UMASKS),
        }
        self.features.add('umask:' + self.opts['install_umask'])
        self.features.add('prefix:' + self.opts['prefix'])
        if self.opts['prefix'].startswith(DD):
            self.features.add('coincide:prefix-starts-with-destdir')

    @property
    def umask(self) -> T.Optional[int]:
        u = self.opts['install_umask']
        return None if u == 'preserve' else int(u, 8)

    # ---- destination / mode / tag model ---------------------------------------------------------
    def logical(self, install_path: str) -> str:
        """Install path (prefix-relative or absolute) -> absolute logical path (to be re-rooted under DESTDIR)."""
        if install_path.startswith('/'):
            return posixpath.normpath(install_path)
        return posixpath.normpath(posixpath.join(self.opts['prefix'], install_path))

    def default_mode(self, src_mode: int) -> T.Optional[int]:
        if self.umask is None:
            return src_mode & 0o777
        return (0o777 if src_mode & 0o111 else 0o666) & ~self.umask

    def dir_mode(self) -> T.Optional[int]:
        return None if self.umask is None else 0o777 & ~self.umask

    def guess_tag(self, install_path: str) -> T.Optional[str]:
        """Default tags Installing.md documents for files by destination."""
        p = self.logical(install_path)
        parents = []
        d = posixpath.dirname(p)
        while True:
            parents.append(d)
            if d == '/':
                break
            d = posixpath.dirname(d)
        pre = self.opts['prefix']

        def od(k: str) -> str:
            return posixpath.normpath(posixpath.join(pre, self.opts[k]))
        if od('bindir') in parents:
            return 'runtime'
        if od('libdir') in parents:
            ext = posixpath.splitext(p)[1]
            if ext in ('.a', '.pc'):
                return 'devel'
            if ext in ('.so', '.dll'):
                return 'runtime'
            return None
        if od('includedir') in parents:
            return 'devel'
        if od('localedir') in parents:
            return 'i18n'
        if 'installed-tests' in p.split('/'):
            return 'tests'
        return None

    def pick_mode(self, allow_owner: bool = True) -> T.Tuple[T.Optional[str], T.Optional[dict]]:
        """-> (meson expression for install_mode or None, {'perms': int|None, 'uid':, 'gid':})."""
        r = self.rng
        x = r.random()
        if x < 0.45:
            return None, None
        perms = r.choice(PERMS)
        if x < 0.75 or not allow_owner:
            self.features.add('mode:explicit')
            return q(perms), {'perms': perms_bits(perms), 'uid': None, 'gid': None}
        o, g, uid, gid = r.choice(OWNERS)

        def lit(v: T.Union[str, int]) -> str:
            return str(v) if isinstance(v, int) else q(v)
        if x < 0.93:
            self.features.add('mode:explicit+owner')
            return f'[{q(perms)}, {lit(o)}, {lit(g)}]', {'perms': perms_bits(perms), 'uid': uid, 'gid': gid}
        self.features.add('mode:owner-only')
        return f'[false, {lit(o)}, {lit(g)}]', {'perms': None, 'uid': uid, 'gid': gid}

    def pick_tag(self, p: float = 0.4) -> T.Optional[str]:
        if self.rng.random() < p:
            self.features.add('tag:explicit')
            return self.rng.choice(TAGS)
        return None

    def pick_dir(self, neutral_only: bool = False) -> str:
        """An install_dir: relative (below the prefix) or absolute."""
        r = self.rng
        x = r.random()
        o = self.opts
        if self.coincide and x < 0.35:
            self.features.add('coincide:absolute-dir-starts-with-destdir')
            return r.choice([DD + '-shared/data', DD + '/etc/in side', DD + '2', DD + '/' + 'sub ' + str(self.u()), DD + '-x/y ' + str(self.u())])
        if x < 0.2:
            self.features.add('dir:absolute')
            # absolute directories carry a marker: a DESTDIR escape lands where the harness can find and remove it
            return r.choice(['/etc/c11-abs', '/etc/c11-abs ' + str(self.u()), '/var/lib/c11-äbs', '/srv/c11 x y/z', '/opt/c11-abs'])
        if x < 0.3 and not neutral_only:
            self.features.add('dir:bindir')
            return o['bindir']
        if x < 0.4 and not neutral_only:
            self.features.add('dir:includedir')
            return r.choice([o['includedir'], o['includedir'] + '/sub h'])
        if x < 0.45 and not neutral_only:
            self.features.add('dir:localedir')
            return o['localedir'] + '/xx/LC_MESSAGES'
        if x < 0.5 and not neutral_only:
            self.features.add('dir:installed-tests')
            return o['datadir'] + '/installed-tests/t' + str(self.u())
        if x < 0.6 and not neutral_only:
            self.features.add('dir:libdir')
            return r.choice([o['libdir'], o['libdir'] + '/pkgconfig', o['libdir'] + '/plug ins ' + str(self.u())])
        self.features.add('dir:relative')
        return r.choice([o['datadir'] + '/d' + str(self.u()), o['datadir'] + '/pkg/dä ta', 'etc', 'var/lib/p' + str(self.u()),
                         o['datadir'], 'libexec/x y', o['datadir'] + '/doc/p'])

    def in_libdir(self, idir: T.Optional[str]) -> bool:
        if idir is None or idir.startswith('/'):
            return False
        lib = self.opts['libdir']
        return idir == lib or idir.startswith(lib + '/')

    def ext_for(self, idir: T.Optional[str], usual: T.Sequence[str]) -> str:
        """File suffix for something installed into `idir`: below libdir the suffix decides the default tag
        (Installing.md: .a/.pc devel, .so/.dll runtime, anything else untagged), so all of them are drawn there."""
        if self.in_libdir(idir):
            e = self.rng.choice(['.pc', '.a', '.so', '.dll', '.pc', '.txt', ''])
            self.features.add('libdir:suffix:' + (e or 'none'))
            return e
        return self.rng.choice(list(usual))

    def collides(self, lp: str) -> bool:
        """Destinations are kept disjoint: no leaf (file, symlink, empty dir, installed tree member) of one rule is
        equal to, inside of, or an ancestor of a leaf of another rule.  Ancestor directories are shared freely."""
        return lp in self.taken or any(t.startswith(lp + '/') or lp.startswith(t + '/') for t in self.taken)

    def entry(self, path: str, typ: str, rule: int, kind: str, sub: str, tag: T.Optional[str], **kw: T.Any) -> bool:
        """Register an expected object; False if the logical path is already used by another object."""
        lp = self.logical(path)
        if self.collides(lp):
            return False
        self.taken.add(lp)
        e = {'path': lp, 'type': typ, 'rule': rule, 'kind': kind, 'subproject': sub, 'tag': tag}
        e.update(kw)
        self.entries.append(e)
        return True

    # ---- rules ----------------------------------------------------------------------------------
    # Each rule method returns the meson statement text (or None if it could not place its files) and appends
    # the expected entries.  `sd` = source subdir (relative to the source root) of the meson.build emitting it,
    # `sub` = subproject name ('' for the main project), `pn` = project name of that (sub)project.

    def _file_mode_fields(self, m: T.Optional[dict], src_mode: int) -> dict:
        if m is None:
            return {'mode': self.default_mode(src_mode), 'uid': 0, 'gid': 0, 'mode_src': 'default'}
        perms = m['perms'] if m['perms'] is not None else self.default_mode(src_mode)
        return {'mode': perms, 'uid': m['uid'] if m['uid'] is not None else 0, 'gid': m['gid'] if m['gid'] is not None else 0,
                'mode_src': 'explicit' if m['perms'] is not None else 'default'}

    def rule_data(self, sd: str, sub: str, pn: str, hazard: T.Optional[str] = None) -> T.Optional[str]:
        r = self.rng
        ri = len(self.rules)
        k = r.randint(1, 3)
        preserve = r.random() < 0.3
        use_rename = r.random() < 0.3 and not preserve
        symlink_src = r.random() < 0.2
        follow: T.Optional[bool] = None
        srcs: T.List[str] = []
        idir: T.Optional[str] = None if r.random() < 0.25 else self.pick_dir()
        for i in range(k):
            nested = preserve and r.random() < 0.7
            rel = (self.dname('pd') + '/' if nested else '') + self.name('dat', self.ext_for(idir, ['.txt', '.dat', '', '.sh', '.cfg']))
            if nested and r.random() < 0.4:
                rel = self.dname('pq') + '/' + rel
            if symlink_src and i == 0:
                # the link lives in the same directory as its target
                rel = posixpath.join(posixpath.dirname(rel), self.name('lnk', '.txt'))
                real_in_dir = posixpath.join(sd, posixpath.dirname(rel), 'real-' + str(self.u()) + '.txt')
                self.add_file(real_in_dir)
                self.add_symlink(posixpath.join(sd, rel), posixpath.basename(real_in_dir))
                follow = r.choice([True, False, None])
                self.features.add(f'data:symlink-source:follow={follow}')
                if follow is False and not use_rename and r.random() < 0.7:
                    # install the link's target beside it (otherwise the installed link dangles: known finding on re-install)
                    srcs.append(posixpath.relpath(real_in_dir, sd) if sd else real_in_dir)
                else:
                    self.features.add('data:symlink-source:installed-link-dangles' if follow is False else 'data:symlink-followed')
            else:
                self.add_file(posixpath.join(sd, rel))
            srcs.append(rel)
        base = idir if idir is not None else posixpath.join(self.opts['datadir'], pn)
        renames: T.Optional[T.List[str]] = None
        if use_rename:
            renames = [(self.dname('rn') + '/' if r.random() < 0.3 else '') + self.name('renamed', self.ext_for(idir, ['.txt', '', '.x'])) for _ in srcs]
            self.features.add('data:rename')
        mexpr, m = self.pick_mode()
        tag = self.pick_tag()
        placed = []
        for i, s in enumerate(srcs):
            d = posixpath.join(base, posixpath.dirname(s)) if preserve else base
            dest = posixpath.join(d, renames[i] if renames else posixpath.basename(s))
            full = posixpath.join(sd, s)
            t = tag or self.guess_tag(dest)
            if 'symlink' in self.files[full] and follow is False:
                ok = self.entry(dest, 'symlink', ri, 'data', sub, t, target=self.files[full]['symlink'])
            else:
                ok = self.entry(dest, 'file', ri, 'data', sub, t, src=self.real_src(full),
                                **self._file_mode_fields(m, self.src_mode(full)))
            if not ok:
                return None
            placed.append(dest)
        kws = []
        if idir is not None:
            kws.append(f'install_dir: {q(idir)}')
        if renames:
            kws.append(f'rename: {qlist(renames)}')
        if mexpr:
            kws.append(f'install_mode: {mexpr}')
        if tag:
            kws.append(f'install_tag: {q(tag)}')
        if preserve:
            kws.append('preserve_path: true')
            self.features.add('data:preserve_path')
        if follow is not None:
            kws.append(f'follow_symlinks: {"true" if follow else "false"}')
        if idir is None:
            self.features.add('data:default-dir' + (':subproject' if sub else ''))
        self.rules.append({'kind': 'data', 'sub': sub, 'srcs': srcs, 'install_dir': idir, 'rename': renames,
                           'preserve_path': preserve, 'mode': mexpr, 'tag': tag, 'follow_symlinks': follow})
        if r.random() < 0.3 and len(srcs) > 1:
            # `sources:` keyword form
            return f"install_data({q(srcs[0])}, sources: {qlist(srcs[1:])}, {', '.join(kws)})" if kws else \
                f"install_data({q(srcs[0])}, sources: {qlist(srcs[1:])})"
        return f"install_data({', '.join([q(s) for s in srcs] + kws)})"

    def rule_headers(self, sd: str, sub: str, pn: str) -> T.Optional[str]:
        r = self.rng
        ri = len(self.rules)
        k = r.randint(1, 3)
        preserve = r.random() < 0.35
        srcs = []
        for _ in range(k):
            nested = preserve and r.random() < 0.7
            rel = (self.dname('hd') + '/' if nested else '') + self.name('hdr', '.h')
            self.add_file(posixpath.join(sd, rel), executable=False)
            srcs.append(rel)
        x = r.random()
        subdir = idir = None
        if x < 0.35:
            subdir = r.choice(['my proj', 'p' + str(self.u()), 'a/b ü'])
            base = posixpath.join(self.opts['includedir'], subdir)
            self.features.add('headers:subdir')
        elif x < 0.6 and not preserve:
            idir = self.pick_dir(neutral_only=True)
            base = idir
            self.features.add('headers:install_dir')
        else:
            base = self.opts['includedir']
        mexpr, m = self.pick_mode()
        tag = self.pick_tag(0.25)
        for s in srcs:
            d = posixpath.join(base, posixpath.dirname(s)) if preserve else base
            dest = posixpath.join(d, posixpath.basename(s))
            full = posixpath.join(sd, s)
            if not self.entry(dest, 'file', ri, 'headers', sub, tag or 'devel', src=full,
                              **self._file_mode_fields(m, self.src_mode(full))):
                return None
        kws = []
        if subdir is not None:
            kws.append(f'subdir: {q(subdir)}')
        if idir is not None:
            kws.append(f'install_dir: {q(idir)}')
        if mexpr:
            kws.append(f'install_mode: {mexpr}')
        if tag:
            kws.append(f'install_tag: {q(tag)}')
        if preserve:
            kws.append('preserve_path: true')
            self.features.add('headers:preserve_path')
        self.rules.append({'kind': 'headers', 'sub': sub, 'srcs': srcs, 'subdir': subdir, 'install_dir': idir,
                           'preserve_path': preserve, 'mode': mexpr, 'tag': tag})
        return f"install_headers({', '.join([q(s) for s in srcs] + kws)})"

    def rule_man(self, sd: str, sub: str, pn: str) -> T.Optional[str]:
        r = self.rng
        ri = len(self.rules)
        k = r.randint(1, 2)
        x = r.random()
        locale = idir = None
        if x < 0.3:
            locale = r.choice(['fr', 'de', 'pt_BR'])
            self.features.add('man:locale')
        elif x < 0.5:
            idir = self.pick_dir(neutral_only=True)
            self.features.add('man:install_dir')
        mexpr, m = self.pick_mode(allow_owner=False)
        tag = self.pick_tag(0.2)
        srcs = []
        for _ in range(k):
            num = r.randint(1, 9)
            stem = self.name('page', plain=True)
            rel = f'{stem}.{locale}.{num}' if locale else f'{stem}.{num}'
            self.add_file(posixpath.join(sd, rel), executable=False)
            srcs.append(rel)
            if idir is not None:
                dest = posixpath.join(idir, rel)
            elif locale:
                dest = posixpath.join(self.opts['mandir'], locale, f'man{num}', f'{stem}.{num}')
            else:
                dest = posixpath.join(self.opts['mandir'], f'man{num}', rel)
            full = posixpath.join(sd, rel)
            if not self.entry(dest, 'file', ri, 'man', sub, tag or 'man', src=full,
                              **self._file_mode_fields(m, self.src_mode(full))):
                return None
        kws = []
        if locale:
            kws.append(f'locale: {q(locale)}')
        if idir is not None:
            kws.append(f'install_dir: {q(idir)}')
        if mexpr:
            kws.append(f'install_mode: {mexpr}')
        if tag:
            kws.append(f'install_tag: {q(tag)}')
        self.rules.append({'kind': 'man', 'sub': sub, 'srcs': srcs, 'locale': locale, 'install_dir': idir, 'mode': mexpr, 'tag': tag})
        return f"install_man({', '.join([q(s) for s in srcs] + kws)})"

    def rule_subdir(self, sd: str, sub: str, pn: str) -> T.Optional[str]:
        r = self.rng
        ri = len(self.rules)
        top = self.dname('tree')
        dirs: T.List[str] = []
        if r.random() < 0.7:
            dirs.append('inner')
            if r.random() < 0.5:
                dirs.append('inner/deep')
        if r.random() < 0.5:
            dirs.append('excl ' + str(self.u()))
        if r.random() < 0.4:
            dirs.append('empty d')
        files: T.List[str] = []
        for d in [''] + [x for x in dirs if not x.startswith('empty')]:
            for _ in range(r.randint(1, 2)):
                files.append(posixpath.join(d, self.name('tf', r.choice(['.txt', '', '.sh']))))
        follow: T.Optional[bool] = None
        links: T.Dict[str, str] = {}
        if r.random() < 0.25:
            tgt = r.choice(files)
            links[posixpath.join(posixpath.dirname(tgt), self.name('tl', '.lnk'))] = posixpath.basename(tgt)
            follow = r.choice([True, False, None])
            self.features.add(f'subdir:symlink:follow={follow}')
        nested_arg = 'inner' in dirs and r.random() < 0.2
        arg = posixpath.join(top, 'inner') if nested_arg else top
        root_in = 'inner' if nested_arg else ''
        for f in files:
            self.add_file(posixpath.join(sd, top, f))
        for ln, tg in links.items():
            self.add_symlink(posixpath.join(sd, top, ln), tg)
        for d in dirs:
            self.dirs[posixpath.join(sd, top, d)] = r.choice([0o755, 0o755, 0o700, 0o775])
        self.dirs[posixpath.join(sd, top)] = 0o755

        def inside(p: str) -> T.Optional[str]:
            """path relative to the installed directory, None if outside of it, '' for the directory itself"""
            if not root_in:
                return p
            if p == root_in:
                return ''
            return p[len(root_in) + 1:] if p.startswith(root_in + '/') else None
        in_dirs = [x for x in (inside(d) for d in dirs) if x]
        in_files = [x for x in (inside(f) for f in files) if x is not None]
        in_links = {T.cast(str, inside(k)): v for k, v in links.items() if inside(k) is not None}
        excl_files = [f for f in in_files if r.random() < 0.3] if r.random() < 0.5 else []
        excl_dirs = [d for d in in_dirs if r.random() < 0.4] if r.random() < 0.5 else []
        strip = r.random() < 0.4
        idir = self.pick_dir()
        mexpr, m = self.pick_mode()
        tag = self.pick_tag()
        base = idir if strip else posixpath.join(idir, posixpath.basename(arg))
        etag = tag or self.guess_tag(posixpath.join(idir, 'dummy'))

        def excluded(p: str) -> bool:
            return any(p == d or p.startswith(d + '/') for d in excl_dirs)
        dflt = {'mode': self.dir_mode(), 'uid': 0, 'gid': 0, 'mode_src': 'default'}
        members: T.List[T.Tuple[str, str, dict]] = []
        for d in in_dirs:
            if not excluded(d):
                members.append((posixpath.join(base, d), 'dir', dict(dflt)))
        for f in in_files:
            if f in excl_files or excluded(posixpath.dirname(f)):
                continue
            full = posixpath.join(sd, top, root_in, f)
            members.append((posixpath.join(base, f), 'file', {'src': full, **self._file_mode_fields(m, self.src_mode(full))}))
        for ln, tg in in_links.items():
            if excluded(posixpath.dirname(ln)):
                continue
            full = posixpath.join(sd, top, root_in, ln)
            if follow is False:
                members.append((posixpath.join(base, ln), 'symlink', {'target': tg}))
            else:
                members.append((posixpath.join(base, ln), 'file', {'src': self.real_src(full), **self._file_mode_fields(m, self.src_mode(full))}))
        lb = self.logical(base)
        if strip:
            # contents are merged into install_dir: the directory itself is shared, its members are leaves
            leaves = [self.logical(p) for p, _, _ in members if posixpath.dirname(self.logical(p)) == lb]
            if lb in self.taken or any(lb.startswith(t + '/') for t in self.taken):
                return None
        else:
            leaves = [lb]
        if any(self.collides(x) for x in leaves):
            return None
        self.taken.update(leaves)
        self.entries.append({'path': lb, 'type': 'dir', 'rule': ri, 'kind': 'subdir', 'subproject': sub, 'tag': etag, 'tree_root': True, **dflt})
        for p, typ, kw in members:
            self.entries.append({'path': self.logical(p), 'type': typ, 'rule': ri, 'kind': 'subdir', 'subproject': sub, 'tag': etag, **kw})
        kws = [f'install_dir: {q(idir)}']
        if strip:
            kws.append('strip_directory: true')
            self.features.add('subdir:strip_directory')
        if excl_files:
            kws.append(f'exclude_files: {qlist(excl_files)}')
            self.features.add('subdir:exclude_files')
        if excl_dirs:
            kws.append(f'exclude_directories: {qlist(excl_dirs)}')
            self.features.add('subdir:exclude_directories')
        if mexpr:
            kws.append(f'install_mode: {mexpr}')
        if tag:
            kws.append(f'install_tag: {q(tag)}')
        if follow is not None:
            kws.append(f'follow_symlinks: {"true" if follow else "false"}')
        if nested_arg:
            self.features.add('subdir:nested-arg')
        if 'empty d' in in_dirs:
            self.features.add('subdir:empty-dir-inside')
        self.rules.append({'kind': 'subdir', 'sub': sub, 'arg': arg, 'install_dir': idir, 'strip_directory': strip,
                           'exclude_files': excl_files, 'exclude_directories': excl_dirs, 'mode': mexpr, 'tag': tag,
                           'follow_symlinks': follow})
        return f"install_subdir({', '.join([q(arg)] + kws)})"

    def rule_emptydir(self, sd: str, sub: str, pn: str) -> T.Optional[str]:
        r = self.rng
        ri = len(self.rules)
        path = r.choice(['var/', 'var/lib/', self.opts['datadir'] + '/', '/var/cache/c11-e/', '/srv/c11-ë/']) + self.dname('empty')
        if r.random() < 0.3:
            path += '/' + self.dname('in')
        mexpr, m = self.pick_mode()
        tag = self.pick_tag()
        if m is None:
            f = {'mode': self.dir_mode(), 'uid': 0, 'gid': 0, 'mode_src': 'default'}
        else:
            f = {'mode': m['perms'] if m['perms'] is not None else self.dir_mode(), 'uid': m['uid'] or 0, 'gid': m['gid'] or 0,
                 'mode_src': 'explicit' if m['perms'] is not None else 'default'}
        if not self.entry(path, 'dir', ri, 'emptydir', sub, tag, **f):
            return None
        kws = []
        if mexpr:
            kws.append(f'install_mode: {mexpr}')
        if tag:
            kws.append(f'install_tag: {q(tag)}')
        self.rules.append({'kind': 'emptydir', 'sub': sub, 'path': path, 'mode': mexpr, 'tag': tag})
        return f"install_emptydir({', '.join([q(path)] + kws)})"

    def rule_symlink(self, sd: str, sub: str, pn: str) -> T.Optional[str]:
        r = self.rng
        ri = len(self.rules)
        name = self.name('link', r.choice(['', '.so', '.txt']))
        idir = self.pick_dir(neutral_only=True)
        files = [e for e in self.entries if e['type'] == 'file']
        x = r.random()
        if x < 0.3 and files:
            target = files[-1]['path']                      # absolute path of something installed
        elif x < 0.6:
            target = r.choice(['../x y', 'sibling', '../../ü/t', 'a/b/c', '..', '.'])
        else:
            target = r.choice(['/abs/t', '/nonexistent dir/ü', '/etc/passwd', '/', '/usr'])
        tag = self.pick_tag()
        if not self.entry(posixpath.join(idir, name), 'symlink', ri, 'symlink', sub, tag, target=target):
            return None
        kws = [f'pointing_to: {q(target)}', f'install_dir: {q(idir)}']
        if tag:
            kws.append(f'install_tag: {q(tag)}')
        self.features.add('symlink:' + ('absolute-target' if target.startswith('/') else 'relative-target'))
        self.rules.append({'kind': 'symlink', 'sub': sub, 'name': name, 'target': target, 'install_dir': idir, 'tag': tag})
        return f"install_symlink({', '.join([q(name)] + kws)})"

    def rule_configure(self, sd: str, sub: str, pn: str) -> T.Optional[str]:
        r = self.rng
        ri = len(self.rules)
        idir = self.pick_dir()
        out = self.name('conf', self.ext_for(idir, ['.h', '.ini', '.cfg']), safe=True)
        mexpr, m = self.pick_mode()
        tag = self.pick_tag()
        dest = posixpath.join(idir, out)
        if not self.entry(dest, 'file', ri, 'configure', sub, tag or self.guess_tag(dest), src='build:' + posixpath.join(sd, out),
                          **self._file_mode_fields(m, 0o644)):
            return None
        kws = [f'output: {q(out)}', f"configuration: {{'K{self.u()}': {r.randint(0, 99)}, 'S': {q('v ' + str(self.u()))}}}",
               'install: true', f'install_dir: {q(idir)}']
        if mexpr:
            kws.append(f'install_mode: {mexpr}')
        if tag:
            kws.append(f'install_tag: {q(tag)}')
        self.rules.append({'kind': 'configure', 'sub': sub, 'output': out, 'install_dir': idir, 'mode': mexpr, 'tag': tag})
        return f"configure_file({', '.join(kws)})"

    def rule_custom(self, sd: str, sub: str, pn: str) -> T.Optional[str]:
        r = self.rng
        ri = len(self.rules)
        n = r.randint(1, 3)
        make_x = r.random() < 0.3
        per_output = n > 1 and r.random() < 0.6
        if per_output:
            idirs: T.List[T.Union[str, bool]] = [self.pick_dir() if r.random() < 0.7 else False for _ in range(n)]
            if all(d is False for d in idirs):
                idirs[0] = self.pick_dir()
            self.features.add('custom:install_dir-list' + ('+false' if False in idirs else ''))
        else:
            idirs = [self.pick_dir()] * n
        outs = [self.name('gen', self.ext_for(d if isinstance(d, str) else None, ['.txt', '.dat', '.bin']), safe=True) for d in idirs]
        mexpr, m = self.pick_mode()
        tags: T.Optional[T.List[T.Optional[str]]] = None
        single_tag = False
        x = r.random()
        if x < 0.35:
            tags = [self.pick_tag(0.8) for _ in outs]
            self.features.add('custom:install_tag-list')
        elif x < 0.5:
            tags = [r.choice(TAGS)] * n   # "If only one tag is specified, it is assumed that all outputs have the same tag"
            single_tag = True
            self.features.add('custom:install_tag-single')
        for i, (o, d) in enumerate(zip(outs, idirs)):
            if d is False:
                continue
            assert isinstance(d, str)
            dest = posixpath.join(d, o)
            t = (tags[i] if tags else None) or self.guess_tag(dest)
            smode = 0o755 if (make_x and i == 0) else 0o644
            if not self.entry(dest, 'file', ri, 'custom', sub, t, src='build:' + posixpath.join(sd, o),
                              **self._file_mode_fields(m, smode)):
                return None
        script = 'for f in "$@"; do echo "generated $f" > "$f"; done' + ('; chmod 755 "$1"' if make_x else '')
        kws = [f'output: {qlist(outs)}', f"command: ['sh', '-c', {q(script)}, 'sh', '@OUTPUT@']", 'install: true']
        if per_output:
            kws.append('install_dir: [' + ', '.join('false' if d is False else q(T.cast(str, d)) for d in idirs) + ']')
        else:
            kws.append(f'install_dir: {q(T.cast(str, idirs[0]))}')
        if mexpr:
            kws.append(f'install_mode: {mexpr}')
        if tags and single_tag:
            kws.append(f'install_tag: {q(T.cast(str, tags[0]))}')
        elif tags:
            kws.append('install_tag: [' + ', '.join('false' if t is None else q(t) for t in tags) + ']')
        self.rules.append({'kind': 'custom', 'sub': sub, 'outputs': outs, 'install_dirs': idirs, 'mode': mexpr, 'tags': tags, 'x': make_x})
        return f"custom_target({q('ct' + str(self.u()))}, {', '.join(kws)})"

    def rule_target(self, sd: str, sub: str, pn: str) -> T.Optional[str]:
        """executable / static_library / shared_library built from tiny C sources."""
        r = self.rng
        ri = len(self.rules)
        what = r.choice(['exe', 'exe', 'static', 'shared', 'shared'])
        tname = 't' + r.choice(['', 'ü', '-x', '+', '.y']) + str(self.u())
        csrc = f'src{self.u()}.c'
        idir = self.pick_dir(neutral_only=True) if r.random() < 0.3 else None
        mexpr, m = self.pick_mode()
        tag = self.pick_tag(0.25)
        kws = [q(csrc), 'install: true']
        if idir is not None:
            kws.append(f'install_dir: {q(idir)}')
            self.features.add('target:install_dir')
        if mexpr:
            kws.append(f'install_mode: {mexpr}')
        if tag:
            kws.append(f'install_tag: {q(tag)}')
        ok = True
        if what == 'exe':
            self.add_file(posixpath.join(sd, csrc), executable=False, content=f'int main(void) {{ return {self.u() % 7}; }}\n')
            d = idir if idir is not None else self.opts['bindir']
            ok = self.entry(posixpath.join(d, tname), 'file', ri, 'exe', sub, tag or 'runtime', src='build:' + posixpath.join(sd, tname),
                            content='elf', can_strip=True, **self._file_mode_fields(m, 0o755))
            stmt = f"executable({', '.join([q(tname)] + kws)})"
        elif what == 'static':
            self.add_file(posixpath.join(sd, csrc), executable=False, content=f'int f{self.u()}(void) {{ return 1; }}\n')
            d = idir if idir is not None else self.opts['libdir']
            fn = f'lib{tname}.a'
            ok = self.entry(posixpath.join(d, fn), 'file', ri, 'static', sub, tag or 'devel', src='build:' + posixpath.join(sd, fn),
                            **self._file_mode_fields(m, 0o644))
            stmt = f"static_library({', '.join([q(tname)] + kws)})"
        else:
            self.add_file(posixpath.join(sd, csrc), executable=False, content=f'int g{self.u()}(void) {{ return 2; }}\n')
            d = idir if idir is not None else self.opts['libdir']
            ver, sov = r.choice([(None, None), ('1.2.3', None), ('1.2.3', '5'), (None, '4'), ('7', None)])
            base = f'lib{tname}.so'
            if ver:
                kws.append(f'version: {q(ver)}')
            if sov:
                kws.append(f'soversion: {q(sov)}')
            eff_sov = sov or (ver.split('.')[0] if ver else None)
            real = base + ('.' + ver if ver else ('.' + sov if sov else ''))
            ok = self.entry(posixpath.join(d, real), 'file', ri, 'shared', sub, tag or 'runtime', src='build:' + posixpath.join(sd, real),
                            content='elf', can_strip=True, **self._file_mode_fields(m, 0o755))
            # documented aliases (reference manual: shared_library version/soversion); their tags are not documented
            if ok and eff_sov:
                so_name = base + '.' + eff_sov
                last = real
                if ver and ver != eff_sov:
                    ok = self.entry(posixpath.join(d, so_name), 'symlink', ri, 'shared-alias', sub, tag or '?', target=real)
                    last = so_name
                ok = ok and self.entry(posixpath.join(d, base), 'symlink', ri, 'shared-alias', sub, tag or '?', target=last)
                self.features.add('shared:aliases')
            stmt = f"shared_library({', '.join([q(tname)] + kws)})"
        if not ok:
            return None
        self.features.add('target:' + what)
        self.rules.append({'kind': what, 'sub': sub, 'name': tname, 'install_dir': idir, 'mode': mexpr, 'tag': tag})
        return stmt

    def rule_script(self, sd: str, sub: str, pn: str) -> T.Optional[str]:
        """meson.add_install_script: creates one file below the prefix (not logged, not removed by uninstall)."""
        ri = len(self.rules)
        sname = f'inst{self.u()}.sh'
        made = posixpath.join(self.opts['datadir'], f'script made {self.u()}.txt')
        self.add_file(posixpath.join(sd, sname), executable=True, content=(
            '#!/bin/sh\nset -e\n'
            f'd="$MESON_INSTALL_DESTDIR_PREFIX/{self.opts["datadir"]}"\n'
            'mkdir -p "$d"\n'
            f'echo made > "$d/{posixpath.basename(made)}"\n'))
        tag = self.pick_tag(0.3)
        if not self.entry(made, 'file', ri, 'script', sub, tag, src=None, content='any', mode=None, uid=0, gid=0, mode_src='script', by_script=True):
            return None
        self.features.add('install_script')
        self.rules.append({'kind': 'script', 'sub': sub, 'script': sname, 'tag': tag})
        return f"meson.add_install_script({q(sname)}" + (f", install_tag: {q(tag)})" if tag else ')')


KINDS_DATA = ['data', 'data', 'data', 'headers', 'headers', 'man', 'subdir', 'subdir', 'emptydir', 'symlink', 'configure']


GHOST = 'opt'
GHOST_MARK = 'c11-failed-subproject-declared-all-its-rules'
# how the parent asks for the optional subproject -> statement ({n} = subproject name, {d} = dependency name)
GHOST_CALLERS = {
    'subproject-required-false': "subproject('{n}', required: false)",
    'dependency-fallback-list': "dependency('{d}', fallback: ['{n}', 'opt_dep'], required: false)",
    'dependency-fallback-name': "dependency('{d}', fallback: '{n}', required: false)",
    'dependency-wrap-provide': "dependency('{d}', required: false, allow_fallback: true)",
    'subproject-version-mismatch': "subproject('{n}', required: false, version: '>=9.1')",
}
# how the subproject fails AFTER having declared its rules -> statement
GHOST_FAILURES = {
    'error': "error('the optional subproject gives up after declaring its install rules')",
    'assert': "assert(1 == 2, 'the optional subproject cannot be built here')",
    'missing-dependency': "dependency('c11-surely-missing-dependency-xyz')",
    'missing-program': "find_program('c11-surely-missing-program-xyz')",
}


def add_failed_subproject(g: Gen, seed: T.Any, kind: str, body: T.List[str], force: T.Optional[T.Tuple[str, str]] = None,
                          name: str = GHOST) -> T.Optional[dict]:
    """Maybe add an optional subproject `name` that declares install rules of every kind and then fails
    (error(), failed assert, missing required dependency/program, or the version the caller asks for is not met).
    The reference manual: a subproject that is not required and fails is "not found"/disabled - it is not part of the build,
    so the expected tree does not change.  What it declared is kept as `ghost.entries` (to name the mechanism when it shows up).
    Uses its own random stream; appends the caller statement to `body` at a random position."""
    gr = random.Random(f'c11ghost:{seed}:{name}')
    if force is None and gr.random() >= 0.45:
        return None
    caller, failure = force or (gr.choice(sorted(GHOST_CALLERS)), gr.choice(sorted(GHOST_FAILURES)))
    version: T.Optional[str] = gr.choice(['1.0', '9.0', None])
    if caller == 'subproject-version-mismatch':
        failure = 'version-undefined' if version is None else 'version-too-old'
    sd = f'subprojects/{name}'
    dep = f'c11-{name}-nodep'
    pn = gr.choice([name, name + ' pröj'])
    kinds = ['data', 'headers', 'man', 'emptydir', 'symlink', 'subdir', 'configure', 'data', 'script']
    if kind in ('custom', 'c'):
        kinds.append('custom')
    if kind == 'c':
        kinds.append('target')
    gr.shuffle(kinds)
    main_rng, g.rng = g.rng, gr
    feats = set(g.features)
    n0, r0 = len(g.entries), len(g.rules)
    stmts: T.List[str] = []
    declared: T.List[str] = []
    try:
        for k in kinds[:gr.randint(4, len(kinds))]:
            snap = (dict(g.files), dict(g.dirs), list(g.entries), set(g.taken), len(g.rules))
            stmt = getattr(g, 'rule_' + k)(sd, name, pn)
            if stmt is None:
                g.files, g.dirs, g.entries, g.taken = snap[0], snap[1], snap[2], snap[3]
                del g.rules[snap[4]:]
                continue
            stmts.append(stmt)
            declared.append(k)
    finally:
        g.rng = main_rng
        g.features = feats
    ghost_entries = g.entries[n0:]
    ghost_rules = g.rules[r0:]
    del g.entries[n0:]
    del g.rules[r0:]
    if not ghost_entries:
        return None
    for e in ghost_entries:
        e['ghost_rule'] = e['rule'] - r0
        e['rule'] = None
    langs = ", 'c'" if 'target' in declared else ''
    head = f"project({q(pn)}{langs}" + (f", version: {q(version)}" if version else '') + ", meson_version: '>=1.3.0')"
    tail = [f"message('{GHOST_MARK}:{name}')"]
    if failure in GHOST_FAILURES:
        tail.append(GHOST_FAILURES[failure])
    tail.append("opt_dep = declare_dependency()")
    tail.append(f"meson.override_dependency('{dep}', opt_dep)")
    g.files[f'{sd}/meson.build'] = {'content': '\n'.join([head] + stmts + tail) + '\n', 'mode': 0o644}
    if caller == 'dependency-wrap-provide':
        g.files[f'subprojects/{name}.wrap'] = {'content': f'[wrap-file]\ndirectory = {name}\n\n[provide]\n{dep} = opt_dep\n', 'mode': 0o644}
    body.insert(gr.randint(0, len(body)), GHOST_CALLERS[caller].format(n=name, d=dep))
    g.features.add('failed-subproject')
    g.features.add('failed-subproject:caller:' + caller)
    g.features.add('failed-subproject:failure:' + failure)
    for k in declared:
        g.features.add('failed-subproject:declares:' + k)
    return {'name': name, 'caller': caller, 'failure': failure, 'declared': declared, 'entries': ghost_entries, 'rules': ghost_rules}


def gen_project(seed: T.Any, kind: str, n_rules: T.Optional[int] = None, coincide: bool = False) -> dict:
    """One project spec: source tree, meson options, rules, expected entries.
    coincide: some absolute dirs / the prefix start with the placeholder DD (resolve_destdir() before use)."""
    g = Gen(seed, kind, coincide)
    r = g.rng
    g.pick_options()
    g.projname = 'pröj ' + str(r.randint(1, 99)) if r.random() < 0.5 else 'proj' + str(r.randint(1, 99))
    g.sp_projname = r.choice(['sp', 'sub proj'])
    has_sp = r.random() < 0.6
    has_subdir = r.random() < 0.6
    sdname = r.choice(['sub dir', 'sd', 'dïr'])
    kinds = list(KINDS_DATA)
    if kind in ('custom', 'c'):
        kinds += ['custom', 'custom', 'custom']
    if kind == 'c':
        kinds += ['target'] * 5
    n = n_rules or r.randint(4, 10)
    blocks: T.Dict[str, T.List[str]] = {'root': [], 'subdir': [], 'sp': []}
    forced: T.List[str] = []
    if kind == 'custom':
        forced.append('custom')
    if kind == 'c':
        forced += ['target', 'target']
    if r.random() < 0.15:
        forced.append('script')
    tries = 0
    while sum(len(v) for v in blocks.values()) < n and tries < 6 * n:
        tries += 1
        k = forced.pop() if forced else r.choice(kinds)
        where = 'root'
        x = r.random()
        if has_sp and x < 0.25 and k not in ('script',):
            where = 'sp'
        elif has_subdir and x < 0.5 and k not in ('script',):
            where = 'subdir'
        if where == 'sp' and k == 'target':
            where = 'root'  # the subproject is language-less
        sd = {'root': '', 'subdir': sdname, 'sp': 'subprojects/sp'}[where]
        sub = 'sp' if where == 'sp' else ''
        pn = g.sp_projname if where == 'sp' else g.projname
        snap = (dict(g.files), dict(g.dirs), list(g.entries), set(g.taken), len(g.rules))
        stmt = getattr(g, 'rule_' + k)(sd, sub, pn)
        if stmt is None:
            # destination collision: roll back
            g.files, g.dirs, g.entries, g.taken = snap[0], snap[1], snap[2], snap[3]
            del g.rules[snap[4]:]
            continue
        blocks[where].append(stmt)
    langs = ", 'c'" if kind == 'c' else ''
    root = [f"project({q(g.projname)}{langs}, meson_version: '>=1.3.0')"]
    # Statements keep generation order inside a block; subdir()/subproject() calls are placed at random positions.
    body = list(blocks['root'])
    if blocks['subdir']:
        body.insert(r.randint(0, len(body)), f'subdir({q(sdname)})')
        g.files[posixpath.join(sdname, 'meson.build')] = {'content': '\n'.join(blocks['subdir']) + '\n', 'mode': 0o644}
        g.features.add('layout:subdir')
    if blocks['sp']:
        body.insert(r.randint(0, len(body)), "subproject('sp')")
        g.files['subprojects/sp/meson.build'] = {
            'content': f"project({q(g.sp_projname)}, meson_version: '>=1.3.0')\n" + '\n'.join(blocks['sp']) + '\n', 'mode': 0o644}
        g.features.add('layout:subproject')
    # an OPTIONAL subproject that declares install rules of every kind and THEN fails: it is not part of the build, so
    # none of its rules may be carried out (drawn from its own stream: the rest of the project is what it was without it)
    ghost = add_failed_subproject(g, seed, kind, body)
    # fault-injection helper (drawn last so that it does not disturb the rest of the project): an install script that
    # SIGKILLs the installing process when the harness asks for it, and does nothing otherwise
    has_killer = r.random() < 0.5
    if has_killer:
        g.files[KILLER] = {'content': KILLER_SH, 'mode': 0o755}
        body.append(f'meson.add_install_script({q(KILLER)})')
        g.features.add('install_script:killer')
    g.files['meson.build'] = {'content': '\n'.join(root + body) + '\n', 'mode': 0o644}
    tags = sorted({e['tag'] for e in g.entries if e['tag'] not in (None, '?')})
    return {
        'seed': str(seed), 'kind': kind, 'backend': 'none' if kind == 'data' else 'ninja',
        'project_name': g.projname, 'options': g.opts, 'files': g.files, 'dirs': g.dirs, 'rules': g.rules,
        'entries': g.entries, 'features': sorted(g.features), 'tags': tags,
        'has_subproject': bool(blocks['sp']), 'needs_build': kind != 'data', 'has_killer': has_killer, 'coincide': coincide,
        'ghosts': [ghost] if ghost else [], 'subprojects_in_build': ['sp'] if blocks['sp'] else [],
    }


def setup_args(spec: dict) -> T.List[str]:
    o = spec['options']
    a = [f'--backend={spec["backend"]}', f'--prefix={o["prefix"]}', f'--bindir={o["bindir"]}', f'--libdir={o["libdir"]}',
         f'--includedir={o["includedir"]}', f'--datadir={o["datadir"]}', f'--mandir={o["mandir"]}', f'--localedir={o["localedir"]}']
    if o['install_umask'] != '022' or spec['seed'].endswith('7'):
        a.append(f'-Dinstall_umask={o["install_umask"]}')
    return a


def materialize(spec: dict, root: str) -> None:
    """Write the source tree (modes, symlinks, explicit directories)."""
    for rel, mode in sorted(spec['dirs'].items()):
        os.makedirs(os.path.join(root, rel), exist_ok=True)
    for rel, f in spec['files'].items():
        p = os.path.join(root, rel)
        os.makedirs(os.path.dirname(p), exist_ok=True)
        if 'symlink' in f:
            os.symlink(f['symlink'], p)
        else:
            with open(p, 'w', encoding='utf-8', newline='') as fh:
                fh.write(f['content'])
            os.chmod(p, f['mode'])
    for rel, mode in sorted(spec['dirs'].items(), reverse=True):
        os.chmod(os.path.join(root, rel), mode)
    # sources older than "now" so that --only-changed comparisons are meaningful
    old = 1_600_000_000
    for dp, dn, fn in os.walk(root):
        for n in fn:
            try:
                os.utime(os.path.join(dp, n), (old, old), follow_symlinks=False)
            except (NotImplementedError, OSError):
                pass


def expected_tree(spec: dict, tags: T.Optional[T.Sequence[str]] = None, skip: T.Optional[str] = None,
                  scripts: bool = True) -> T.Tuple[T.Dict[str, dict], T.Set[str]]:
    """-> ({logical path: expected object}, optional paths).

    Selected entries plus all their ancestor directories ('/' excluded).  `optional` holds paths whose presence
    is not fixed by the documentation for this selection (alias symlinks of shared libraries under --tags)."""
    umask = None if spec['options']['install_umask'] == 'preserve' else int(spec['options']['install_umask'], 8)
    dmode = None if umask is None else 0o777 & ~umask
    sel: T.List[dict] = []
    optional: T.Set[str] = set()
    for e in spec['entries']:
        if skip is not None and e['subproject'] and (skip == '*' or e['subproject'] in skip.split(',')):
            continue
        if e.get('by_script') and not scripts:
            continue
        if tags is not None:
            if e['tag'] == '?':
                optional.add(e['path'])
                d = posixpath.dirname(e['path'])
                while d != '/':
                    optional.add(d)   # ... and the directories it needs
                    d = posixpath.dirname(d)
                continue
            if e['tag'] not in tags:
                continue
        sel.append(e)
    tree: T.Dict[str, dict] = {}
    for e in sel:
        tree[e['path']] = e
    for e in sorted(sel, key=lambda e: bool(e.get('by_script'))):
        d = posixpath.dirname(e['path'])
        while d != '/':
            if d not in tree:
                bs = bool(e.get('by_script'))
                tree[d] = {'path': d, 'type': 'dir', 'mode': None if bs else dmode, 'uid': 0, 'gid': 0, 'kind': 'ancestor', 'rule': e.get('rule'),
                           'mode_src': 'script' if bs else 'ancestor', 'by_script': bs}
            d = posixpath.dirname(d)
    return tree, optional


def directed_probes() -> T.List[dict]:
    """Hand-written specs for the hazards (features that deviate on the unchanged tree / documented corner cases)."""
    probes = []

    def base(name: str, stmts: T.List[str], files: T.Dict[str, dict], entries: T.List[dict], rule: dict, dirs: T.Optional[dict] = None) -> dict:
        fs = dict(files)
        fs['meson.build'] = {'content': "project('probe', meson_version: '>=1.3.0')\n" + '\n'.join(stmts) + '\n', 'mode': 0o644}
        opts = {'prefix': '/usr', 'bindir': 'bin', 'libdir': 'lib', 'includedir': 'include', 'datadir': 'share',
                'mandir': 'share/man', 'localedir': 'share/locale', 'install_umask': '022'}
        ents = []
        for e in entries:
            d = {'rule': 0, 'kind': 'data', 'subproject': '', 'tag': None, 'mode': 0o644, 'uid': 0, 'gid': 0, 'mode_src': 'default', 'type': 'file'}
            d.update(e)
            ents.append(d)
        return {'seed': 'probe:' + name, 'probe': name, 'kind': 'data', 'backend': 'none', 'project_name': 'probe', 'options': opts,
                'files': fs, 'dirs': dirs or {}, 'rules': [rule], 'entries': ents, 'features': ['probe:' + name],
                'tags': [], 'has_subproject': False, 'needs_build': False}
    f = lambda c: {'content': c, 'mode': 0o644}  # noqa: E731
    # F1: rename + preserve_path over several source directories: "renames each source file into corresponding file"
    probes.append(base('rename-preserve-path',
                       ["install_data('a.txt', 'sub/b.txt', rename: ['x.txt', 'y.txt'], install_dir: 'share/r', preserve_path: true)"],
                       {'a.txt': f('a\n'), 'sub/b.txt': f('b\n')},
                       [{'path': '/usr/share/r/x.txt', 'src': 'a.txt'}, {'path': '/usr/share/r/sub/y.txt', 'src': 'sub/b.txt'}],
                       {'kind': 'data', 'sub': '', 'srcs': ['a.txt', 'sub/b.txt'], 'install_dir': 'share/r', 'rename': ['x.txt', 'y.txt'],
                        'preserve_path': True}))
    # F2: install_headers(install_dir:, preserve_path: true): child directories must not be stripped
    probes.append(base('headers-install_dir-preserve-path',
                       ["install_headers('inc/x/h.h', 'top.h', install_dir: 'myinc', preserve_path: true)"],
                       {'inc/x/h.h': f('h\n'), 'top.h': f('t\n')},
                       [{'path': '/usr/myinc/inc/x/h.h', 'src': 'inc/x/h.h', 'kind': 'headers', 'tag': 'devel'},
                        {'path': '/usr/myinc/top.h', 'src': 'top.h', 'kind': 'headers', 'tag': 'devel'}],
                       {'kind': 'headers', 'sub': '', 'srcs': ['inc/x/h.h', 'top.h'], 'install_dir': 'myinc', 'subdir': None, 'preserve_path': True}))
    # F3: a file name ending in a blank must be uninstallable (the log names it; uninstall strips the line)
    probes.append(base('trailing-blank-name',
                       ["install_data('a.txt', rename: 'trail ', install_dir: 'share/t')"],
                       {'a.txt': f('a\n')},
                       [{'path': '/usr/share/t/trail ', 'src': 'a.txt'}],
                       {'kind': 'data', 'sub': '', 'srcs': ['a.txt'], 'install_dir': 'share/t', 'rename': ['trail '], 'preserve_path': False}))
    # F4: install_subdir over a tree containing a symlink to a directory (follow_symlinks default) must not crash
    p4 = base('subdir-dir-symlink',
              ["install_subdir('tree', install_dir: 'share/s')"],
              {'tree/real/f.txt': f('f\n'), 'tree/ldir': {'symlink': 'real'}},
              [{'path': '/usr/share/s/tree', 'type': 'dir', 'mode': 0o755, 'kind': 'subdir'},
               {'path': '/usr/share/s/tree/real', 'type': 'dir', 'mode': 0o755, 'kind': 'subdir'},
               {'path': '/usr/share/s/tree/real/f.txt', 'src': 'tree/real/f.txt', 'kind': 'subdir'},
               {'path': '/usr/share/s/tree/ldir', 'type': 'any', 'kind': 'subdir'}],
              {'kind': 'subdir', 'sub': '', 'arg': 'tree', 'install_dir': 'share/s', 'dir_symlink': True})
    probes.append(p4)
    # F5: installing twice: a copied symlink (follow_symlinks: false) whose target is not installed beside it
    p5 = base('reinstall-dangling-symlink',
              ["install_data('lnk.txt', install_dir: 'share/l', follow_symlinks: false)"],
              {'real.txt': f('r\n'), 'lnk.txt': {'symlink': 'real.txt'}},
              [{'path': '/usr/share/l/lnk.txt', 'type': 'symlink', 'target': 'real.txt'}],
              {'kind': 'data', 'sub': '', 'srcs': ['lnk.txt'], 'install_dir': 'share/l', 'rename': None, 'preserve_path': False,
               'follow_symlinks': False})
    p5['histories'] = ['repeat']
    probes.append(p5)
    # F6: a source symlink whose target vanished after configuring (dangling at install time) + rename
    p6 = base('dangling-symlink-rename',
              ["install_data('lnk.txt', rename: 'renamed.txt', install_dir: 'share/dg')"],
              {'real.txt': f('r\n'), 'lnk.txt': {'symlink': 'real.txt'}},
              [{'path': '/usr/share/dg/renamed.txt', 'src': 'real.txt'}],
              {'kind': 'data', 'sub': '', 'srcs': ['lnk.txt'], 'install_dir': 'share/dg', 'rename': ['renamed.txt'], 'preserve_path': False,
               'follow_symlinks': None})
    p6['histories'] = ['abort=source-vanished']
    probes.append(p6)
    # B1: baseline (must hold): features the random quick workload may not draw in a given seed - symlinks to existing
    # directories ('.', '..', '/'), default tags of man/headers/bindir files, untagged data, subproject + tags, excludes
    stm = [
        "install_symlink('to-dot', pointing_to: '.', install_dir: 'share/ln')",
        "install_symlink('to-root', pointing_to: '/', install_dir: 'share/ln')",
        "install_symlink('to-parent', pointing_to: '..', install_dir: 'share/ln/deeper')",
        "install_symlink('dangling', pointing_to: 'nowhere/x', install_dir: 'share/ln')",
        "install_man('p.1')",
        "install_headers('h.h')",
        "install_data('d.txt', install_dir: 'share/b1')",
        "install_data('e.txt', install_dir: 'bin')",
        "install_emptydir('var/b1 empty', install_mode: 'rwxrwx---')",
        "install_subdir('t', install_dir: 'share/b1t', exclude_directories: ['x'], exclude_files: ['skip.txt'])",
        "install_data('hand.pc', install_dir: 'lib/pkgconfig')",
        "install_data('libarch.a', 'notes.txt', install_dir: 'lib')",
        "install_data('libplug.so', install_dir: 'lib/b1 plugins')",
        "install_data('d.txt', 'hand.pc', rename: ['from-txt.pc', 'from-pc.txt'], install_dir: 'lib/b1 ren')",
        "configure_file(output: 'gen.pc', configuration: {'V': 1}, install: true, install_dir: 'lib/pkgconfig')",
        "subproject('sp')",
    ]
    fl = {'p.1': f('p\n'), 'h.h': f('h\n'), 'd.txt': f('d\n'), 'e.txt': f('e\n'), 't/keep.txt': f('k\n'), 't/skip.txt': f('s\n'),
          't/x/no.txt': f('n\n'), 't/y/yes.txt': f('y\n'),
          'hand.pc': f('Name: hand\n'), 'libarch.a': f('!<arch>\n'), 'notes.txt': f('n\n'), 'libplug.so': f('so\n'),
          'subprojects/sp/meson.build': f("project('sp')\ninstall_data('s.txt', install_dir: 'share/b1sp', install_tag: 'man')\n"),
          'subprojects/sp/s.txt': f('s\n')}
    L = lambda name, tgt, d='share/ln': {'path': f'/usr/{d}/{name}', 'type': 'symlink', 'target': tgt, 'kind': 'symlink', 'rule': 0}  # noqa: E731
    ent = [L('to-dot', '.'), L('to-root', '/'), L('to-parent', '..', 'share/ln/deeper'), L('dangling', 'nowhere/x'),
           {'path': '/usr/share/man/man1/p.1', 'src': 'p.1', 'kind': 'man', 'tag': 'man'},
           {'path': '/usr/include/h.h', 'src': 'h.h', 'kind': 'headers', 'tag': 'devel'},
           {'path': '/usr/share/b1/d.txt', 'src': 'd.txt'},
           {'path': '/usr/bin/e.txt', 'src': 'e.txt', 'tag': 'runtime'},
           {'path': '/usr/var/b1 empty', 'type': 'dir', 'kind': 'emptydir', 'mode': 0o770, 'mode_src': 'explicit'},
           {'path': '/usr/share/b1t/t', 'type': 'dir', 'kind': 'subdir', 'mode': 0o755, 'tree_root': True},
           {'path': '/usr/share/b1t/t/keep.txt', 'src': 't/keep.txt', 'kind': 'subdir'},
           {'path': '/usr/share/b1t/t/y', 'type': 'dir', 'kind': 'subdir', 'mode': 0o755},
           {'path': '/usr/share/b1t/t/y/yes.txt', 'src': 't/y/yes.txt', 'kind': 'subdir'},
           {'path': '/usr/share/b1sp/s.txt', 'src': 'subprojects/sp/s.txt', 'subproject': 'sp', 'tag': 'man'},
           # Installing.md: files installed into libdir with .a/.pc are devel, with .so/.dll runtime, others untagged;
           # the installed (renamed) name decides
           {'path': '/usr/lib/pkgconfig/hand.pc', 'src': 'hand.pc', 'tag': 'devel'},
           {'path': '/usr/lib/libarch.a', 'src': 'libarch.a', 'tag': 'devel'},
           {'path': '/usr/lib/notes.txt', 'src': 'notes.txt', 'tag': None},
           {'path': '/usr/lib/b1 plugins/libplug.so', 'src': 'libplug.so', 'tag': 'runtime'},
           {'path': '/usr/lib/b1 ren/from-txt.pc', 'src': 'd.txt', 'tag': 'devel'},
           {'path': '/usr/lib/b1 ren/from-pc.txt', 'src': 'hand.pc', 'tag': None},
           {'path': '/usr/lib/pkgconfig/gen.pc', 'src': 'build:gen.pc', 'kind': 'configure', 'tag': 'devel'}]
    b1 = base('baseline', stm, fl, ent, {'kind': 'baseline', 'sub': ''})
    b1['histories'] = ['fresh', 'tags=man', 'tags=runtime,devel', 'tags=devel', 'tags=runtime', 'skip=sp', 'repeat']
    b1['tags'] = ['devel', 'man', 'runtime']
    b1['has_subproject'] = True
    b1['subprojects_in_build'] = ['sp']
    probes.append(b1)
    # B2: baseline (must hold): one parent rule + optional subprojects asked for in every way, each declaring install rules
    # of every kind before failing in a different way: exactly the parent's rule is installed / planned / logged
    g = Gen('probe:failed-optional-subprojects', 'data')
    g.opts = {'prefix': '/usr', 'bindir': 'bin', 'libdir': 'lib', 'includedir': 'include', 'datadir': 'share',
              'mandir': 'share/man', 'localedir': 'share/locale', 'install_umask': '022'}
    g.projname = 'probe'
    g.files['a.txt'] = {'content': 'a\n', 'mode': 0o644}
    g.files['z.txt'] = {'content': 'z\n', 'mode': 0o644}
    g.entry('share/p/a.txt', 'file', 0, 'data', '', None, src='a.txt', mode=0o644, uid=0, gid=0, mode_src='default')
    g.entry('share/p/z.txt', 'file', 0, 'data', '', None, src='z.txt', mode=0o644, uid=0, gid=0, mode_src='default')
    body = ["install_data('a.txt', install_dir: 'share/p')", "install_data('z.txt', install_dir: 'share/p')"]
    ghosts = []
    fails = sorted(GHOST_FAILURES)
    for i, caller in enumerate(sorted(GHOST_CALLERS)):
        gh = add_failed_subproject(g, 'probe', 'data', body, force=(caller, fails[i % len(fails)]), name=f'opt{i}')
        if gh:
            ghosts.append(gh)
    g.files['meson.build'] = {'content': "project('probe', meson_version: '>=1.3.0')\n" + '\n'.join(body) + '\n', 'mode': 0o644}
    probes.append({'seed': 'probe:failed-optional-subprojects', 'probe': 'failed-optional-subprojects', 'kind': 'data', 'backend': 'none',
                   'project_name': 'probe', 'options': g.opts, 'files': g.files, 'dirs': g.dirs,
                   'rules': [{'kind': 'data', 'sub': '', 'srcs': ['a.txt', 'z.txt'], 'install_dir': 'share/p', 'rename': None, 'preserve_path': False}],
                   'entries': g.entries, 'features': sorted(g.features), 'tags': [], 'has_subproject': False, 'needs_build': False,
                   'ghosts': ghosts, 'subprojects_in_build': [], 'histories': ['fresh', 'repeat']})
    return probes


def resolve_destdir(spec: dict, destdir: str) -> dict:
    """Replace the DESTDIR placeholder of a coincide project by the concrete (absolute, plain ASCII) DESTDIR path."""
    import json
    assert destdir.startswith('/') and '"' not in destdir and '\\' not in destdir
    out = json.loads(json.dumps(spec).replace(DD, destdir))
    # entries were normalised with the placeholder in place; do it again with the real text
    for e in out['entries']:
        e['path'] = posixpath.normpath(e['path'])
    return out


def gen_coincide(seed: int, tier: str, n: int) -> T.List[dict]:
    """n data-only projects whose absolute install dirs / prefix textually start with the DESTDIR they are installed under."""
    out = []
    i = 0
    while len(out) < n and i < 20 * n:
        sp = gen_project(f'{seed}:{tier}:coincide:{i}', 'data', coincide=True)
        i += 1
        if any(f.startswith('coincide:') for f in sp['features']):
            out.append(sp)
    return out


def gen_workload(seed: int, tier: str, n: int) -> T.List[dict]:
    """n project specs: half data-only (backend none), a quarter language-less with custom targets, a quarter C."""
    out = []
    for i in range(n):
        kind = ['data', 'c', 'data', 'custom'][i % 4]
        out.append(gen_project(f'{seed}:{tier}:{i}', kind))
    return out
