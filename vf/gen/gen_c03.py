"""C03 workload: projects whose every command position carries strings from a hostile alphabet, together
with the argv each started process must receive (the strings of the build definition after ONLY the four
established rewrites).  Imports nothing from mesonbuild.

A *plan* is a plain JSON-able dict (it is the replay witness as well):
  files        {relative path: text}            the source tree
  setup_args   extra `meson setup` arguments (-Dc_args=[...], -Dc_link_args=[...])
  rsp          configure with MESON_RSP_THRESHOLD=0 (compile/link edges go through response files)
  calib        the list of all strings as intended (checked against a configure-time run_command dump:
               proves the meson.build literals denote the intended values)
  cmd          {dumper id: {'pos', 'runs': [[argv]...], 'env': {DUMP_*}|None, 'stdin': text|None, 'kind'}}
  compile/link {target: [{'pos', 'b', 'e', 'args': [expected slice between the sentinels b and e]}]}
  strings      [(position, string)]             for the coverage matrix
"""
from __future__ import annotations

import os
import random
import re
import typing as T

DUMPER = os.path.join(os.path.dirname(os.path.dirname(os.path.dirname(os.path.abspath(__file__)))), 'tools', 'dumper.py')

# ---------------------------------------------------------------------------------- alphabet
ATOMS: T.Dict[str, T.List[str]] = {
    'space': [' '], 'tab': ['\t'], 'squote': ["'"], 'dquote': ['"'], 'backslash': ['\\'], 'dollar': ['$'],
    'backtick': ['`'], 'hash': ['#'], 'semi': [';'], 'amp': ['&'], 'pipe': ['|'], 'lt': ['<'], 'gt': ['>'],
    'star': ['*'], 'qmark': ['?'], 'lbracket': ['['], 'rbracket': [']'], 'lbrace': ['{'], 'rbrace': ['}'],
    'tilde': ['~'], 'bang': ['!'], 'percent': ['%'], 'equals': ['='], 'colon': [':'], 'comma': [','],
    'at': ['@'], 'dash': ['-'], 'empty': [''], 'newline': ['\n'], 'paren': ['(', ')'], 'caret': ['^'],
    'nonascii': ['\u00e9', '\u00df', '\u65e5\u672c', '\U0001f600', '\u00a0', '\u2028', '\u0416'],
    'control': ['\x01', '\x1b', '\x7f', '\x0b', '\x0c', '\x08'],
    'long': ['L'],
}
CLASSES = list(ATOMS)

# multi-character spellings known to matter to one of the layers (ninja `$`, /bin/sh, libiberty, argparse)
IDIOMS: T.Dict[str, T.List[str]] = {
    'space': ['a b', ' a', 'a ', '  ', 'a  b c'],
    'tab': ['a\tb', '\t'],
    'squote': ["it's", "'", "''", "'a b'", "a'$x'b", "'\\''"],
    'dquote': ['"', '"a b"', 'a"b', '"$x"', '\\"'],
    'backslash': ['a\\b', '\\', 'a\\', '\\\\', 'a\\ b', '\\n', "\\'", 'C:\\x\\y', '\\$x', 'a\\\\'],
    'dollar': ['$x', '$HOME', '${HOME}', '$(echo x)', '$$', '$', 'a$', '$in', '$out', '${out}', '$ ', '$:', ' $', '$1', '$?', '$((1+1))'],
    'backtick': ['`echo x`', '`', 'a`b'],
    'hash': ['#c', 'a #c', '#', 'a#b'],
    'semi': ['a;b', '; echo x', ';', ';;'],
    'amp': ['a&&b', '&', 'a & b', '&&x', 'x&&', '&& '],
    'pipe': ['| cat', '|', '||', 'a|b'],
    'lt': ['<x', '<', 'a<b', '<<E', '<&0'],
    'gt': ['> x', '>', '2>&1', '>>x', 'a>b'],
    'star': ['*', '*.c', 'a*', '/*x', '*/'],
    'qmark': ['?', 'a?', '????', '?*'],
    'lbracket': ['[a-z]*', '[', '[[', '[!a]'],
    'rbracket': [']', 'a]', '[]', ']]'],
    'lbrace': ['{a,b}', '{', '${', '{}'],
    'rbrace': ['}', 'a}', '{}}'],
    'tilde': ['~', '~/x', 'a~', '~root'],
    'bang': ['!', '!x', '!!', 'a!b'],
    'percent': ['%', '%s', '%%', '%PATH%', '%d%n'],
    'equals': ['a=b', '=', '=a', 'a=', 'A=1 B=2'],
    'colon': [':', 'a:b', '::', 'C:', ':a'],
    'comma': [',', 'a,b', ',,', 'a, b'],
    'at': ['@', '@@', 'x@y', '@x', 'x@'],
    'dash': ['-', '--', '-1', '- a', '-$q', '--capture', '--feed', '--unpickle', '-h'],
    'empty': [''],
    'newline': ['a\nb', '\n', 'a\n', '\nb', 'a\\\nb', 'a\n\nb', "'\n'"],
    'paren': ['(x)', '(', ')', '$(', 'a)b'],
    'caret': ['^', 'a^b', '^^'],
    'nonascii': ['\u00e9t\u00e9', 'na\u00efve caf\u00e9', '\u65e5\u672c\u8a9e', '\U0001f600', 'a\u00a0b', 'a\u2028b'],
    'control': ['a\x01b', '\x1b[31m', '\x7f', 'a\x0bb', 'a\x0cb', 'a\x08'],
    'long': [],
}

SAFE_WORDS = ['q', 'zx', 'k7', 'w', 'mm', 'v2']


def classes_of(s: str) -> T.Set[str]:
    out: T.Set[str] = set()
    if s == '':
        return {'empty'}
    for cls, atoms in ATOMS.items():
        if cls in ('dash', 'empty', 'long', 'nonascii', 'control'):
            continue
        if any(a in s for a in atoms):
            out.add(cls)
    if s.startswith('-'):
        out.add('dash')
    if len(s) >= 300:
        out.add('long')
    if any(ord(c) > 127 for c in s):
        out.add('nonascii')
    if any((ord(c) < 32 and c not in '\t\n') or ord(c) == 127 for c in s):
        out.add('control')
    return out


_TEMPLATE_RE = re.compile(r'@[A-Za-z_0-9]*@')


def _ok_everywhere(s: str) -> bool:
    """Strings the generator never produces: NUL (not an argv string), a lone CR (real ninja rejects it in a
    manifest, mini-ninja does not - out of the trusted base's reach), `@WORD@` shapes other than the
    placeholders placed deliberately (a lone `@` is fine)."""
    if '\0' in s or '\r' in s or s == '&&':
        return False
    if s.count('@') > 1 and _TEMPLATE_RE.search(s) and s != '@@':
        return False
    return True


_COMPILE_UNSAFE = re.compile(r'^-[A-Za-z]|^/[A-Za-z]|\.(a|so|lib|dll|dylib)(\.\d+)*$')


def compile_safe(s: str) -> bool:
    """A bare compile/link argument that C13's documented list handling (dedup / prepend / library grouping,
    keyed on -I -L -l -D -U -isystem -Wl, *.a *.so ...) does not touch."""
    return not _COMPILE_UNSAFE.search(s)


_GCC_OK: T.Dict[str, bool] = {}


def gcc_accepts_define(value: str) -> bool:
    """-Dc_args / -Dc_link_args values are shown to the REAL compiler by meson's sanity check at configure
    time, so those two positions only carry `-DNAME=<value>` whose value the preprocessor accepts
    (e.g. `##` at an end of a macro body or an unterminated comment is a hard error)."""
    if value not in _GCC_OK:
        import subprocess
        try:
            p = subprocess.run(['gcc', '-fsyntax-only', '-x', 'c', '/dev/null', '-DC03PROBE=' + value],
                               stdin=subprocess.DEVNULL, stdout=subprocess.DEVNULL, stderr=subprocess.DEVNULL, timeout=30)
            _GCC_OK[value] = p.returncode == 0
        except (OSError, subprocess.TimeoutExpired):
            _GCC_OK[value] = False
    return _GCC_OK[value]


_HAVE_CPP: T.List[bool] = []


def have_cpp() -> bool:
    """a C++ compiler exists, so projects can name two languages in add_*_arguments(language: [...])"""
    if not _HAVE_CPP:
        import shutil
        _HAVE_CPP.append(bool(shutil.which('c++') and shutil.which('g++')))
    return _HAVE_CPP[0]


def make_string(rng: random.Random, cls: str, tier: str, allow_newline: bool) -> str:
    """One hostile string that contains class `cls`."""
    for _ in range(50):
        s = _make_string(rng, cls, tier)
        if not allow_newline and '\n' in s:
            continue
        if _ok_everywhere(s):
            return s
    return 'q' if cls != 'empty' else ''


def _make_string(rng: random.Random, cls: str, tier: str) -> str:
    if cls == 'empty':
        return ''
    if cls == 'long':
        n = rng.choice([300, 300, 4000, 17000] if tier == 'thorough' else [300, 300, 300, 4000, 17000, 300])
        unit = rng.choice(['ab', 'a b', 'a$b', "a'b", 'a"b', 'a\\b', 'a;b #', '\u00e9 '])
        return (unit * (n // len(unit) + 1))[:n]
    atom = rng.choice(ATOMS[cls])
    w = rng.choice(SAFE_WORDS)
    w2 = rng.choice(SAFE_WORDS)
    form = rng.randrange(9)
    if form == 0:
        s = atom
    elif form == 1:
        s = w + atom + w2
    elif form == 2:
        s = atom + w
    elif form == 3:
        s = w + atom
    elif form == 4:
        s = atom + atom
    elif form == 5:
        other = rng.choice([c for c in CLASSES if c not in ('empty', 'long', 'newline')])
        s = w + atom + rng.choice(ATOMS[other]) + w2
    elif form == 6 and IDIOMS.get(cls):
        s = rng.choice(IDIOMS[cls])
    elif form == 7 and IDIOMS.get(cls):
        s = w + rng.choice(IDIOMS[cls])
    else:
        other = rng.choice([c for c in CLASSES if c not in ('empty', 'long', 'newline')])
        s = rng.choice(ATOMS[other]) + ' ' + atom + w
    if cls == 'dash' and not s.startswith('-'):
        s = '-' + s
    return s


# ---------------------------------------------------------------------------------- meson literals
def mstr(s: str) -> str:
    """A meson '...' literal whose VALUE is s (Syntax.md escape sequences)."""
    out = ["'"]
    for c in s:
        o = ord(c)
        if c == '\\':
            out.append('\\\\')
        elif c == "'":
            out.append("\\'")
        elif c == '\n':
            out.append('\\n')
        elif c == '\t':
            out.append('\\t')
        elif o < 32 or o == 127:
            out.append('\\x%02x' % o)
        else:
            out.append(c)
    out.append("'")
    return ''.join(out)


def mlist(items: T.Sequence[T.Union[str, T.Tuple[str]]]) -> str:
    """items: str = string literal; 1-tuple = raw meson expression (a variable)."""
    return '[' + ', '.join(i[0] if isinstance(i, tuple) else mstr(i) for i in items) + ']'


def mdict(d: T.Mapping[str, str]) -> str:
    return '{' + ', '.join(f'{mstr(k)}: {mstr(v)}' for k, v in d.items()) + '}'


def pylist_literal(items: T.Sequence[str]) -> str:
    """The `[...]` spelling meson accepts for array options on the command line (ast.literal_eval)."""
    return '[' + ', '.join(repr(i) for i in items) + ']'


# ---------------------------------------------------------------------------------- the four rewrites
def rewrite_command(args: T.Sequence[str], subst: T.Mapping[str, str]) -> T.List[T.List[str]]:
    """custom_target / run_target / generator `arguments`: placeholders, backslash -> '/', `&&` splits."""
    runs: T.List[T.List[str]] = [[]]
    for a in args:
        if a == '&&':
            runs.append([])
            continue
        for k, v in subst.items():
            if k in a:
                a = a.replace(k, v)
        runs[-1].append(a.replace('\\', '/'))
    return runs


def rewrite_target_cargs(args: T.Sequence[str]) -> T.List[str]:
    """per-target compile args: backslashes doubled inside -D / /D arguments."""
    return [a.replace('\\', '\\\\') if a.startswith(('-D', '/D')) else a for a in args]


# ---------------------------------------------------------------------------------- positions
COMPILE_POS = ['targs_exe', 'targs_lib', 'proj_args', 'glob_args', 'opt_c_args', 'dep_cargs']
LINK_POS = ['link_args', 'proj_link_args', 'glob_link_args', 'opt_c_link_args', 'dep_largs']
CMD_POS = ['ct_plain', 'ct_capture', 'ct_feed', 'ct_capfeed', 'ct_env', 'ct_envobj', 'ct_capenv', 'ct_console', 'ct_depfile',
           'ct_sub', 'rt_plain', 'rt_env', 'gen_args', 'gen_extra', 'gen_capture', 'gen_env',
           't_args', 't_env', 't_envobj', 't_workdir']
ENV_POS = ['ct_env.env', 'ct_envobj.env', 'ct_capenv.env', 'rt_env.env', 'gen_env.env', 't_env.env', 't_envobj.env']
# SCOPING of project-wide / global arguments: the same four functions called with `native: true`, and called inside
# subprojects (an ordinary one, and one built for the build machine with subproject(native: true)).  Appended at the END of
# ALL_POS so that the class schedule of the older positions does not move.
SCOPE_COMPILE_POS = ['proj_args_nat', 'glob_args_nat', 'sp_proj_args', 'sp_proj_args_nat', 'spn_proj_args']
SCOPE_LINK_POS = ['proj_link_args_nat', 'glob_link_args_nat', 'sp_proj_link_args', 'sp_proj_link_args_nat', 'spn_proj_link_args']
ALL_POS = COMPILE_POS + LINK_POS + CMD_POS + ENV_POS + SCOPE_COMPILE_POS + SCOPE_LINK_POS
# positions where a newline makes meson refuse to generate (checked by the reject probes only)
NEWLINE_REJECTING = COMPILE_POS + LINK_POS + ['ct_env.env', 'rt_env.env', 'gen_env.env'] + SCOPE_COMPILE_POS + SCOPE_LINK_POS
# position -> (family = the function that was called, machine the arguments were given for, project that gave them);
# '*' = every project (global arguments).  Two positions of one family are the SAME function with another scope: a command
# must carry the arguments of its own scope only.
SCOPE: T.Dict[str, T.Tuple[str, str, str]] = {
    'proj_args': ('proj_args', 'host', 'top'), 'proj_args_nat': ('proj_args', 'build', 'top'),
    'sp_proj_args': ('proj_args', 'host', 'sp'), 'sp_proj_args_nat': ('proj_args', 'build', 'sp'),
    'spn_proj_args': ('proj_args', 'default', 'spn'),
    'glob_args': ('glob_args', 'host', '*'), 'glob_args_nat': ('glob_args', 'build', '*'),
    'proj_link_args': ('proj_link_args', 'host', 'top'), 'proj_link_args_nat': ('proj_link_args', 'build', 'top'),
    'sp_proj_link_args': ('proj_link_args', 'host', 'sp'), 'sp_proj_link_args_nat': ('proj_link_args', 'build', 'sp'),
    'spn_proj_link_args': ('proj_link_args', 'default', 'spn'),
    'glob_link_args': ('glob_link_args', 'host', '*'), 'glob_link_args_nat': ('glob_link_args', 'build', '*'),
}
# positions whose arguments are never shown to a shell at all do not exist: every one is listed above.


# Directed string sets (quick tier re-observes them every run): spellings that only matter to one specific layer.
DIRECTED: T.Dict[str, T.Dict[str, T.List[str]]] = {
    # options of meson's own `--internal exe` wrapper and argparse's separator, as ordinary arguments
    'wrapper-options': {
        'cmd': ['--', '--capture', 'x', '--feed', '--unpickle', '-h', '--capture=zz', '--', '--feed=in1.txt', '--help', '-'],
        'env': ['--', '', ' ', '=', 'a=b'],
        'compile': ['--', '-', '@', '', ' ', '-o x', '@x.rsp'],
    },
    # backslashes: the -D//D doubling, the command rewrite, the test non-rewrite, the response-file escape
    'backslash': {
        'cmd': ['a\\b', '\\', 'a\\', '\\\\', '"q\\z"', 'C:\\x\\y', "\\'", 'a\\ b', '\\n', '\\$x', '\\"'],
        'env': ['a\\b', '\\', 'a\\', '\\ '],
        'compile': ['a\\b', '\\', 'a\\', '\\\\', '"q\\z"', 'C:\\x\\y', "\\'", 'a\\ b', '\\$x', '\\"'],
    },
    # leading / trailing blanks and tabs, `=` inside a value, empty values: the `NAME=value` string and list forms of
    # env: split at the FIRST `=` and must keep the value verbatim
    'env-whitespace': {
        'cmd': [' a', 'a ', '\tx\t', '  two  ', '', ' ', '\t', ' = '],
        'env': [' a', 'a ', '\tx\t', '  two  ', '> ', ' =b ', ' ', ' = x', '\t=', 'a=b ', ''],
        'compile': [' a', 'a ', '\tx\t', '  two  ', ' '],
    },
    # what ninja itself interprets
    'ninja-dollar': {
        'cmd': ['$', '$$', '$in', '${out}', '$ ', '$:', ' $', 'a$', '$\n', ':', 'a:b', '$x $y', '|', '||'],
        'env': ['$', '$$', '$in', 'a$', ':'],
        'compile': ['$', '$$', '$in', '${out}', '$ ', '$:', ' $', 'a$', ':', '$x $y'],
    },
}


class _Builder:
    def __init__(self, idx: int, seed: int, tier: str, rsp: bool, newline_pos: T.Optional[str],
                 force: T.Optional[str] = None) -> None:
        self.idx = idx
        self.rng = random.Random(f'C03:{seed}:{tier}:{idx}')
        self.tier = tier
        self.rsp = rsp
        self.newline_pos = newline_pos
        self.force = DIRECTED[force] if force else None
        self.tagn = 0
        self.strings: T.List[T.Tuple[str, str]] = []
        self.calib: T.List[str] = []
        self.cmd: T.Dict[str, dict] = {}
        self.compile: T.Dict[str, T.List[dict]] = {}
        self.link: T.Dict[str, T.List[dict]] = {}

    # -- choosing strings
    def tag(self) -> str:
        self.tagn += 1
        return f'T{self.tagn}'

    def pick_classes(self, pos: str, n: int) -> T.List[str]:
        k = ALL_POS.index(pos)
        base = self.idx * 7 + k * 5
        return [CLASSES[(base + j * 11) % len(CLASSES)] for j in range(n)]

    def hostile(self, pos: str, n: int, allow_newline: bool, want_newline: bool = False) -> T.List[str]:
        """n strings for a position; classes follow the coverage schedule (position x class), a newline only where
        the position admits one (elsewhere meson refuses to generate: covered by the reject probes)."""
        out: T.List[str] = []
        if self.force is not None:
            kind = 'compile' if pos in COMPILE_POS + LINK_POS + SCOPE_COMPILE_POS + SCOPE_LINK_POS \
                else ('env' if pos.endswith('.env') else 'cmd')
            forced = [x for x in self.force.get(kind, []) if allow_newline or '\n' not in x]
            if forced:
                k = ALL_POS.index(pos)
                if kind == 'env':
                    return [forced[(k + j) % len(forced)] for j in range(n)]
                return forced[k % len(forced):] + forced[:k % len(forced)]
        for cls in self.pick_classes(pos, n):
            if cls == 'newline' and not allow_newline:
                cls = self.rng.choice(['space', 'squote', 'dollar', 'backslash', 'dquote'])
            s = make_string(self.rng, cls, self.tier, cls == 'newline')
            out.append(s)
        if allow_newline and not want_newline and self.rng.random() < 0.12:
            want_newline = True
        if want_newline and not any('\n' in s for s in out):
            out[self.rng.randrange(len(out))] = make_string(self.rng, 'newline', self.tier, True)
        return out

    def note(self, pos: str, strs: T.Iterable[str], payloads: T.Optional[T.Iterable[str]] = None) -> None:
        strs = list(strs)
        for s in strs:
            self.calib.append(s)
        for s in (payloads if payloads is not None else strs):
            self.strings.append((pos, s))

    # -- compile-class positions
    def compile_args(self, pos: str, n: int) -> T.Tuple[T.List[str], str, str]:
        """The argument list written for a compile/link position, delimited by two unique sentinels."""
        opt = pos.startswith('opt_')
        newline_here = self.newline_pos == pos
        hs = self.hostile(pos, n, allow_newline=False)
        if newline_here:
            hs[0] = self.rng.choice(['a\nb', '\n', 'a\n'])
        args: T.List[str] = []
        payloads: T.List[str] = []
        for i, h in enumerate(hs):
            shape = self.rng.randrange(7) if self.force is None else (0, 2, 3, 4, 5, 6)[i % 6]
            if opt:
                # shown to the real gcc by meson's sanity check: must be a valid macro definition
                for _ in range(12):
                    if gcc_accepts_define(h):
                        break
                    h = make_string(self.rng, self.rng.choice(sorted(classes_of(h) - {'newline'}) or ['space']), self.tier, False)
                else:
                    h = 'q'
                args.append(f'-D{self.tag()}={h}')      # (no two-token spelling here: meson's configure-time sanity check
                payloads.append(h)                      # hands these lists to the real toolchain in its own way)
                continue
            if shape >= 5:
                # two-token spellings `-D NAME=val`, `-U NAME`, `-isystem dir`: both tokens must arrive, adjacent, in order.
                # (In per-target lists the value carries no backslash: whether the -D doubling applies to the detached
                # value is not fixed by any document, so it is not demanded either way.)
                if pos.startswith('targs'):
                    h = h.replace('\\', '')
                opt_tok = '-D' if shape == 5 else self.rng.choice(['-U', '-isystem'])
                val = f'{self.tag()}={h}' if opt_tok == '-D' else f'{self.tag()}{h}'
                if compile_safe(val):
                    payloads.append(h)
                    args += [opt_tok, val]
                    continue
            payloads.append(h)
            if shape <= 1:
                args.append(f'-D{self.tag()}={h}')
            elif shape == 2:
                args.append(f'-f{self.tag().lower()}={h}')
            elif shape == 3 and pos.startswith('targs') and (self.force is not None or self.rng.random() < 0.5):
                args.append(f'/D{self.tag()}={h}')
            elif compile_safe(h):
                args.append(h)
            else:
                args.append(f'-D{self.tag()}={h}')
        b, e = f'-DC03B_{pos}', f'-DC03E_{pos}'
        self.note(pos, args, payloads)
        return [b] + args + [e], b, e

    # -- command positions
    def cmd_args(self, pos: str, n: int) -> T.List[str]:
        force_nl = self.newline_pos == pos
        hs = self.hostile(pos, n, allow_newline=True, want_newline=force_nl)
        self.note(pos, hs)
        return hs

    def env_vals(self, pos: str, n: int, allow_newline: bool) -> T.Dict[str, str]:
        force_nl = self.newline_pos == pos
        hs = self.hostile(pos, n, allow_newline=allow_newline or force_nl, want_newline=force_nl)
        self.note(pos, hs)
        return {f'DUMP_{pos.split(".")[0].upper()}_{i}': h for i, h in enumerate(hs)}


def build_plan(idx: int, seed: int, tier: str, rsp: bool, newline_pos: T.Optional[str] = None,
               nargs: int = 4, force: T.Optional[str] = None) -> dict:
    b = _Builder(idx, seed, tier, rsp, newline_pos, force)
    rng = b.rng
    L: T.List[str] = []           # top-level meson.build lines
    S: T.List[str] = []           # sub/meson.build lines
    files: T.Dict[str, str] = {
        'main.c': 'int main(void) { return 0; }\n',
        'lib.c': 'int c03_lib(void) { return 0; }\n',
        'in1.txt': 'feed-content-1\n', 'gin1.txt': 'g1\n', 'gin2.txt': 'g2\n', 'gin3.txt': 'g3\n',
    }
    # an input whose NAME is hostile too (no backslash / colon / newline: those are path syntax to ninja or meson)
    sin_base = rng.choice(['sin', "s i'n", 's$x;in', 's#&in(1)', 'sin \u00e9', 's*?[in]', 's"in', 's{a,b}~in', 's  in%', 's`in`!', 's<>in', 's=in,^'])
    sin = sin_base + '.txt'
    files['sub/' + sin] = 'sub-in\n'
    D = ('dump',)

    # ---- the spellings of an environment (Reference manual: env accepts a dict, a 'NAME=value' string, a list of such
    # strings, or an environment() object, whose constructor accepts the same three)
    ENV_FORMS = ['dict', 'list', 'string', 'ctor_list', 'ctor_string', 'ctor_dict']
    env_forms_used: T.Dict[str, str] = {}
    envops: T.Dict[str, dict] = {}

    def env_form(pos: str, choices: T.Sequence[str] = ENV_FORMS) -> str:
        k = ALL_POS.index(pos)
        if force == 'env-whitespace':
            pool = [c for c in choices if ('string' in c if rsp else 'list' in c)] or list(choices)
            f = pool[k % len(pool)]
        else:
            f = choices[(idx + k) % len(choices)]
        env_forms_used[pos] = f
        return f

    def env_expr(env: T.Mapping[str, str], form: str) -> str:
        pairs = [f'{k_}={v_}' for k_, v_ in env.items()]
        if 'list' in form:
            b.calib.extend(pairs)
            ex_ = mlist(pairs)
        elif 'string' in form:
            assert len(pairs) == 1
            b.calib.extend(pairs)
            ex_ = mstr(pairs[0])
        else:
            ex_ = mdict(env)
        return f'environment({ex_})' if form.startswith('ctor_') else ex_

    def make_env(pos: str, n: int, allow_newline: bool) -> T.Tuple[T.Dict[str, str], str]:
        form = env_form(pos)
        env_ = b.env_vals(pos, 1 if 'string' in form else n, allow_newline)
        return env_, env_expr(env_, form)

    def make_envobj(var: str, pos: str, method: str, allow_newline: bool) -> T.Dict[str, str]:
        """environment object: first variable through the constructor (or set()), second through append/prepend"""
        form = env_form(pos, ['set', 'ctor_list', 'ctor_string', 'ctor_dict'])
        env_ = b.env_vals(pos, 2, allow_newline)
        keys_ = list(env_)
        if form == 'set':
            L.append(f'{var} = environment()')
            L.append(f"{var}.set({mstr(keys_[0])}, {mstr(env_[keys_[0]])})")
        else:
            L.append(f'{var} = ' + env_expr({keys_[0]: env_[keys_[0]]}, form))
        # append()/prepend(): one or two values, default or explicit separator.  Reference manual (env object): the values
        # are joined by the separator and put after (append) / before (prepend) the variable's CURRENT value when it has
        # one.  envops records the operation so that the check can give the variable an outer value.
        vals_ = [env_[keys_[1]]]
        if rng.random() < 0.4:
            vals_.append(make_string(rng, rng.choice([c for c in CLASSES if c not in ('long', 'newline')]), b.tier, False))
            b.calib.append(vals_[-1])
        sep_ = rng.choice([None, None, ';', ' ', ',', '::'])
        sepkw = f', separator: {mstr(sep_)}' if sep_ is not None else ''
        L.append(f"{var}.{method}({mstr(keys_[1])}, {', '.join(mstr(v_) for v_ in vals_)}{sepkw})")
        envops[pos] = {'key': keys_[1], 'method': method, 'values': vals_, 'sep': sep_ if sep_ is not None else os.pathsep}
        env_[keys_[1]] = envops[pos]['sep'].join(vals_)
        return env_

    # ---- compile / link positions
    pa, pab, pae = b.compile_args('proj_args', nargs)
    ga, gab, gae = b.compile_args('glob_args', nargs)
    oa, oab, oae = b.compile_args('opt_c_args', nargs)
    te, teb, tee = b.compile_args('targs_exe', nargs + 1)
    tl, tlb, tle = b.compile_args('targs_lib', nargs)
    la, lab, lae = b.compile_args('link_args', nargs)
    pla, plab, plae = b.compile_args('proj_link_args', nargs)
    gla, glab, glae = b.compile_args('glob_link_args', nargs)
    ola, olab, olae = b.compile_args('opt_c_link_args', nargs)

    def slot(pos: str, lst: T.List[str], bb: str, ee: str, rewritten: T.Optional[T.List[str]] = None) -> dict:
        return {'pos': pos, 'b': bb, 'e': ee, 'args': (rewritten if rewritten is not None else lst)[1:-1]}

    # project / global (link) arguments are given as a HISTORY of calls: the list of a position is cut into several
    # add_*_arguments() calls whose `language:` sets overlap (a first call naming both languages, later calls for one
    # of them or for both, in either order).  Each language must receive exactly the arguments of the calls that named
    # it, once each, in call order - and nothing given to the other language only.
    langs_all = ['c', 'cpp'] if have_cpp() else ['c']
    call_lines: T.Dict[str, T.List[str]] = {}
    per_lang: T.Dict[str, T.Dict[str, T.List[str]]] = {}

    # decisions of the scoping workload come from their own stream: the strings of the older positions do not move
    mrng = random.Random(f'C03scope:{seed}:{tier}:{idx}')

    def call_history(fn: str, pos: str, lst: T.List[str], native: T.Optional[bool] = None,
                     rng: random.Random = rng) -> T.List[str]:
        """native=None: the arguments of the host machine (`native:` omitted or spelled `native: false`);
        True: `native: true`; False: `native:` always omitted (the project's own default machine)."""
        units: T.List[T.List[str]] = []
        inner = lst[1:-1]
        i_ = 0
        while i_ < len(inner):
            if inner[i_] in ('-D', '-U', '-isystem') and i_ + 1 < len(inner):
                units.append(inner[i_:i_ + 2])
                i_ += 2
            else:
                units.append(inner[i_:i_ + 1])
                i_ += 1
        both = lambda: rng.sample(langs_all, len(langs_all))  # noqa: E731
        calls: T.List[T.Tuple[T.List[str], T.List[str]]] = []
        first = [lst[0]] + (units[0] if units else [])
        calls.append((first, both()))
        for u in units[1:-1]:
            lg = both() if rng.random() < 0.4 else [rng.choice(langs_all)]
            calls.append((list(u), lg))
        last = (units[-1] if len(units) > 1 else []) + [lst[-1]]
        calls.append((last, both()))
        lines = [f"{fn}({mlist(items)}, language: {mlist(lg) if len(lg) > 1 or rng.random() < 0.5 else mstr(lg[0])}"
                 for items, lg in calls]
        for i_ in range(len(lines)):
            if native is None:
                lines[i_] += ', native: false)' if mrng.random() < 0.4 else ')'
            else:
                lines[i_] += ', native: true)' if native else ')'
        per_lang[pos] = {lg_: [a for items, lg in calls if lg_ in lg for a in items] for lg_ in langs_all}
        return lines

    call_lines['add_project_arguments'] = call_history('add_project_arguments', 'proj_args', pa)
    call_lines['add_global_arguments'] = call_history('add_global_arguments', 'glob_args', ga)
    call_lines['add_project_link_arguments'] = call_history('add_project_link_arguments', 'proj_link_args', pla)
    call_lines['add_global_link_arguments'] = call_history('add_global_link_arguments', 'glob_link_args', gla)

    def lslot(pos: str, lang: str, bb: str, ee: str) -> dict:
        return {'pos': pos, 'b': bb, 'e': ee, 'args': per_lang[pos][lang][1:-1], 'lang': lang}
    common_c = [lslot('proj_args', 'c', pab, pae), lslot('glob_args', 'c', gab, gae), slot('opt_c_args', oa, oab, oae)]
    common_l = [lslot('proj_link_args', 'c', plab, plae), lslot('glob_link_args', 'c', glab, glae),
                slot('opt_c_link_args', ola, olab, olae)]
    if have_cpp():
        b.compile['x1'] = [lslot('proj_args', 'cpp', pab, pae), lslot('glob_args', 'cpp', gab, gae)]
        b.link['x1'] = [lslot('proj_link_args', 'cpp', plab, plae), lslot('glob_link_args', 'cpp', glab, glae)]
        files['main.cpp'] = 'int main() { return 0; }\n'
    dc, dcb, dce = b.compile_args('dep_cargs', nargs)
    dl, dlb, dle = b.compile_args('dep_largs', nargs)
    b.compile['e1'] = common_c + [slot('targs_exe', te, teb, tee, rewrite_target_cargs(te)), slot('dep_cargs', dc, dcb, dce)]
    b.compile['s1'] = common_c + [slot('targs_lib', tl, tlb, tle, rewrite_target_cargs(tl))]
    b.compile['e2'] = list(common_c)
    b.link['e1'] = common_l + [slot('link_args', la, lab, lae), slot('dep_largs', dl, dlb, dle)]
    b.link['e2'] = list(common_l)

    L.append("project('c03p', 'c', 'cpp')" if have_cpp() else "project('c03p', 'c')")
    L.append(f"dump = find_program({mstr(DUMPER)})")
    L.append("@CALIB@")
    # the four call histories, interleaved (order within one function kept)
    queues = [list(v) for v in call_lines.values()]
    host_lines: T.List[str] = []
    while any(queues):
        q_ = rng.choice([q for q in queues if q])
        host_lines.append(q_.pop(0))
    L.append('@SCOPE@')      # the calls above merged with their `native: true` siblings, then the subprojects (see below)
    if have_cpp():
        L.append("x1 = executable('x1', 'main.cpp')")
    L.append(f"dep1 = declare_dependency(compile_args: {mlist(dc)}, link_args: {mlist(dl)})")
    L.append(f"e1 = executable('e1', 'main.c', c_args: {mlist(te)}, link_args: {mlist(la)}, dependencies: dep1)")
    L.append(f"s1 = static_library('s1', 'lib.c', c_args: {mlist(tl)})")

    GEN_OUT = {'gen_args': 'e2.p/gin1.h', 'gen_capture': 'e2.p/gin2.cap.h', 'gen_env': 'e2.p/gin3.env.h'}

    def edge_out(ident: str, kind: str) -> T.Optional[str]:
        if kind == 'custom_target':
            return ('sub/' if ident == 'ct_sub' else '') + ident + '.out'
        if kind == 'run_target':
            return 'meson-internal__' + ident
        if kind == 'generator':
            return GEN_OUT[ident]
        return None

    # ---- custom targets
    def add_cmd(ident: str, pos: str, kind: str, written: T.List[str], subst: T.Mapping[str, str],
                env: T.Optional[T.Dict[str, str]] = None, stdin: T.Optional[str] = None, rewrite: bool = True) -> None:
        if rewrite:
            runs = rewrite_command(written, subst)
        else:
            runs = [list(written)]
        b.cmd[ident] = {'pos': pos, 'kind': kind, 'runs': [runs[0]], 'env': env, 'stdin': stdin, 'out': edge_out(ident, kind)}
        # further `&&` commands start with the dumper program itself (a variable in the meson file): their argv
        # is everything after it
        for extra in runs[1:]:
            eid = extra[1].split(':')[1]
            b.cmd[eid] = {'pos': pos, 'kind': kind + '&&', 'runs': [extra[1:]], 'env': env, 'stdin': None,
                          'out': edge_out(ident, kind)}

    def maybe_andand(ident: str, body: T.List, has_newline: bool) -> T.List:
        """Optionally append `&& dump ID:<ident>b x` (plain-shell positions only)."""
        if has_newline or rng.random() >= 0.35:
            return body
        extra = make_string(rng, rng.choice(['space', 'dollar', 'squote', 'semi']), b.tier, False)
        return body + ['&&', D, f'ID:{ident}b', extra]

    def strs(items: T.Sequence) -> T.List[str]:
        return [('<dump>' if isinstance(i, tuple) else i) for i in items]

    # ct_plain
    h = b.cmd_args('ct_plain', nargs)
    body: T.List = ['ID:ct_plain'] + h + ['--outs', '@OUTPUT@']
    body = maybe_andand('ct_plain', body, any('\n' in x for x in h))
    L.append(f"custom_target('ct_plain', output: 'ct_plain.out', build_by_default: true, command: {mlist([D] + body)})")
    add_cmd('ct_plain', 'ct_plain', 'custom_target', strs(body), {'@OUTPUT@': 'ct_plain.out'})
    # ct_capture
    h = b.cmd_args('ct_capture', nargs)
    body = ['ID:ct_capture:c'] + h
    L.append(f"custom_target('ct_capture', output: 'ct_capture.out', capture: true, build_by_default: true, command: {mlist([D] + body)})")
    add_cmd('ct_capture', 'ct_capture', 'custom_target', body, {})
    # ct_feed
    h = b.cmd_args('ct_feed', nargs)
    body = ['ID:ct_feed:s'] + h + ['--outs', '@OUTPUT@']
    L.append(f"custom_target('ct_feed', input: 'in1.txt', output: 'ct_feed.out', feed: true, build_by_default: true, command: {mlist([D] + body)})")
    add_cmd('ct_feed', 'ct_feed', 'custom_target', body, {'@OUTPUT@': 'ct_feed.out'}, stdin=files['in1.txt'])
    # ct_capfeed
    h = b.cmd_args('ct_capfeed', nargs)
    body = ['ID:ct_capfeed:sc'] + h
    L.append(f"custom_target('ct_capfeed', input: 'in1.txt', output: 'ct_capfeed.out', feed: true, capture: true, build_by_default: true, command: {mlist([D] + body)})")
    add_cmd('ct_capfeed', 'ct_capfeed', 'custom_target', body, {}, stdin=files['in1.txt'])
    # ct_env (dict -> `env K=V cmd` unless a newline forces the pickled wrapper)
    h = b.cmd_args('ct_env', nargs)
    env, envx = make_env('ct_env.env', 2, allow_newline=False)
    body = ['ID:ct_env'] + h + ['--outs', '@OUTPUT@']
    L.append(f"custom_target('ct_env', output: 'ct_env.out', env: {envx}, build_by_default: true, command: {mlist([D] + body)})")
    add_cmd('ct_env', 'ct_env', 'custom_target', body, {'@OUTPUT@': 'ct_env.out'}, env=env)
    # ct_envobj (environment() with append -> always the pickled wrapper)
    h = b.cmd_args('ct_envobj', nargs)
    env = make_envobj('envo', 'ct_envobj.env', 'append', allow_newline=True)
    body = ['ID:ct_envobj'] + h + ['--outs', '@OUTPUT@']
    L.append(f"custom_target('ct_envobj', output: 'ct_envobj.out', env: envo, build_by_default: true, command: {mlist([D] + body)})")
    add_cmd('ct_envobj', 'ct_envobj', 'custom_target', body, {'@OUTPUT@': 'ct_envobj.out'}, env=env)
    # ct_capenv (capture + env: always the pickled wrapper, stdout captured by it)
    h = b.cmd_args('ct_capenv', nargs)
    env, envx = make_env('ct_capenv.env', 2, allow_newline=True)
    body = ['ID:ct_capenv:c'] + h
    L.append(f"custom_target('ct_capenv', output: 'ct_capenv.out', capture: true, env: {envx}, build_by_default: true, command: {mlist([D] + body)})")
    add_cmd('ct_capenv', 'ct_capenv', 'custom_target', body, {}, env=env)
    # ct_console
    h = b.cmd_args('ct_console', nargs)
    body = ['ID:ct_console'] + h + ['--outs', '@OUTPUT@']
    body = maybe_andand('ct_console', body, any('\n' in x for x in h))
    L.append(f"custom_target('ct_console', output: 'ct_console.out', console: true, build_by_default: true, command: {mlist([D] + body)})")
    add_cmd('ct_console', 'ct_console', 'custom_target', strs(body), {'@OUTPUT@': 'ct_console.out'})
    # ct_depfile
    h = b.cmd_args('ct_depfile', nargs)
    body = ['ID:ct_depfile'] + h + ['@DEPFILE@', '--dep=@DEPFILE@', '--outs', '@OUTPUT@']
    L.append(f"custom_target('ct_depfile', output: 'ct_depfile.out', depfile: 'ct_depfile.d', build_by_default: true, command: {mlist([D] + body)})")
    add_cmd('ct_depfile', 'ct_depfile', 'custom_target', body, {'@OUTPUT@': 'ct_depfile.out', '@DEPFILE@': 'ct_depfile.d'})
    # ct_sub: placeholders with known values, in a subdirectory
    h = b.cmd_args('ct_sub', nargs)
    body = ['ID:ct_sub', '@INPUT@'] + h[:2] + ['--o=@OUTPUT@', '@OUTDIR@', '@PLAINNAME@', '@BASENAME@', '@SOURCE_ROOT@/x',
                                                '@BUILD_ROOT@', '@CURRENT_SOURCE_DIR@'] + h[2:] + ['--outs', '@OUTPUT@']
    S.append(f"custom_target('ct_sub', input: {mstr(sin)}, output: 'ct_sub.out', build_by_default: true, command: {mlist([D] + body)})")
    add_cmd('ct_sub', 'ct_sub', 'custom_target', body, {
        '@INPUT@': '../src/sub/' + sin, '@OUTPUT@': 'sub/ct_sub.out', '@OUTDIR@': 'sub', '@PLAINNAME@': sin,
        '@BASENAME@': sin_base, '@SOURCE_ROOT@': '../src', '@BUILD_ROOT@': '.', '@CURRENT_SOURCE_DIR@': '../src/sub'})
    L.append("subdir('sub')")

    # ---- run targets
    h = b.cmd_args('rt_plain', nargs)
    body = ['ID:rt_plain'] + h
    body = maybe_andand('rt_plain', body, any('\n' in x for x in h))
    L.append(f"run_target('rt_plain', command: {mlist([D] + body)})")
    add_cmd('rt_plain', 'rt_plain', 'run_target', strs(body), {})
    h = b.cmd_args('rt_env', nargs)
    env, envx = make_env('rt_env.env', 2, allow_newline=False)
    body = ['ID:rt_env'] + h
    L.append(f"run_target('rt_env', env: {envx}, command: {mlist([D] + body)})")
    add_cmd('rt_env', 'rt_env', 'run_target', body, {}, env=env)

    # ---- pickled-wrapper collision groups: several commands of ONE program that all go through the pickled wrapper with
    # the same env / workdir / no capture-feed, whose argument lists are re-splittings of one token sequence (equal when
    # joined by a blank, also around empty strings) or differ only by quoting-relevant characters.  Each must still
    # receive its own argv (the wrapper's pickle file name has to tell them apart).  Expected = the multiset of argvs.
    run_targets = ['rt_plain', 'rt_env']
    if force is not None or idx % 3 == 0:
        def tokens() -> T.List[str]:
            toks: T.List[str] = []
            for _ in range(rng.choice([3, 4])):
                if rng.random() < 0.2:
                    toks.append('')
                    continue
                cls = rng.choice([c for c in CLASSES if c not in ('space', 'tab', 'newline', 'long', 'empty', 'backslash')])
                t = make_string(rng, cls, b.tier, False)
                t = ''.join(ch for ch in t if ch not in ' \t\n\\') or 'q'
                if not _ok_everywhere(t):      # stripping blanks can re-create an exact `&&` (a command separator)
                    t = 'q' + t.replace('@', '')
                toks.append(t)
            return toks

        def splittings(toks: T.List[str], k: int) -> T.List[T.List[str]]:
            n = len(toks)
            masks = list(range(1 << (n - 1)))
            rng.shuffle(masks)
            masks = [(1 << (n - 1)) - 1, 0] + [m_ for m_ in masks if m_ not in (0, (1 << (n - 1)) - 1)]
            res: T.List[T.List[str]] = []
            for m_ in masks:
                cur = [toks[0]]
                for i in range(1, n):
                    if m_ & (1 << (i - 1)):
                        cur.append(toks[i])
                    else:
                        cur[-1] = cur[-1] + ' ' + toks[i]
                if cur not in res:
                    res.append(cur)
                if len(res) >= k:
                    break
            return res

        def quoting_variants(toks: T.List[str]) -> T.List[T.List[str]]:
            a, c = (toks + ['q', 'w'])[0] or 'q', (toks + ['q', 'w'])[1] or 'w'
            return [[a + "', '" + c], [a + ',' + c], [a + '" "' + c], [repr([a, c])]]

        L.append('envp = environment()')
        L.append("envp.set('DUMP_PK_0', 'v 0')")
        L.append("envp.append('DUMP_PK_1', 'w$1')")
        penv = {'DUMP_PK_0': 'v 0', 'DUMP_PK_1': 'w$1'}
        groups = [('pkenv', 'custom_target', 3, None, penv), ('pknl', 'custom_target', 2, 'n\nl', None),
                  ('pkrt', 'run_target', 2, 'r\nt', None)]
        for gid, kind, k, tail, genv in groups:
            toks = tokens()
            variants = splittings(toks, k)
            qvs = quoting_variants(toks)
            rng.shuffle(qvs)
            for qv in qvs[:2 if gid == 'pkenv' else 1]:
                if qv not in variants:
                    variants.append(qv)
            multi: T.List[T.List[str]] = []
            outs: T.List[str] = []
            for i, v in enumerate(variants):
                body = ['ID:' + gid] + v + ([tail] if tail else [])
                b.calib.extend(body[1:])
                name = f'{gid}_{i}'
                if kind == 'custom_target':
                    envkw = ', env: envp' if genv else ''
                    L.append(f"custom_target({mstr(name)}, output: {mstr(name + '.out')}{envkw}, build_by_default: true, command: {mlist([D] + body)})")
                    outs.append(name + '.out')
                else:
                    L.append(f"run_target({mstr(name)}, command: {mlist([D] + body)})")
                    outs.append('meson-internal__' + name)
                    run_targets.append(name)
                multi.append(rewrite_command(body, {})[0])
            b.cmd[gid] = {'pos': gid, 'kind': kind, 'runs': [multi[0]], 'multi': multi, 'env': genv, 'stdin': None,
                          'out': outs[0], 'outs': outs}

    # ---- generators
    h = b.cmd_args('gen_args', nargs)
    x = b.cmd_args('gen_extra', 3)
    garg = ['ID:gen_args'] + h + ['@EXTRA_ARGS@', '@INPUT@', '--outs', '@OUTPUT@']
    L.append(f"gen1 = generator(dump, arguments: {mlist(garg)}, output: '@BASENAME@.h')")
    L.append(f"gsrc1 = gen1.process('gin1.txt', extra_args: {mlist(x)})")
    sub = {'@INPUT@': '../src/gin1.txt', '@OUTPUT@': 'e2.p/gin1.h'}
    pre = rewrite_command(['ID:gen_args'] + h, sub)[0]
    post = rewrite_command(['@INPUT@', '--outs', '@OUTPUT@'], sub)[0]
    b.cmd['gen_args'] = {'pos': 'gen_args', 'kind': 'generator', 'runs': [pre + list(x) + post], 'env': None, 'stdin': None,
                         'out': GEN_OUT['gen_args'], 'also_pos': 'gen_extra'}
    h = b.cmd_args('gen_capture', nargs)
    garg = ['ID:gen_capture:c'] + h + ['@INPUT@']
    L.append(f"gen2 = generator(dump, arguments: {mlist(garg)}, output: '@BASENAME@.cap.h', capture: true)")
    L.append("gsrc2 = gen2.process('gin2.txt')")
    add_cmd('gen_capture', 'gen_capture', 'generator', garg, {'@INPUT@': '../src/gin2.txt'})
    h = b.cmd_args('gen_env', nargs)
    env, envx = make_env('gen_env.env', 2, allow_newline=False)
    garg = ['ID:gen_env'] + h + ['@INPUT@', '--outs', '@OUTPUT@']
    L.append(f"gen3 = generator(dump, arguments: {mlist(garg)}, output: '@BASENAME@.env.h')")
    L.append(f"gsrc3 = gen3.process('gin3.txt', env: {envx})")
    add_cmd('gen_env', 'gen_env', 'generator', garg, {'@INPUT@': '../src/gin3.txt', '@OUTPUT@': 'e2.p/gin3.env.h'}, env=env)
    L.append("e2 = executable('e2', 'main.c', gsrc1, gsrc2, gsrc3)")

    # ---- tests (no rewrite at all)
    h = b.cmd_args('t_args', nargs + 1)
    body = ['ID:t_args'] + h
    L.append(f"test('t_args', dump, args: {mlist(body)})")
    add_cmd('t_args', 't_args', 'test', body, {}, rewrite=False)
    h = b.cmd_args('t_env', 2)
    env, envx = make_env('t_env.env', 3, allow_newline=True)
    body = ['ID:t_env'] + h
    L.append(f"test('t_env', dump, args: {mlist(body)}, env: {envx})")
    add_cmd('t_env', 't_env', 'test', body, {}, env=env, rewrite=False)
    h = b.cmd_args('t_envobj', 2)
    env = make_envobj('envt', 't_envobj.env', 'prepend', allow_newline=True)
    body = ['ID:t_envobj'] + h
    L.append(f"test('t_envobj', dump, args: {mlist(body)}, env: envt)")
    add_cmd('t_envobj', 't_envobj', 'test', body, {}, env=env, rewrite=False)
    h = b.cmd_args('t_workdir', nargs)
    body = ['ID:t_workdir'] + h
    L.append(f"test('t_workdir', dump, args: {mlist(body)}, workdir: meson.current_build_dir() / 'sub')")
    add_cmd('t_workdir', 't_workdir', 'test', body, {}, rewrite=False)

    # ---- a second `meson test` run: --repeat N (every execution must get the same argv) and, in two projects of three,
    # --test-args with hostile strings (appended after the test's own args).  Drawn last: earlier strings do not shift.
    if force is not None:
        ta = [x for x in (b.force.get('cmd') or []) if x != '&&'][:3]
    elif idx % 3 == 0:
        ta = []
    else:
        ta = [make_string(rng, rng.choice([c for c in CLASSES if c != 'long']), b.tier, True) for _ in range(rng.choice([1, 2, 3]))]
    test_repeat = {'repeat': 2 + (idx % 2), 'test_args': ta}
    # ---- outer environment: the variables that an env object appends / prepends to already have a value when the build
    # (custom target through the pickled wrapper) resp. `meson test` (every execution, also under --repeat) runs.
    # Present in most projects, absent in the rest (the variable-does-not-exist path stays covered).
    def outer_for(pos: str, on: bool) -> T.Dict[str, str]:
        if not on or pos not in envops:
            return {}
        return {envops[pos]['key']: make_string(rng, rng.choice([c for c in CLASSES if c not in ('long', 'empty')]), b.tier, True)}
    outer_build = outer_for('ct_envobj.env', force is not None or idx % 2 == 0)
    outer_test = outer_for('t_envobj.env', force is not None or idx % 3 != 1)

    # ---- SCOPING of project-wide / global arguments (Reference manual, add_global_arguments `native:` - "If true the
    # arguments will only be used for native compilations", add_project_arguments - "only used for the current project, they
    # won't be used in any other subproject"; executable() `native:` - which machine a target is compiled for).  The four
    # functions are called for BOTH machines with distinct tagged lists, in the top project and in a subproject; targets
    # are declared `native: true` and `native: false`/omitted in one (non-cross) build; a third project is built for the
    # build machine as a whole (subproject(native: true), its own calls and target leave `native:` out).  Every compile
    # and link line must carry exactly the lists of its own machine and project, per language.  Drawn last and from the
    # scoping stream: the strings of every older position stay where they were.
    b.rng = mrng

    def merge(*seqs: T.Sequence[str]) -> T.List[str]:
        qs = [list(q) for q in seqs if q]
        res: T.List[str] = []
        while any(qs):
            q_ = mrng.choice([q for q in qs if q])
            res.append(q_.pop(0))
        return res

    objname: T.Dict[str, str] = {}
    linkout: T.Dict[str, str] = {}
    sent: T.Dict[str, T.Tuple[str, str]] = {'proj_args': (pab, pae), 'glob_args': (gab, gae),
                                             'proj_link_args': (plab, plae), 'glob_link_args': (glab, glae)}

    def scoped_list(fn: str, pos: str, n: int, native: T.Optional[bool]) -> T.List[str]:
        lst, bb, ee = b.compile_args(pos, n)
        sent[pos] = (bb, ee)
        return call_history(fn, pos, lst, native, mrng)

    def scoped_target(lines: T.List[str], name: str, outdir: str, lang: str, native_kw: str,
                      cpos: T.Sequence[str], lpos: T.Sequence[str]) -> None:
        src = 'main.c' if lang == 'c' else 'main.cpp'
        lines.append(f"executable({mstr(name)}, {mstr(src)}{native_kw})")
        b.compile[name] = [lslot(p_, lang, *sent[p_]) for p_ in cpos] + ([slot('opt_c_args', oa, oab, oae)] if lang == 'c' else [])
        b.link[name] = [lslot(p_, lang, *sent[p_]) for p_ in lpos] + ([slot('opt_c_link_args', ola, olab, olae)] if lang == 'c' else [])
        objname[name] = f'{outdir}{name}.p/{src}.o'
        linkout[name] = outdir + name

    nat_lines = [scoped_list('add_project_arguments', 'proj_args_nat', nargs, True),
                 scoped_list('add_global_arguments', 'glob_args_nat', nargs, True),
                 scoped_list('add_project_link_arguments', 'proj_link_args_nat', nargs, True),
                 scoped_list('add_global_link_arguments', 'glob_link_args_nat', nargs, True)]
    scope_lines = merge(host_lines, *nat_lines)
    T_: T.List[str] = []
    for lang_ in langs_all:
        scoped_target(T_, 'n1' if lang_ == 'c' else 'nx1', '', lang_, ', native: true',
                      ['proj_args_nat', 'glob_args_nat'], ['proj_link_args_nat', 'glob_link_args_nat'])
    proj_langs = ', '.join(mstr(l_) for l_ in langs_all)
    # an ordinary subproject: its own project (link) arguments for both machines, one target per machine
    SP = [f"project('sp', {proj_langs})"]
    SP += merge(scoped_list('add_project_arguments', 'sp_proj_args', 3, None),
                scoped_list('add_project_arguments', 'sp_proj_args_nat', 3, True),
                scoped_list('add_project_link_arguments', 'sp_proj_link_args', 3, None),
                scoped_list('add_project_link_arguments', 'sp_proj_link_args_nat', 3, True))
    sp_t: T.List[T.List[str]] = [[], []]
    scoped_target(sp_t[0], 'sp_h', 'subprojects/sp/', mrng.choice(langs_all), ', native: false' if mrng.random() < 0.4 else '',
                  ['sp_proj_args', 'glob_args'], ['sp_proj_link_args', 'glob_link_args'])
    scoped_target(sp_t[1], 'sp_n', 'subprojects/sp/', mrng.choice(langs_all), ', native: true',
                  ['sp_proj_args_nat', 'glob_args_nat'], ['sp_proj_link_args_nat', 'glob_link_args_nat'])
    SP += merge(*sp_t)
    # a subproject built for the build machine: global arguments of the build machine, its own project arguments
    SPN = [f"project('spn', {proj_langs})"]
    SPN += merge(scoped_list('add_project_arguments', 'spn_proj_args', 3, False),
                 scoped_list('add_project_link_arguments', 'spn_proj_link_args', 3, False))
    scoped_target(SPN, 'spn_t', 'subprojects/spn/', mrng.choice(langs_all), '',
                  ['spn_proj_args', 'glob_args_nat'], ['spn_proj_link_args', 'glob_link_args_nat'])
    # The order of the two subproject() calls is fixed per project, not drawn: a project configured AFTER a build-machine
    # subproject is the directed probe of a finding (known_findings.d/C03.json, repaired in /repo 7ef0efb): idx % 8 in
    # (1, 6), one response-file project and one plain project of eight; the others call the ordinary subproject first.
    sub_order = ['spn', 'sp'] if idx % 8 in (1, 6) else ['sp', 'spn']
    sub_call = {'sp': "subproject('sp')", 'spn': "subproject('spn', native: true)"}
    L += merge(T_, [sub_call[n_] for n_ in sub_order])
    for d_, lines_ in (('subprojects/sp/', SP), ('subprojects/spn/', SPN)):
        files[d_ + 'meson.build'] = '\n'.join(lines_) + '\n'
        files[d_ + 'main.c'] = files['main.c']
        if have_cpp():
            files[d_ + 'main.cpp'] = files['main.cpp']
    scope_all = {p_: sorted({a for lg_ in per_lang[p_].values() for a in lg_}) for p_ in SCOPE}
    b.rng = rng

    # ---- literal calibration: the interpreter's values, dumped at configure time without any shell
    calib = list(dict.fromkeys(b.calib))
    chunks = [calib[i:i + 40] for i in range(0, len(calib), 40)] or [[]]
    cl = []
    for i, ch in enumerate(chunks):
        cl.append(f"run_command(dump, {mstr('ID:calib%d' % i)}, {mlist(ch)}, check: true)")
    cl.append("run_command(dump, 'ID:calibopt', get_option('c_args'), '<sep>', get_option('c_link_args'), check: true)")
    text = '\n'.join(L).replace('@SCOPE@', '\n'.join(scope_lines)).replace('@CALIB@', '\n'.join(cl)) + '\n'
    files['meson.build'] = text
    files['sub/meson.build'] = '\n'.join(S) + '\n'
    return {
        'idx': idx, 'seed': seed, 'tier': tier, 'rsp': rsp, 'newline_pos': newline_pos, 'nargs': nargs, 'force': force,
        'files': files,
        'setup_args': ['-Dc_args=' + pylist_literal(oa), '-Dc_link_args=' + pylist_literal(ola)],
        'calib': chunks, 'calibopt': list(oa) + ['<sep>'] + list(ola),
        'cmd': b.cmd, 'compile': b.compile, 'link': b.link, 'run_targets': run_targets, 'env_forms': env_forms_used, 'test_repeat': test_repeat,
        'envops': envops, 'outer_env_build': outer_build, 'outer_env_test': outer_test,
        'objname': objname, 'linkout': linkout, 'scope_all': scope_all, 'sub_order': sub_order,
        'strings': b.strings,
    }


def plan_params(seed: int, tier: str, n_normal: int, reject_positions: T.Sequence[str]) -> T.List[dict]:
    """Parameters of every project of a run (build_plan(**p) makes the plan, deterministically)."""
    out = [dict(idx=i, seed=seed, tier=tier, rsp=(i % 2 == 1), newline_pos=None, nargs=4, force=None) for i in range(n_normal)]
    for j, pos in enumerate(reject_positions):
        out.append(dict(idx=n_normal + j, seed=seed, tier=tier, rsp=(j % 2 == 1), newline_pos=pos, nargs=4, force=None))
    k = len(out)
    for name in DIRECTED:
        for rsp in (False, True):
            out.append(dict(idx=k, seed=seed, tier=tier, rsp=rsp, newline_pos=None, nargs=4, force=name))
            k += 1
    return out
