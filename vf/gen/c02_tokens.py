"""C02 workload generators (DESIGN.md 1.3 `gen_tokens`): exhaustive token sequences, random token
soups with nesting, grammar-shaped programs, corpus mutation (token level and byte level), deep nesting.

Nothing here is an oracle; it only produces input texts.  No mesonbuild import.
"""
from __future__ import annotations

import itertools
import os
import random
import re
import typing as T

# 24 token forms enumerated to the full bound L
CORE: T.Tuple[str, ...] = (
    'a', '1', "'s'", "'''m\nl'''",
    '(', ')', '[', ']', '{', '}',
    ',', ':', '.', '?',
    '=', '+', '-', '==',
    'not', 'in', 'and',
    'if', 'endif', '\n',
)
# the remaining token forms of the language, enumerated to L-1 together with CORE
EXTRA: T.Tuple[str, ...] = (
    'or', '+=', '*', '/', '%', '!=', '<', '>=',
    'elif', 'else', 'foreach', 'endforeach', 'continue', 'break', 'true',
    '# c', '\\\n', "f'@a@'", "f'''x\n'''", "'\\n\\''", '0x1F', '"',
)
FULL: T.Tuple[str, ...] = CORE + EXTRA
ALPHABETS = {'core': CORE, 'full': FULL}
JOINERS = (' ', '')

# contexts that put a short sequence where the grammar nests (so that block / call / literal rules are
# reached inside the exhaustive bound): %s is replaced by the sequence
CONTEXTS: T.Tuple[str, ...] = (
    'f(%s)', 'x = [%s]', 'd = {%s}', 'if %s\nendif\n', 'if a\n%s\nendif\n', 'foreach i : l\n%s\nendforeach\n',
    'foreach %s\nendforeach', 'o.m(%s).n()', 'x = (%s)', 'if a\nelif %s\nelse\n%s\nendif', 'a[%s]', 'x = c ? %s : z',
)


def exhaustive_items(alphabet: str, length: int) -> T.List[T.Tuple[str, int, T.Tuple[int, ...]]]:
    """Work items (alphabet, length, prefix indexes) that together cover alphabet^length."""
    n = len(ALPHABETS[alphabet])
    k = min(length, 2)
    return [(alphabet, length, p) for p in itertools.product(range(n), repeat=k)]


def exhaustive_texts(item: T.Tuple[str, int, T.Tuple[int, ...]]) -> T.Iterator[str]:
    alphabet, length, prefix = item
    alpha = ALPHABETS[alphabet]
    head = tuple(alpha[i] for i in prefix)
    for rest in itertools.product(alpha, repeat=length - len(prefix)):
        seq = head + rest
        for j in JOINERS:
            yield j.join(seq)


def context_texts(item: T.Tuple[str, int, T.Tuple[int, ...]]) -> T.Iterator[str]:
    alphabet, length, prefix = item
    alpha = ALPHABETS[alphabet]
    head = tuple(alpha[i] for i in prefix)
    for rest in itertools.product(alpha, repeat=length - len(prefix)):
        s = ' '.join(head + rest)
        for c in CONTEXTS:
            yield c.replace('%s', s)


# --------------------------------------------------------------------------------------------------
# random soups and grammar-shaped programs

_OPEN = {'(': ')', '[': ']', '{': '}'}
_SEPS = (' ', ' ', ' ', '', '', '\n', '  ', '\t', ' \\\n ', ' # c\n')


def soup(rng: random.Random, maxlen: int = 60) -> str:
    """Random token soup: FULL alphabet, brackets mostly balanced, nested."""
    n = rng.randint(1, maxlen)
    out: T.List[str] = []
    stack: T.List[str] = []
    for _ in range(n):
        r = rng.random()
        if r < 0.14:
            o = rng.choice('([{')
            stack.append(_OPEN[o])
            tok = o if rng.random() < 0.6 else rng.choice(('f', 'a.m', 'x = ')) + o
        elif r < 0.26 and stack:
            tok = stack.pop()
        else:
            tok = rng.choice(FULL)
        out.append(tok)
        out.append(rng.choice(_SEPS))
    if rng.random() < 0.8:
        while stack:
            out.append(stack.pop())
    return ''.join(out)


_IDS = ('a', 'b', 'foo', 'x1', '_y', 'meson', 'return')
_STRS = ("'s'", "''", "'a b'", "'it\\'s'", "'\\\\'", "'\\n'", "'@0@'", "f'@a@'", "'''m'''", "'''l1\nl2'''", "f'''a\n@b@\n'''",
         "'é'", "'\\x41\\101\\u00e9'", "'#no comment'", "''''q'''",
         # line-ending bytes INSIDE a token (text handed to the parser without newline translation)
         "'''l1\r\nl2\r\n'''", "f'''@a@\r\n\r'''", "'a\rb'", "'''\n\r'''")
_NUMS = ('0', '1', '42', '0x1f', '0o17', '0b101', '0XFF', '1234567890123456789012')
_BIN = ('+', '-', '*', '/', '%', '==', '!=', '<', '<=', '>', '>=', 'in', 'not in', 'and', 'or', 'not  in', 'not\\\n in')


class Prog:
    """Grammar-shaped generator (valid most of the time) with free-form trivia."""

    def __init__(self, rng: random.Random) -> None:
        self.r = rng

    def ws(self) -> str:
        return self.r.choice(('', ' ', ' ', ' ', '  ', '\t', ' \\\n  '))

    def nlws(self) -> str:   # trivia allowed inside brackets
        return self.r.choice(('', '', ' ', ' ', '\n', '\n  ', ' # c\n  ', '\n\n', '\t'))

    def expr(self, d: int) -> str:
        r = self.r
        k = r.random()
        if d <= 0 or k < 0.30:
            return r.choice((r.choice(_IDS), r.choice(_STRS), r.choice(_NUMS), 'true', 'false'))
        if k < 0.42:
            return self.expr(d - 1) + self.ws() + r.choice(_BIN) + self.ws() + self.expr(d - 1)
        if k < 0.52:
            return r.choice(_IDS) + self.ws() + '(' + self.args(d - 1) + ')'
        if k < 0.62:
            return self.expr(d - 1) + self.ws() + '.' + self.ws() + r.choice(_IDS) + '(' + self.args(d - 1) + ')'
        if k < 0.72:
            return '[' + self.args(d - 1, kw=False) + ']'
        if k < 0.78:
            n = r.randint(0, 3)
            items = [self.nlws() + self.expr(d - 1) + self.ws() + ':' + self.ws() + self.expr(d - 1) + self.nlws() for _ in range(n)]
            return '{' + ','.join(items) + (',' if n and r.random() < 0.3 else '') + self.nlws() + '}'
        if k < 0.84:
            return '(' + self.nlws() + self.expr(d - 1) + self.nlws() + ')'
        if k < 0.89:
            return r.choice(('not ', '-', '- ', 'not\t')) + self.expr(d - 1)
        if k < 0.94:
            return self.expr(d - 1) + self.ws() + '[' + self.nlws() + self.expr(d - 1) + self.nlws() + ']'
        return self.expr(d - 1) + ' ? ' + self.expr(0) + ' : ' + self.expr(0)

    def args(self, d: int, kw: bool = True) -> str:
        r = self.r
        n = r.randint(0, 4)
        parts = []
        for i in range(n):
            if kw and r.random() < 0.3:
                parts.append(self.nlws() + r.choice(_IDS) + self.ws() + ':' + self.ws() + self.expr(d) + self.nlws())
            else:
                parts.append(self.nlws() + self.expr(d) + self.nlws())
        s = ','.join(parts)
        if n and r.random() < 0.25:
            s += ',' + self.nlws()
        elif not n:
            s += self.nlws()
        return s

    def stmt(self, d: int, ind: str) -> str:
        r = self.r
        k = r.random()
        eol = r.choice(('\n', '\n', '\n', ' # c\n', '\n\n', ' \n'))
        if d <= 0 or k < 0.45:
            if k < 0.25:
                return ind + r.choice(_IDS) + self.ws() + r.choice(('=', '+=')) + self.ws() + self.expr(2) + eol
            return ind + self.expr(3) + eol
        if k < 0.70:
            s = ind + 'if' + ' ' + self.expr(2) + eol + self.block(d - 1, ind + '  ')
            for _ in range(r.randint(0, 2)):
                s += ind + 'elif ' + self.expr(1) + eol + self.block(d - 1, ind + '  ')
            if r.random() < 0.5:
                s += ind + 'else' + eol + self.block(d - 1, ind + '  ')
            return s + ind + 'endif' + eol
        if k < 0.9:
            v = r.choice(('i', 'k, v', 'k,v'))
            return (ind + 'foreach ' + v + self.ws() + ':' + self.ws() + self.expr(2) + eol + self.block(d - 1, ind + '  ')
                    + r.choice(('', ind + '  continue' + eol, ind + '  break' + eol)) + ind + 'endforeach' + eol)
        return ind + '# ' + r.choice(('comment', "it's", 'é', 'if endif', '')) + '\n'

    def block(self, d: int, ind: str) -> str:
        return ''.join(self.stmt(d, ind) for _ in range(self.r.randint(0, 3)))

    def program(self) -> str:
        s = ''.join(self.stmt(self.r.randint(0, 3), '') for _ in range(self.r.randint(1, 5)))
        if self.r.random() < 0.3:
            s = s.rstrip('\n')
        return s


# --------------------------------------------------------------------------------------------------
# mutation

_TOK = re.compile(r"""f?'''.*?'''|f?'(?:[^'\\\n]|\\.)*'|\#[^\n]*|[A-Za-z_]\w*|\d+|==|!=|<=|>=|\+=|[ \t]+|\n|.""", re.S)
HOSTILE = ("'", "\\", '\r', '\r\n', '\t', '\ufeff', '\x00', '\u00e9', '\u2028', '\x0c', '"', "'''", '\n', '\\\n', "f'", '@',
           '\x85', '\x1c', '\u2029', '\x0b', '\U0001F600', '\ud800', '\\N{x}', '\\U99999999', ' not ', '()', '\u00a0')
MUTATION_KINDS = ('tok-delete', 'tok-dup', 'tok-swap', 'tok-insert', 'byte-insert', 'byte-replace', 'byte-delete',
                  'bom', 'crlf', 'truncate', 'inner-byte')
# tokens that carry free content: a hostile byte placed INSIDE one of them must survive the round trip (a byte
# placed between tokens mostly ends in a lexer error and never reaches the tree)
_CONTENT_TOK = re.compile(r"""f?'''.*?'''|f?'(?:[^'\\\n]|\\.)*'|\#[^\n]*""", re.S)


def split_tokens(text: str) -> T.List[str]:
    return _TOK.findall(text)


def mutate(rng: random.Random, text: str, kind: T.Optional[str] = None) -> T.Tuple[str, str]:
    """One mutation of `text`; returns (kind, mutated)."""
    kind = kind or rng.choice(MUTATION_KINDS)
    if kind.startswith('tok-'):
        toks = split_tokens(text)
        sig = [i for i, t in enumerate(toks) if not t.isspace()]
        if not sig:
            return kind, text + rng.choice(FULL)
        i = rng.choice(sig)
        if kind == 'tok-delete':
            del toks[i]
        elif kind == 'tok-dup':
            toks.insert(i, toks[i] + rng.choice(('', ' ')))
        elif kind == 'tok-swap':
            j = rng.choice(sig)
            toks[i], toks[j] = toks[j], toks[i]
        else:
            toks.insert(i, rng.choice(FULL) + rng.choice(('', ' ')))
        return kind, ''.join(toks)
    if kind == 'bom':
        return kind, '\ufeff' + text
    if kind == 'crlf':
        r = rng.random()
        if r < 0.25:
            return kind, text.replace('\n', '\r\n')
        if r < 0.45:
            return kind, text.replace('\n', '\r\n', rng.randint(1, 3))
        if r < 0.75:
            # only the newlines INSIDE content tokens (multi-line strings; a file whose other line ends are LF)
            def inner(m: 're.Match[str]') -> str:
                return m.group().replace('\n', rng.choice(('\r\n', '\r\n', '\r\n', '\n\r', '\r')))
            m = _CONTENT_TOK.sub(inner, text)
            if m != text:
                return kind, m
        # an arbitrary subset of the line ends
        p = rng.choice((0.1, 0.5))
        return kind, ''.join(('\r\n' if ch == '\n' and rng.random() < p else ch) for ch in text)
    if kind == 'inner-byte':
        spots = [m.span() for m in _CONTENT_TOK.finditer(text)]
        if not spots:
            pos = rng.randint(0, len(text))
            return kind, text[:pos] + rng.choice(HOSTILE) + text[pos:]
        a, b = rng.choice(spots)
        tok = text[a:b]
        head = 1 if tok.startswith('#') else (len(tok) - len(tok.lstrip('f'))) + (3 if "'''" in tok[:4] else 1)
        tail = 0 if tok.startswith('#') else (3 if tok.endswith("'''") and len(tok) >= head + 3 else 1)
        lo, hi = a + head, max(a + head, b - tail)
        pos = rng.randint(lo, hi)
        payload = rng.choice(HOSTILE)
        if rng.random() < 0.3 and pos < hi:
            return kind, text[:pos] + payload + text[pos + 1:]
        return kind, text[:pos] + payload + text[pos:]
    if kind == 'truncate':
        return kind, text[:rng.randint(0, len(text))]
    pos = rng.randint(0, len(text))
    if kind == 'byte-insert':
        return kind, text[:pos] + rng.choice(HOSTILE) + text[pos:]
    if kind == 'byte-replace':
        return kind, text[:pos] + rng.choice(HOSTILE) + text[pos + 1:]
    return kind, text[:pos] + text[pos + rng.randint(1, 3):]


# --------------------------------------------------------------------------------------------------
# every byte class inside every token kind (exhaustive product, no randomness)

# what can occur in a Python str handed to the parser: line-ending bytes in every combination, controls, separators
# other tools treat as line ends, BOM, NUL, non-ASCII, astral, lone surrogate, quote / escape / substitution syntax
BYTE_CLASSES: T.Tuple[str, ...] = (
    'a', ' ', '\t', '\n', '\r', '\r\n', '\n\r', '\r\r\n', '\r\n\r\n',
    '\x00', '\x08', '\x0b', '\x0c', '\x1b', '\x1c', '\x1d', '\x1e', '\x7f', '\x85', '\xa0', '\u2028', '\u2029', '\ufeff',
    '\u00e9', '\u0301', '\U0001F600', '\ud800',
    '"', "\\'", "''", '\\\\', '\\n', '\\r', '\\x41', '\\101', '\\u00e9', '\\N{DIGIT ONE}', '\\q', '\\\n', '\\\r\n',
    '@', '@a@', '@@', '@0@', '#', '# c', "f'", '{', '}',
)
# token kinds with content: templates with %s where the payload goes (start / middle / end / alone / doubled /
# next to a real newline)
_POS = ('%s', '%sb', 'a%s', 'a%sb', 'a%s%sb', 'a\n%sb', 'a%s\nb')
TOKEN_CONTENT: T.Dict[str, T.Tuple[str, ...]] = {
    'string': tuple("'" + p + "'" for p in _POS[:5]),
    'fstring': tuple("f'" + p + "'" for p in _POS[:5]) + ("f'@v@%s'",),
    'multiline_string': tuple("'''" + p + "'''" for p in _POS),
    'multiline_fstring': tuple("f'''" + p + "'''" for p in _POS) + ("f'''@v@%s\n@w@'''",),
    'comment': tuple('# ' + p for p in _POS[:5]) + ('#%s',),
    'continuation': ('\\ # a%sb\n  +', '\\%s\n  +', '\\ #%s\n  +'),
    'blank': ('%s', ' %s', '%s '),                      # the payload as the separator between two tokens
}
# where the token goes: %T = the token (twice in some), something with an extent AFTER it in most (so that line /
# column bookkeeping after the token is observed by the extent contracts)
_CTX_VALUE = ('x = %T\n', 'x = %T', 'f(%T, k : %T)\ny = [1]\n', 'x = [%T,\n  %T]\nz = g(x)\n', 'd = {%T : %T}\n',
              'if %T == %T\n  m(%T)\nendif\n', 'x = %T.format(%T)\ny = [1, 2]\n')
_CTX_COMMENT = ('x = 1 %T\ny = [1]\n', '%T\nx = f(1)\n', 'x = [1, %T\n 2]\ny = f(x)\n', 'f(a, %T\n b)\n', 'x = 1\n%T')
_CTX_CONT = ('x = 1 %T 2\ny = [1]\n', 'x = f(1 %T 2)\n')
_CTX_BLANK = ('x =%T1\ny = [1]\n', 'x = [1,%T2]\n', 'f(a%T)\n', 'x%T= 1\n', 'if a%T\nendif\n', "x = 'a'%T\ny = [1]\n", 'x = 1%T')
_CTX_OF = {'comment': _CTX_COMMENT, 'continuation': _CTX_CONT, 'blank': _CTX_BLANK}


def byte_class_texts(kind: str) -> T.Iterator[T.Tuple[str, str]]:
    """(payload, text) for every template x payload x context of one token kind."""
    for payload in BYTE_CLASSES:
        for tmpl in TOKEN_CONTENT[kind]:
            tok = tmpl.replace('%s', payload)
            for ctx in _CTX_OF.get(kind, _CTX_VALUE):
                yield payload, ctx.replace('%T', tok)


# --------------------------------------------------------------------------------------------------
# tokens of extreme length, every kind (exhaustive product, no randomness)

# around 2**63 / 2**64 / 2**128 (19, 20, 39 digits), around the 4300-digit limit of Python's int() for decimal
# strings (non-decimal bases have no limit), and far beyond
EXTREME_LENGTHS: T.Tuple[int, ...] = (1, 18, 19, 20, 39, 40, 310, 4299, 4300, 4301, 4302, 10000, 50000)
EXTREME_TOKENS: T.Dict[str, T.Tuple[T.Callable[[int], str], ...]] = {
    'decimal': (lambda n: '1' * n, lambda n: '9' * n, lambda n: '1' + '0' * (n - 1)),
    'hex': (lambda n: '0x' + 'f' * n, lambda n: '0X' + 'A0' * (n // 2) + '1'),
    'octal': (lambda n: '0o' + '7' * n, lambda n: '0O' + '1' + '0' * (n - 1)),
    'binary': (lambda n: '0b' + '1' * n, lambda n: '0B' + '10' * (n // 2) + '1'),
    'zero-led': (lambda n: '0' * n + '1', lambda n: '0x'),          # not numbers of the language: must be located errors
    'id': (lambda n: 'a' * n, lambda n: '_' + 'a1' * (n // 2)),
    'string': (lambda n: "'" + 'a' * n + "'", lambda n: "'" + '\\n' * (n // 2) + "'", lambda n: "f'" + '@a@' * (n // 3 + 1) + "'"),
    'multiline': (lambda n: "'''" + 'a\n' * (n // 2 + 1) + "'''", lambda n: "f'''" + "'" * 2 + 'a' * n + "'''"),
    'comment': (lambda n: '#' + 'c' * n, lambda n: '# ' + '# ' * (n // 2)),
    'blank': (lambda n: ' ' * n, lambda n: '\t' * n, lambda n: ' \\\n' * (n // 3 + 1)),
    'newlines': (lambda n: '\n' * min(n, 10000), lambda n: ' # c\n' * min(n // 5 + 1, 2000)),
}
_CTX_EXTREME_VALUE = ('x = %T\n', '%T', 'f(%T, k : %T)\ny = [%T]\n', 'x = -%T\ny = [1]\n', 'x = a[%T]\n',
                      'if %T == %T\n  z = g()\nendif\n')
_CTX_EXTREME_TRIVIA = ('x = 1 %T\ny = [1]\n', 'x = [1,%T2]\nz = f(x)\n', '%T', 'x = 1%T')


def extreme_length_texts(kind: str) -> T.Iterator[T.Tuple[int, str]]:
    """(length, text) for every length x token maker x context of one kind."""
    ctxs = _CTX_EXTREME_TRIVIA if kind in ('comment', 'blank', 'newlines') else _CTX_EXTREME_VALUE
    for n in EXTREME_LENGTHS:
        for mk in EXTREME_TOKENS[kind]:
            tok = mk(n)
            for ctx in ctxs:
                yield n, ctx.replace('%T', tok)


# --------------------------------------------------------------------------------------------------
# corpus

CORPUS_NAMES = ('meson.build', 'meson.options', 'meson_options.txt')


def corpus_files(repo: str) -> T.List[str]:
    out: T.List[str] = []
    for top in ('test cases', 'manual tests'):
        for root, dirs, files in os.walk(os.path.join(repo, top)):
            dirs.sort()
            for n in sorted(files):
                if n in CORPUS_NAMES:
                    out.append(os.path.join(root, n))
    return out


# --------------------------------------------------------------------------------------------------
# deep nesting

def _blocks(kw_open: str, kw_close: str) -> T.Callable[[int], str]:
    def mk(d: int) -> str:
        return ''.join(' ' * 0 + kw_open + '\n' for _ in range(d)) + 'x = 1\n' + ''.join(kw_close + '\n' for _ in range(d))
    return mk


DEEP_FORMS: T.Dict[str, T.Callable[[int], str]] = {
    'paren': lambda d: 'x = ' + '(' * d + '1' + ')' * d + '\n',
    'array': lambda d: 'x = ' + '[' * d + ']' * d + '\n',
    'dict-value': lambda d: 'x = ' + "{'k':" * d + '1' + '}' * d + '\n',
    'call-args': lambda d: 'f(' * d + ')' * d + '\n',
    'index-nest': lambda d: 'x = ' + 'a[' * d + '0' + ']' * d + '\n',
    'assign-chain': lambda d: 'a = ' * d + '1\n',
    'if-blocks': _blocks('if true', 'endif'),
    'foreach-blocks': _blocks('foreach i : l', 'endforeach'),
    'method-chain': lambda d: 'x = a' + '.m()' * d + '\n',
    'index-chain': lambda d: 'x = a' + '[0]' * d + '\n',
    'plus-chain': lambda d: 'x = 1' + ' + 1' * d + '\n',
    'and-chain': lambda d: 'x = a' + ' and a' * d + '\n',
    'unary-paren': lambda d: 'x = ' + '-(' * d + '1' + ')' * d + '\n',
    'unclosed-paren': lambda d: 'x = ' + '(' * d + '\n',
    'array-list': lambda d: 'x = [' + '1, ' * d + ']\n',          # wide, not deep: control
    'statements': lambda d: 'x = 1\n' * d,                        # long, not deep: control
    # more nesting shapes (every bracket kind in every argument position, mixed, blocks in blocks)
    'array-elem': lambda d: 'x = ' + '[1, ' * d + '2' + ']' * d + '\n',
    'dict-key': lambda d: 'x = ' + '{[' * d + '1' + "]:'v'}" * d + '\n',
    'kwarg-value': lambda d: 'f(k : ' * d + '1' + ')' * d + '\n',
    'method-args': lambda d: 'x = ' + 'a.m(' * d + '1' + ')' * d + '\n',
    'call-array': lambda d: 'f([' * d + '])' * d + '\n',
    'mixed-brackets': lambda d: 'x = ' + ''.join(('(', '[', "{'k':", 'f(')[i % 4] for i in range(d)) + '1'
    + ''.join((')', ']', '}', ')')[i % 4] for i in reversed(range(d))) + '\n',
    'paren-binary': lambda d: 'x = ' + '1 + (' * d + '1' + ')' * d + '\n',
    'ternary-paren': lambda d: 'x = ' + 'a ? b : (' * d + 'c' + ')' * d + '\n',
    'fstring-array': lambda d: 'x = ' + "[f'@a@', " * d + "'''m\n'''" + ']' * d + '\n',
    'else-if': lambda d: 'if a\nelse\n' * d + 'x = 1\n' + 'endif\n' * d,
    'elif-list': lambda d: 'if a\n' + 'elif a\n' * d + 'endif\n',              # wide, not deep: control
    'if-foreach': lambda d: ''.join(('if a\n', 'foreach i : l\n')[i % 2] for i in range(d)) + 'x = 1\n'
    + ''.join(('endif\n', 'endforeach\n')[i % 2] for i in reversed(range(d))),
    'plusassign-chain': lambda d: 'x += ' + 'a = ' * d + '1\n',
    'mul-chain': lambda d: 'x = 2' + ' * 2' * d + '\n',
    'or-chain': lambda d: 'x = a' + ' or a' * d + '\n',
    'compare-paren-chain': lambda d: 'x = ' + '(' * d + 'a' + ' == a)' * d + '\n',
    'string-plus-chain': lambda d: 'x = ' + "'a' + " * d + "'''b\n'''" + '\n',
}
DEEP_DEPTHS = (10, 30, 60, 90, 120, 200, 400, 1000, 3000)
DEEP_MAX = 3000
