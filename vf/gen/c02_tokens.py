"""C02 workload generators (DESIGN.md 1.3 `gen_tokens`): exhaustive token sequences, random token
soups with nesting, grammar-shaped programs, corpus mutation (token level and byte level), deep nesting.

Nothing here is an oracle; it only produces input texts.  No mesonbuild import.
"""
from __future__ import annotations

import itertools
import os
import random
import re
import typing as T

# 24 token forms enumerated to the full bound L
CORE: T.Tuple[str, ...] = (
    'a', '1', "'s'", "'''m\nl'''",
    '(', ')', '[', ']', '{', '}',
    ',', ':', '.', '?',
    '=', '+', '-', '==',
    'not', 'in', 'and',
    'if', 'endif', '\n',
)
# the remaining token forms of the language, enumerated to L-1 together with CORE
EXTRA: T.Tuple[str, ...] = (
    'or', '+=', '*', '/', '%', '!=', '<', '>=',
    'elif', 'else', 'foreach', 'endforeach', 'continue', 'break', 'true',
    '# c', '\\\n', "f'@a@'", "f'''x\n'''", "'\\n\\''", '0x1F', '"',
)
FULL: T.Tuple[str, ...] = CORE + EXTRA
ALPHABETS = {'core': CORE, 'full': FULL}
JOINERS = (' ', '')

# contexts that put a short sequence where the grammar nests (so that block / call / literal rules are
# reached inside the exhaustive bound): %s is replaced by the sequence
CONTEXTS: T.Tuple[str, ...] = (
    'f(%s)', 'x = [%s]', 'd = {%s}', 'if %s\nendif\n', 'if a\n%s\nendif\n', 'foreach i : l\n%s\nendforeach\n',
    'foreach %s\nendforeach', 'o.m(%s).n()', 'x = (%s)', 'if a\nelif %s\nelse\n%s\nendif', 'a[%s]', 'x = c ? %s : z',
)


def exhaustive_items(alphabet: str, length: int) -> T.List[T.Tuple[str, int, T.Tuple[int, ...]]]:
    """Work items (alphabet, length, prefix indexes) that together cover alphabet^length."""
    n = len(ALPHABETS[alphabet])
    k = min(length, 2)
    return [(alphabet, length, p) for p in itertools.product(range(n), repeat=k)]


def exhaustive_texts(item: T.Tuple[str, int, T.Tuple[int, ...]]) -> T.Iterator[str]:
    alphabet, length, prefix = item
    alpha = ALPHABETS[alphabet]
    head = tuple(alpha[i] for i in prefix)
    for rest in itertools.product(alpha, repeat=length - len(prefix)):
        seq = head + rest
        for j in JOINERS:
            yield j.join(seq)


def context_texts(item: T.Tuple[str, int, T.Tuple[int, ...]]) -> T.Iterator[str]:
    alphabet, length, prefix = item
    alpha = ALPHABETS[alphabet]
    head = tuple(alpha[i] for i in prefix)
    for rest in itertools.product(alpha, repeat=length - len(prefix)):
        s = ' '.join(head + rest)
        for c in CONTEXTS:
            yield c.replace('%s', s)


# --------------------------------------------------------------------------------------------------
# random soups and grammar-shaped programs

_OPEN = {'(': ')', '[': ']', '{': '}'}
_SEPS = (' ', ' ', ' ', '', '', '\n', '  ', '\t', ' \\\n ', ' # c\n')


def soup(rng: random.Random, maxlen: int = 60) -> str:
    """Random token soup: FULL alphabet, brackets mostly balanced, nested."""
    n = rng.randint(1, maxlen)
    out: T.List[str] = []
    stack: T.List[str] = []
    for _ in range(n):
        r = rng.random()
        if r < 0.14:
            o = rng.choice('([{')
            stack.append(_OPEN[o])
            tok = o if rng.random() < 0.6 else rng.choice(('f', 'a.m', 'x = ')) + o
        elif r < 0.26 and stack:
            tok = stack.pop()
        else:
            tok = rng.choice(FULL)
        out.append(tok)
        out.append(rng.choice(_SEPS))
    if rng.random() < 0.8:
        while stack:
            out.append(stack.pop())
    return ''.join(out)


_IDS = ('a', 'b', 'foo', 'x1', '_y', 'meson', 'return')
_STRS = ("'s'", "''", "'a b'", "'it\\'s'", "'\\\\'", "'\\n'", "'@0@'", "f'@a@'", "'''m'''", "'''l1\nl2'''", "f'''a\n@b@\n'''",
         "'é'", "'\\x41\\101\\u00e9'", "'#no comment'", "''''q'''")
_NUMS = ('0', '1', '42', '0x1f', '0o17', '0b101', '0XFF', '1234567890123456789012')
_BIN = ('+', '-', '*', '/', '%', '==', '!=', '<', '<=', '>', '>=', 'in', 'not in', 'and', 'or', 'not  in', 'not\\\n in')


class Prog:
    """Grammar-shaped generator (valid most of the time) with free-form trivia."""

    def __init__(self, rng: random.Random) -> None:
        self.r = rng

    def ws(self) -> str:
        return self.r.choice(('', ' ', ' ', ' ', '  ', '\t', ' \\\n  '))

    def nlws(self) -> str:   # trivia allowed inside brackets
        return self.r.choice(('', '', ' ', ' ', '\n', '\n  ', ' # c\n  ', '\n\n', '\t'))

    def expr(self, d: int) -> str:
        r = self.r
        k = r.random()
        if d <= 0 or k < 0.30:
            return r.choice((r.choice(_IDS), r.choice(_STRS), r.choice(_NUMS), 'true', 'false'))
        if k < 0.42:
            return self.expr(d - 1) + self.ws() + r.choice(_BIN) + self.ws() + self.expr(d - 1)
        if k < 0.52:
            return r.choice(_IDS) + self.ws() + '(' + self.args(d - 1) + ')'
        if k < 0.62:
            return self.expr(d - 1) + self.ws() + '.' + self.ws() + r.choice(_IDS) + '(' + self.args(d - 1) + ')'
        if k < 0.72:
            return '[' + self.args(d - 1, kw=False) + ']'
        if k < 0.78:
            n = r.randint(0, 3)
            items = [self.nlws() + self.expr(d - 1) + self.ws() + ':' + self.ws() + self.expr(d - 1) + self.nlws() for _ in range(n)]
            return '{' + ','.join(items) + (',' if n and r.random() < 0.3 else '') + self.nlws() + '}'
        if k < 0.84:
            return '(' + self.nlws() + self.expr(d - 1) + self.nlws() + ')'
        if k < 0.89:
            return r.choice(('not ', '-', '- ', 'not\t')) + self.expr(d - 1)
        if k < 0.94:
            return self.expr(d - 1) + self.ws() + '[' + self.nlws() + self.expr(d - 1) + self.nlws() + ']'
        return self.expr(d - 1) + ' ? ' + self.expr(0) + ' : ' + self.expr(0)

    def args(self, d: int, kw: bool = True) -> str:
        r = self.r
        n = r.randint(0, 4)
        parts = []
        for i in range(n):
            if kw and r.random() < 0.3:
                parts.append(self.nlws() + r.choice(_IDS) + self.ws() + ':' + self.ws() + self.expr(d) + self.nlws())
            else:
                parts.append(self.nlws() + self.expr(d) + self.nlws())
        s = ','.join(parts)
        if n and r.random() < 0.25:
            s += ',' + self.nlws()
        elif not n:
            s += self.nlws()
        return s

    def stmt(self, d: int, ind: str) -> str:
        r = self.r
        k = r.random()
        eol = r.choice(('\n', '\n', '\n', ' # c\n', '\n\n', ' \n'))
        if d <= 0 or k < 0.45:
            if k < 0.25:
                return ind + r.choice(_IDS) + self.ws() + r.choice(('=', '+=')) + self.ws() + self.expr(2) + eol
            return ind + self.expr(3) + eol
        if k < 0.70:
            s = ind + 'if' + ' ' + self.expr(2) + eol + self.block(d - 1, ind + '  ')
            for _ in range(r.randint(0, 2)):
                s += ind + 'elif ' + self.expr(1) + eol + self.block(d - 1, ind + '  ')
            if r.random() < 0.5:
                s += ind + 'else' + eol + self.block(d - 1, ind + '  ')
            return s + ind + 'endif' + eol
        if k < 0.9:
            v = r.choice(('i', 'k, v', 'k,v'))
            return (ind + 'foreach ' + v + self.ws() + ':' + self.ws() + self.expr(2) + eol + self.block(d - 1, ind + '  ')
                    + r.choice(('', ind + '  continue' + eol, ind + '  break' + eol)) + ind + 'endforeach' + eol)
        return ind + '# ' + r.choice(('comment', "it's", 'é', 'if endif', '')) + '\n'

    def block(self, d: int, ind: str) -> str:
        return ''.join(self.stmt(d, ind) for _ in range(self.r.randint(0, 3)))

    def program(self) -> str:
        s = ''.join(self.stmt(self.r.randint(0, 3), '') for _ in range(self.r.randint(1, 5)))
        if self.r.random() < 0.3:
            s = s.rstrip('\n')
        return s


# --------------------------------------------------------------------------------------------------
# mutation

_TOK = re.compile(r"""f?'''.*?'''|f?'(?:[^'\\\n]|\\.)*'|\#[^\n]*|[A-Za-z_]\w*|\d+|==|!=|<=|>=|\+=|[ \t]+|\n|.""", re.S)
HOSTILE = ("'", "\\", '\r', '\r\n', '\t', '\ufeff', '\x00', '\u00e9', '\u2028', '\x0c', '"', "'''", '\n', '\\\n', "f'", '@',
           '\x85', '\x1c', '\u2029', '\x0b', '\U0001F600', '\ud800', '\\N{x}', '\\U99999999', ' not ', '()', '\u00a0')
MUTATION_KINDS = ('tok-delete', 'tok-dup', 'tok-swap', 'tok-insert', 'byte-insert', 'byte-replace', 'byte-delete',
                  'bom', 'crlf', 'truncate')


def split_tokens(text: str) -> T.List[str]:
    return _TOK.findall(text)


def mutate(rng: random.Random, text: str, kind: T.Optional[str] = None) -> T.Tuple[str, str]:
    """One mutation of `text`; returns (kind, mutated)."""
    kind = kind or rng.choice(MUTATION_KINDS)
    if kind.startswith('tok-'):
        toks = split_tokens(text)
        sig = [i for i, t in enumerate(toks) if not t.isspace()]
        if not sig:
            return kind, text + rng.choice(FULL)
        i = rng.choice(sig)
        if kind == 'tok-delete':
            del toks[i]
        elif kind == 'tok-dup':
            toks.insert(i, toks[i] + rng.choice(('', ' ')))
        elif kind == 'tok-swap':
            j = rng.choice(sig)
            toks[i], toks[j] = toks[j], toks[i]
        else:
            toks.insert(i, rng.choice(FULL) + rng.choice(('', ' ')))
        return kind, ''.join(toks)
    if kind == 'bom':
        return kind, '\ufeff' + text
    if kind == 'crlf':
        return kind, text.replace('\n', '\r\n') if rng.random() < 0.5 else text.replace('\n', '\r\n', rng.randint(1, 3))
    if kind == 'truncate':
        return kind, text[:rng.randint(0, len(text))]
    pos = rng.randint(0, len(text))
    if kind == 'byte-insert':
        return kind, text[:pos] + rng.choice(HOSTILE) + text[pos:]
    if kind == 'byte-replace':
        return kind, text[:pos] + rng.choice(HOSTILE) + text[pos + 1:]
    return kind, text[:pos] + text[pos + rng.randint(1, 3):]


# --------------------------------------------------------------------------------------------------
# corpus

CORPUS_NAMES = ('meson.build', 'meson.options', 'meson_options.txt')


def corpus_files(repo: str) -> T.List[str]:
    out: T.List[str] = []
    for top in ('test cases', 'manual tests'):
        for root, dirs, files in os.walk(os.path.join(repo, top)):
            dirs.sort()
            for n in sorted(files):
                if n in CORPUS_NAMES:
                    out.append(os.path.join(root, n))
    return out


# --------------------------------------------------------------------------------------------------
# deep nesting

def _blocks(kw_open: str, kw_close: str) -> T.Callable[[int], str]:
    def mk(d: int) -> str:
        return ''.join(' ' * 0 + kw_open + '\n' for _ in range(d)) + 'x = 1\n' + ''.join(kw_close + '\n' for _ in range(d))
    return mk


DEEP_FORMS: T.Dict[str, T.Callable[[int], str]] = {
    'paren': lambda d: 'x = ' + '(' * d + '1' + ')' * d + '\n',
    'array': lambda d: 'x = ' + '[' * d + ']' * d + '\n',
    'dict-value': lambda d: 'x = ' + "{'k':" * d + '1' + '}' * d + '\n',
    'call-args': lambda d: 'f(' * d + ')' * d + '\n',
    'index-nest': lambda d: 'x = ' + 'a[' * d + '0' + ']' * d + '\n',
    'assign-chain': lambda d: 'a = ' * d + '1\n',
    'if-blocks': _blocks('if true', 'endif'),
    'foreach-blocks': _blocks('foreach i : l', 'endforeach'),
    'method-chain': lambda d: 'x = a' + '.m()' * d + '\n',
    'index-chain': lambda d: 'x = a' + '[0]' * d + '\n',
    'plus-chain': lambda d: 'x = 1' + ' + 1' * d + '\n',
    'and-chain': lambda d: 'x = a' + ' and a' * d + '\n',
    'unary-paren': lambda d: 'x = ' + '-(' * d + '1' + ')' * d + '\n',
    'unclosed-paren': lambda d: 'x = ' + '(' * d + '\n',
    'array-list': lambda d: 'x = [' + '1, ' * d + ']\n',          # wide, not deep: control
    'statements': lambda d: 'x = 1\n' * d,                        # long, not deep: control
}
DEEP_DEPTHS = (10, 30, 60, 90, 120, 200, 400, 1000, 3000)
