"""gen_c10 - workload generators for property C10.

Part A (policy): language-less projects around ONE dependency name per world (`foo`, a spelling with upper-case
characters, or a name meson serves through several detection methods - see DEP_NAMES); every provider carries a
distinct version string so that the printed answer names its source:

    system (foo.pc in a private PKG_CONFIG_LIBDIR)      1.0 / 2.0
    subproject `sub` (declare_dependency(version:))     1.1 / 2.1
    explicit meson.override_dependency()                1.2 / 2.2

Part B (integrity): "wrap worlds" - a top-level project using subproject('sub') described by a
[wrap-file] whose source / overlay ("patch") archives are delivered through file:// URLs, fallback URLs,
a pre-seeded subprojects/packagecache or subprojects/packagefiles, with a corruption class applied at a
location, a hash class applied to the recorded hash, optional diff_files, and one injected fault.

Nothing here imports mesonbuild.
"""
from __future__ import annotations

import difflib
import hashlib
import io
import itertools
import os
import random
import re
import tarfile
import typing as T
import zipfile

DEP = 'foo'
SUB = 'sub'
VAR = 'foo_dep'
SYSTEM_VERSIONS = ('1.0', '2.0', 'unknown')   # 'unknown': foo.pc with an empty Version: field
SUB_VERSIONS = {'lo': '1.1', 'hi': '2.1'}
OVR_VERSIONS = {'lo': '1.2', 'hi': '2.2'}

# The NAME of the dependency is a factor of every world (world['dep'], default DEP).  The policy is stated for "a
# dependency": it does not depend on how the name is spelled nor on which detection machinery serves the name.
#   plain    a name only pkg-config knows
#   case     spellings with upper-case characters; the SAME spelling is used everywhere (the .pc file, dependency(),
#            meson.override_dependency(), [provide] of the wrap file, force_fallback_for) - Wrap-dependency-system-
#            manual.md: "When a wrap file provides the dependency `foo-1.0` ... any call to `dependency('foo-1.0')`
#            will automatically fallback to that subproject"; two DIFFERENT spellings are never mixed (the documents
#            do not say whether names are case-sensitive)
#   factory  names meson serves with several detection methods, pkg-config among them (Dependencies.md "Dependencies
#            with custom lookup functionality"); the system dependency is still a .pc file in the private directory,
#            every other method finds nothing (no compiler, no config tools, no cmake on PATH)
DEP_NAMES: T.Dict[str, T.Tuple[str, ...]] = {
    'plain': (DEP,),
    'case': ('FooBar', 'Foo', 'fooBAR', 'FOO-2.0', 'libFoo_x', 'fOO'),
    'factory': ('zlib', 'gpgme', 'libgcrypt', 'openssl', 'libcrypto', 'libssl', 'cups', 'sdl2', 'gl', 'libwmf',
                'vulkan', 'gtest', 'gmock', 'pybind11', 'numpy'),
}


def dep_of(world: dict) -> str:
    return world.get('dep') or DEP


def sub_of(world: dict) -> str:
    """Name of the fallback subproject (= of its wrap file).  wrap_form 'wrapname': the wrap file has no [provide]
    entry for the dependency, it is named like the dependency ("A wrap file named `foo.wrap` implicitly provides the
    dependency name `foo` even when the `[provide]` section is missing")."""
    return dep_of(world) if world.get('wrap_form') == 'wrapname' else SUB


def name_class(name: str) -> str:
    for k, names in DEP_NAMES.items():
        if name in names:
            return k
    return 'other'


def assign_names(worlds: T.Sequence[dict], rng: random.Random) -> None:
    """Give every world that has not fixed it the dependency's name: half plain, a quarter with upper-case characters,
    a quarter served through several detection methods - exact shares, dealt at random (independent of the order in
    which the factor loops produced the worlds).  A quarter of the worlds whose link is a [provide] entry relying on
    the subproject's override use the implicit provide by the wrap file's own name instead, a third of them under
    each name class."""
    todo = [w for w in worlds if not w.get('dep')]
    classes = [('plain', 'case', 'plain', 'factory')[i % 4] for i in range(len(todo))]
    rng.shuffle(classes)
    for w, cls in zip(todo, classes):
        w['dep'] = rng.choice(DEP_NAMES[cls])
    elig = [w for w in todo if w.get('provide') and w.get('sub_overrides') and not w.get('wrap_form')
            and w.get('pre') in ('none', 'configured', 'failed_sub')]
    picked = rng.sample(elig, len(elig) // 4)
    for i, w in enumerate(picked):
        w['wrap_form'] = 'wrapname'
        w['dep'] = rng.choice(DEP_NAMES[('case', 'plain', 'factory')[i % 3]])


# ------------------------------------------------------------------------------------------------
# Part A
# ------------------------------------------------------------------------------------------------
MULTI = ('<2.0', '!=0.3')     # an array of restrictions, upper bound / inequality only
A_FACTORS: T.Dict[str, T.Tuple] = {
    'system': (None, '1.0', '2.0', 'unknown'),
    'constraint': (None, '>=2', '<2', MULTI),
    'fb': ('none', 'explicit', 'provide', 'configured', 'override', 'override_sub'),
    'wrap_mode': ('default', 'nofallback', 'nodownload', 'forcefallback'),
    'fff': ('none', 'dep', 'sub'),
    'required': (True, False),
    'allow_fallback': (None, True, False),
    'pver': ('lo', 'hi'),
}
A_MAJOR = ('system', 'constraint', 'fb', 'wrap_mode', 'fff', 'required', 'allow_fallback')


def a_full_table() -> T.List[dict]:
    names = list(A_FACTORS)
    return [dict(zip(names, vals)) for vals in itertools.product(*(A_FACTORS[n] for n in names))]


def a_pairwise_sample(rng: random.Random, n: int) -> T.List[dict]:
    """n cells drawn from the full table, topped up until every pair of factor values occurs."""
    full = a_full_table()
    picked = rng.sample(full, min(n, len(full)))
    names = list(A_FACTORS)
    pairs_needed = set()
    for i, a in enumerate(names):
        for b in names[i + 1:]:
            for va in A_FACTORS[a]:
                for vb in A_FACTORS[b]:
                    pairs_needed.add((a, va, b, vb))

    def pairs_of(c: dict) -> T.Set[tuple]:
        return {(a, c[a], b, c[b]) for i, a in enumerate(names) for b in names[i + 1:]}
    for c in picked:
        pairs_needed -= pairs_of(c)
    rest = [c for c in full if c not in picked] if pairs_needed else []
    rng.shuffle(rest)
    for c in rest:
        if not pairs_needed:
            break
        p = pairs_of(c) & pairs_needed
        if p:
            picked.append(c)
            pairs_needed -= p
    return picked


def a_core_table(rng: random.Random) -> T.List[dict]:
    """The interaction the documented rules actually talk about, exhaustively:
    link kind x allow_fallback x required x wrap_mode x force_fallback_for x {system satisfies the request or not}
    x {the subproject's dependency satisfies it or not}; the concrete system version / constraint / provider version
    realising the two booleans are drawn by the seed."""
    realisations: T.Dict[T.Tuple[bool, bool], T.List[T.Tuple[T.Optional[str], T.Optional[str], str]]] = {}
    for system in A_FACTORS['system']:
        for con in A_FACTORS['constraint']:
            for pver in A_FACTORS['pver']:
                sysok = system is not None and _sat(system, con)
                subok = _sat(SUB_VERSIONS[pver], con)
                realisations.setdefault((sysok, subok), []).append((system, con, pver))
    out = []
    for fb, afs in (('explicit', (None,)), ('provide', (None, True, False))):
        for af in afs:
            for req in (True, False):
                for wm in A_FACTORS['wrap_mode']:
                    for fff in A_FACTORS['fff']:
                        for key, reals in sorted(realisations.items()):
                            system, con, pver = rng.choice(reals)
                            out.append({'system': system, 'constraint': con, 'fb': fb, 'wrap_mode': wm, 'fff': fff,
                                        'required': req, 'allow_fallback': af, 'pver': pver})
    return out


def _sat(version: str, con: T.Any) -> bool:
    if con is None:
        return True
    if version == 'unknown':
        return False            # "These requirements are never met if the version is unknown."
    major = int(version.split('.')[0])
    if isinstance(con, (list, tuple)):
        return major < 2
    return major >= 2 if con == '>=2' else major < 2


def a_cell_to_world(cell: dict) -> dict:
    """Factor values -> concrete world + lookup sequence (the single lookup is issued twice)."""
    fb = cell['fb']
    sub_overrides = bool(cell.get('sub_overrides')) and fb in ('provide', 'explicit')
    lk = {'constraint': cell['constraint'], 'required': cell['required'],
          'allow_fallback': cell['allow_fallback'], 'explicit': fb == 'explicit',
          'eform': cell.get('eform', 'pair') if sub_overrides else 'pair', 'afform': cell.get('afform', 'kw'),
          'static': cell.get('static')}
    nfm = cell.get('nfm', 0)      # the cosmetic kwarg on: nothing / the repetition only / both / the first only
    first, second = dict(lk, nfm=nfm in (2, 3)), dict(lk, nfm=nfm in (1, 2))
    return {
        'main_dl': cell.get('main_dl', 'shared'),
        'sub_dl_how': cell.get('sub_dl_how', 'same') if fb in ('explicit', 'provide', 'configured', 'override_sub') else 'same',
        'sub_dl_value': cell.get('sub_dl_value'),
        'system': cell['system'], 'wrap_mode': cell['wrap_mode'], 'fff': cell['fff'],
        'provide': fb in ('provide', 'configured'),
        'sub_overrides': sub_overrides,
        'sub_download': bool(cell.get('sub_download')) and fb in ('provide', 'explicit'),
        'sub': fb in ('explicit', 'provide', 'configured', 'override_sub'),
        'pre': {'configured': 'configured', 'override': 'override', 'override_sub': 'override_sub'}.get(fb, 'none'),
        'pver': cell['pver'],
        'optstyle': cell.get('optstyle', 'D'),
        'seq': [first, second],
    }


LOOKUP_ALPHABET: T.List[dict] = [
    {'constraint': c, 'required': r, 'allow_fallback': a, 'explicit': e, 'eform': 'pair', 'afform': 'kw'}
    for c in (None, '>=2', '<2', MULTI) for r in (False, True) for a in (None, True, False) for e in (False, True)
    if not (e and a is not None)
]


def a_sequence_worlds(rng: random.Random, n: int) -> T.List[dict]:
    """Random worlds with sequences of <= 3 lookups over the same name (consistency)."""
    out = []
    for _ in range(n):
        pre = rng.choice(['none', 'none', 'none', 'configured', 'override', 'override_sub'])
        provide = rng.random() < 0.6 if pre in ('none',) else pre == 'configured'
        sub = True if (provide or pre in ('configured', 'override_sub')) else rng.random() < 0.7
        alphabet = [l for l in LOOKUP_ALPHABET if sub or not l['explicit']]
        k = rng.choice([2, 3, 3])
        seq = [dict(rng.choice(alphabet)) for _ in range(k)]
        sub_overrides = sub and pre == 'none' and rng.random() < 0.5
        for l in seq:
            if l['explicit'] and sub_overrides:
                l['eform'] = rng.choice(['pair', 'single'])
            if l['allow_fallback'] is False:
                l['afform'] = rng.choice(['kw', 'emptyfb'])
            l['static'] = rng.choice([None, None, True, False])
            l['nfm'] = rng.random() < 0.35
        if rng.random() < 0.5:
            seq[-1] = dict(seq[0])       # A, B, A
        # only the last lookup may be required: an error ends the configuration
        for l in seq[:-1]:
            if l['required'] and rng.random() < 0.7:
                l['required'] = False
        out.append({
            'system': rng.choice([None, '1.0', '2.0', 'unknown']),
            'wrap_mode': rng.choice(A_FACTORS['wrap_mode']), 'fff': rng.choice(A_FACTORS['fff']),
            **random_dl(rng, sub),
            'provide': provide, 'sub_overrides': sub_overrides,
            'sub_download': sub and pre == 'none' and rng.random() < 0.25,
            'sub': sub, 'pre': pre, 'pver': rng.choice(['lo', 'hi']), 'optstyle': rng.choice(['D', 'long']),
            'sub_var_missing': sub and rng.random() < 0.15,
            'seq': seq,
        })
    return out


DL_VALUES = ('shared', 'static', 'both')


def random_dl(rng: random.Random, has_sub: bool) -> dict:
    """default_library of the main project and how (if at all) the subproject's differs."""
    main = rng.choice(['shared', 'shared', 'static', 'both'])
    how = rng.choice(['same', 'same', 'default_options', 'cmdline']) if has_sub else 'same'
    val = rng.choice([v for v in DL_VALUES if v != main]) if how != 'same' else None
    return {'main_dl': main, 'sub_dl_how': how, 'sub_dl_value': val}


def a_static_table(rng: random.Random, full: bool = False) -> T.List[dict]:
    """static: on the lookup x default_library of main project vs subproject, for the link kinds that rely on the
    subproject's meson.override_dependency(): fallback: 'sub', [provide] dependency_names, an earlier subproject()."""
    out = []
    for fb, extra in (('explicit', {'sub_overrides': True, 'eform': 'single'}),
                      ('explicit', {'sub_overrides': True, 'eform': 'pair'}),
                      ('provide', {'sub_overrides': True}),
                      ('provide', {'sub_overrides': False}),
                      ('override_sub', {}), ('override', {}), ('configured', {})):
        for static in (None, True, False):
            for main in (('shared', 'static', 'both') if full else ('shared', 'static')):
                for how, val in [('same', None)] + [(h, v) for h in ('default_options', 'cmdline')
                                                    for v in DL_VALUES if v != main and (full or v != 'both')]:
                    if fb == 'override' and how != 'same':
                        continue
                    for req in (True, False):
                        systems = A_FACTORS['system'] if full else (rng.choice([None, None, '2.0']),)
                        for system in systems:
                            cell = {'system': system, 'constraint': None, 'fb': fb, 'wrap_mode': 'default', 'fff': 'none',
                                    'required': req, 'allow_fallback': None if fb == 'explicit' else rng.choice([None, True]),
                                    'pver': rng.choice(['lo', 'hi']), 'static': static, 'main_dl': main,
                                    'sub_dl_how': how, 'sub_dl_value': val, 'optstyle': rng.choice(['D', 'long']),
                                    'nfm': rng.choice([0, 0, 1, 2, 3])}
                            cell.update(extra)
                            if rng.random() < 0.3:
                                cell['wrap_mode'] = rng.choice(A_FACTORS['wrap_mode'])
                                cell['fff'] = rng.choice(A_FACTORS['fff'])
                            out.append(cell)
    return out


VERSION_CONSTRAINTS = (None, '<2.0', '<=2.0', '!=1.0', MULTI, '>=2.0', '>1.0', ('>=1.0', '<2.0'))


def a_version_table(rng: random.Random, full: bool = False) -> T.List[dict]:
    """Version of the system dependency {1.0, 2.0, unknown (empty Version: field)} x constraint shapes (upper bounds,
    inequalities, arrays, lower bounds) x link kind x required: "These requirements are never met if the version
    is unknown"."""
    out = []
    for system in ('unknown', '1.0', '2.0'):
        for con in VERSION_CONSTRAINTS:
            for fb in ('none', 'explicit', 'provide'):
                for req in ((True, False) if (full or system == 'unknown') else (rng.choice([True, False]),)):
                    for pver in (('lo', 'hi') if full else (rng.choice(['lo', 'hi']),)):
                        out.append({'system': system, 'constraint': con, 'fb': fb, 'wrap_mode': 'default', 'fff': 'none',
                                    'required': req, 'allow_fallback': None if fb != 'provide' else rng.choice([None, True]),
                                    'pver': pver, 'nfm': rng.choice([0, 1, 2, 3]), 'sub_overrides': rng.random() < 0.5,
                                    'eform': rng.choice(['pair', 'single']), 'optstyle': rng.choice(['D', 'long'])})
    return out


def a_unknown_version_sequences(rng: random.Random, n: int) -> T.List[dict]:
    """An unknown-version system dependency looked up first WITHOUT a constraint (found, remembered), then with one:
    the remembered dependency must not satisfy it either."""
    out = []
    cons = [c for c in VERSION_CONSTRAINTS if c is not None]
    for i in range(n):
        fb = ('none', 'explicit', 'provide')[i % 3]
        mk = lambda con, req: {'constraint': con, 'required': req, 'allow_fallback': None, 'explicit': fb == 'explicit',  # noqa: E731
                               'eform': 'pair', 'afform': 'kw', 'static': None, 'nfm': rng.random() < 0.3}
        seq = [mk(None, False), mk(cons[i % len(cons)], False)]
        if rng.random() < 0.5:
            seq.append(mk(rng.choice(cons), rng.random() < 0.3))
        out.append({'system': 'unknown', 'wrap_mode': rng.choice(['default', 'default', 'nodownload', 'nofallback']),
                    'fff': 'none', 'main_dl': 'shared', 'sub_dl_how': 'same', 'sub_dl_value': None,
                    'provide': fb == 'provide', 'sub_overrides': False, 'sub_download': False, 'sub': fb != 'none',
                    'pre': 'none', 'pver': rng.choice(['lo', 'hi']), 'optstyle': rng.choice(['D', 'long']), 'seq': seq})
    return out


def a_reconfigure_worlds(rng: random.Random, n: int) -> T.List[dict]:
    """Worlds configured once and then reconfigured with other wrap_mode / force_fallback_for values.
    All lookups are optional so that the first configuration succeeds."""
    out = []
    for _ in range(n):
        fb = rng.choice(['explicit', 'provide', 'provide', 'none'])
        cell = {'system': rng.choice([None, '1.0', '2.0', '2.0', 'unknown']),
                'constraint': rng.choice([None, None, '>=2', '<2', MULTI]), 'nfm': rng.choice([0, 0, 1, 2, 3]),
                'fb': fb, 'wrap_mode': rng.choice(A_FACTORS['wrap_mode']), 'fff': rng.choice(A_FACTORS['fff']),
                'required': False, 'allow_fallback': None if fb == 'explicit' else rng.choice([None, True, True, False]),
                'pver': rng.choice(['lo', 'hi']), 'sub_overrides': rng.random() < 0.5,
                'eform': rng.choice(['pair', 'single']), 'afform': rng.choice(['kw', 'emptyfb']),
                'sub_download': rng.random() < 0.2, 'optstyle': rng.choice(['D', 'long'])}
        w = a_cell_to_world(cell)
        while True:
            p2 = {'wrap_mode': rng.choice(A_FACTORS['wrap_mode']), 'fff': rng.choice(A_FACTORS['fff'])}
            if (p2['wrap_mode'], p2['fff']) != (cell['wrap_mode'], cell['fff']):
                break
        if rng.random() < 0.55:
            # the system dependency comes from two pkg-config directories; the reconfiguration reorders them,
            # drops or adds one (and may keep or change the wrap options)
            r = rng.random()
            if r < 0.5:
                a, b = rng.choice([(['A', 'B'], ['B', 'A']), (['B', 'A'], ['A', 'B'])])
            else:
                paths = [[], ['A'], ['B'], ['A', 'B'], ['B', 'A']]
                a = rng.choice(paths)
                b = rng.choice([x for x in paths if x != a])
            w['pcpath'] = a
            w['system'] = None
            if rng.random() < 0.6:
                p2 = {'wrap_mode': cell['wrap_mode'], 'fff': cell['fff']}
            p2['pcpath'] = b
        w['phase2'] = p2
        out.append(w)
    return out


def _kwargs_text(lk: dict, world: T.Optional[dict] = None) -> str:
    parts = []
    if lk.get('static') is not None:
        parts.append('static: ' + ('true' if lk['static'] else 'false'))
    if world and world.get('sub_dl_how') == 'default_options':
        parts.append(f"default_options: ['default_library={world['sub_dl_value']}']")
    if isinstance(lk['constraint'], (list, tuple)):
        parts.append('version: [' + ', '.join(f"'{c}'" for c in lk['constraint']) + ']')
    elif lk['constraint'] is not None:
        parts.append(f"version: '{lk['constraint']}'")
    if lk.get('nfm'):
        # "An optional string that will be printed as a message() if the dependency was not found": no effect on
        # what is returned
        parts.append("not_found_message: 'c10: not found'")
    if not lk['required']:
        parts.append('required: false')
    if lk['allow_fallback'] is False and lk.get('afform') == 'emptyfb' and not lk['explicit']:
        parts.append('fallback: []')   # "If the value is an empty array it has the same effect as allow_fallback: false"
    elif lk['allow_fallback'] is not None:
        parts.append('allow_fallback: ' + ('true' if lk['allow_fallback'] else 'false'))
    if lk['explicit']:
        sub = sub_of(world or {})
        if lk.get('eform') == 'single':
            parts.append(f"fallback: '{sub}'")   # the subproject must use meson.override_dependency()
        else:
            parts.append(f"fallback: ['{sub}', '{VAR}']")
    return ''.join(', ' + p for p in parts)


def a_world_files(world: dict, root: str = '') -> T.Tuple[T.Dict[str, T.Union[str, bytes]], T.List[str], T.Dict[str, str]]:
    """-> (files relative to the case root, extra `meson setup` arguments, {}); `root` (absolute) is needed for
    the file:// URL of a world whose subproject must be downloaded."""
    files: T.Dict[str, T.Union[str, bytes]] = {}
    DEP, SUB = dep_of(world), sub_of(world)      # shadow the module defaults: the names are factors of the world
    if world.get('pcpath') is not None:
        # the system dependency lives in two directories, in different versions; -Dpkg_config_path selects (ordered)
        files['pc/.keep'] = ''
        for d, v in PCDIRS.items():
            files[f'pc{d}/{DEP}.pc'] = f'Name: {DEP}\nDescription: system {DEP} in {d}\nVersion: {v}\n'
    elif world['system'] is not None:
        ver = '' if world['system'] == 'unknown' else ' ' + world['system']
        files[f'pc/{DEP}.pc'] = f'Name: {DEP}\nDescription: system {DEP}\nVersion:{ver}\n'
    else:
        files['pc/.keep'] = ''
    # implicit_ver: the subproject's dependency has NO version: of its own and therefore carries the SUBPROJECT's
    # project version; the main project then has a version of its own that no provider uses
    top = ["project('top', version: '5.5', meson_version: '>=1.0')" if world.get('implicit_ver')
           else "project('top', meson_version: '>=1.0')"]
    pre = world['pre']
    subcall = f"subproject('{SUB}')"
    if world.get('sub_dl_how') == 'default_options':
        subcall = f"subproject('{SUB}', default_options: ['default_library={world['sub_dl_value']}'])"
    if pre == 'configured':
        top.append(subcall)
    elif pre == 'override':
        top.append(f"meson.override_dependency('{DEP}', declare_dependency(version: '{OVR_VERSIONS[world['pver']]}'))")
    elif pre == 'override_sub':
        top.append(subcall)
    elif pre == 'failed_sub':
        top.append(f"subproject('{SUB}', required: false)")
    for i, lk in enumerate(world['seq'], 1):
        top.append(f"d{i} = dependency('{DEP}'{_kwargs_text(lk, world)})")
        top.append(f"message('R|{i}|@0@|@1@|@2@'.format(d{i}.found(), d{i}.type_name(), d{i}.version()))")
    if world.get('side_overrides'):
        # other things the subproject registers: visible iff the subproject was configured SUCCESSFULLY
        top.append(f"xb = dependency('{SIDE_DEP}', required: false)")
        top.append("message('X|dep|@0@'.format(xb.found()))")
        top.append(f"xp = find_program('{SIDE_PROG}', required: false)")
        top.append("message('X|prog|@0@'.format(xp.found()))")
    top.append("message('END')")
    files['src/meson.build'] = '\n'.join(top) + '\n'
    if world['sub']:
        # sub_var_missing: the link (fallback: [sub, var] / `name = var` in [provide]) names a variable the subproject
        # does not define (renamed upstream, or kept after the subproject switched to meson.override_dependency())
        var = 'renamed_' + VAR if world.get('sub_var_missing') else VAR
        if pre == 'override_sub':
            v = OVR_VERSIONS[world['pver']]
            body = f"{var} = declare_dependency(version: '{v}')\nmeson.override_dependency('{DEP}', {var})\n"
        else:
            v = SUB_VERSIONS[world['pver']]
            body = f"{var} = declare_dependency(version: '{v}')\n"
        if world.get('implicit_ver'):
            body = body.replace(f"declare_dependency(version: '{v}')", 'declare_dependency()')
        if pre != 'override_sub':
            pass
            if world.get('sub_overrides'):
                body += f"meson.override_dependency('{DEP}', {var})\n"
        subfiles: T.Dict[str, bytes] = {}
        if world.get('side_overrides'):
            body += (f"meson.override_dependency('{SIDE_DEP}', declare_dependency(version: '3.3'))\n"
                     f"meson.override_find_program('{SIDE_PROG}', files('prog.sh'))\n")
            subfiles['prog.sh'] = b'#!/bin/sh\nexit 0\n'
        if world.get('sub_fails') == 'error':
            body += "error('c10: this subproject fails after registering its overrides')\n"
        elif world.get('sub_fails') == 'missingdep':
            body += "dependency('c10-no-such-dependency-anywhere')\n"
        subproj_version = v if world.get('implicit_ver') else '9.9'
        text = f"project('{SUB}', version: '{subproj_version}', meson_version: '>=1.0')\n" + body
        for rel, data in subfiles.items():
            if not world.get('sub_download'):
                files[f'src/subprojects/{SUB}/{rel}'] = data
        if world.get('sub_download'):
            blob = _archive({'meson.build': text.encode(), **subfiles}, 'tar', lead=SUB)
            files[f'srv/{SUB}.tar'] = blob
        else:
            files[f'src/subprojects/{SUB}/meson.build'] = text
    if world['provide'] or world.get('sub_download'):
        wrap = f'[wrap-file]\ndirectory = {SUB}\n'
        if world.get('sub_download'):
            wrap += (f'source_url = file://{root}/srv/{SUB}.tar\nsource_filename = {SUB}.tar\n'
                     f'source_hash = {sha256(blob)}\n')
        if world['provide'] and wrap_form(world) != 'wrapname':
            prov = f'dependency_names = {DEP}' if wrap_form(world) == 'names' else f'{DEP} = {VAR}'
            wrap += f'\n[provide]\n{prov}\n'
        files[f'src/subprojects/{SUB}.wrap'] = wrap
    args: T.List[str] = []
    long = world.get('optstyle') == 'long'
    if world['wrap_mode'] != 'default':
        args.append(f'--wrap-mode={world["wrap_mode"]}' if long else f'-Dwrap_mode={world["wrap_mode"]}')
    if world.get('main_dl', 'shared') != 'shared':
        args.append(f'-Ddefault_library={world["main_dl"]}')
    if world.get('sub_dl_how') == 'cmdline':
        args.append(f'-D{SUB}:default_library={world["sub_dl_value"]}')
    if world['fff'] != 'none':
        val = DEP if world['fff'] == 'dep' else SUB
        args.append(f'--force-fallback-for={val}' if long else f'-Dforce_fallback_for={val}')
    if world.get('pcpath') is not None:
        args.append(pcpath_arg(world['pcpath'], root))
    if world.get('nested'):
        files = nest_files(files, world['nested'])
    return files, args, {}


NEST = 'A'


def nest_files(files: T.Dict[str, T.Union[str, bytes]], spdir: str) -> T.Dict[str, T.Union[str, bytes]]:
    """The whole world moves one level down: the lookups happen in subproject A of a new, empty main project; A keeps
    its providers (wrap files, subproject trees) in ITS OWN subproject directory `spdir` ('subprojects' or another
    name).  The policy is the same for a dependency() call wherever it is made."""
    out: T.Dict[str, T.Union[str, bytes]] = {}
    for rel, data in files.items():
        if rel == 'src/meson.build':
            assert isinstance(data, str)
            first, rest = data.split('\n', 1)
            first = first.replace("project('top'", f"project('{NEST}', subproject_dir: '{spdir}'")
            out[f'src/subprojects/{NEST}/meson.build'] = first + '\n' + rest
        elif rel.startswith('src/subprojects/'):
            out[f'src/subprojects/{NEST}/{spdir}/' + rel[len('src/subprojects/'):]] = data
        else:
            out[rel] = data
    out['src/meson.build'] = f"project('top', meson_version: '>=1.0')\nsubproject('{NEST}')\n"
    return out


def a_nested_worlds(rng: random.Random, n: int) -> T.List[dict]:
    """Cells of the decision table looked up from INSIDE a subproject whose providers live in its own subproject
    directory (default name or another one)."""
    out = []
    cells = a_full_table()
    while len(out) < n:
        cell = dict(rng.choice(cells))
        if cell['fb'] in ('none', 'override') and rng.random() < 0.7:
            continue
        cell.update(nfm=rng.choice([0, 0, 1, 2]), sub_overrides=rng.random() < 0.5, eform=rng.choice(['pair', 'single']),
                    optstyle=rng.choice(['D', 'long']))
        w = a_cell_to_world(cell)
        w['nested'] = rng.choice(['subprojects', 'deps', 'deps'])
        out.append(w)
    return out


def wrap_form(world: dict) -> str:
    """[provide] `dependency_names = foo` (the subproject overrides the name) or `foo = foo_dep` (variable)."""
    return world.get('wrap_form') or ('names' if world.get('sub_overrides') else 'var')


def a_missing_variable_worlds(rng: random.Random, full: bool = False) -> T.List[dict]:
    """The link names a variable the configured subproject does not define: nothing suitable comes from it (optional
    -> not-found, required -> error) unless the subproject has overridden the name, in which case the override wins."""
    out = []
    for link in ('explicit', 'provide'):
        for sub_overrides in (False, True):
            for pre in ('none', 'failed_sub'):       # 'failed_sub' without sub_fails: subproject('sub', required: false) first
                for req in (False, True):
                    for system in ((None, '1.0', '2.0') if full else (None, rng.choice(['1.0', '2.0']))):
                        for missing in ((True, False) if full else (True,)):
                            con = rng.choice([None, None, '>=2', '<2'])
                            lk = {'constraint': con, 'required': req,
                                  'allow_fallback': None if link == 'explicit' else rng.choice([None, True]),
                                  'explicit': link == 'explicit', 'eform': 'pair', 'afform': 'kw',
                                  'static': None, 'nfm': rng.random() < 0.3}
                            seq = [lk, dict(lk)]
                            if rng.random() < 0.4:
                                seq.append(dict(lk, required=False, constraint=None))
                            out.append({'system': system, 'wrap_mode': rng.choice(['default', 'default', 'nodownload', 'forcefallback']),
                                        'fff': rng.choice(['none', 'none', 'sub']),
                                        'main_dl': 'shared', 'sub_dl_how': 'same', 'sub_dl_value': None,
                                        'provide': link == 'provide', 'wrap_form': 'var', 'sub_overrides': sub_overrides,
                                        'sub_var_missing': missing, 'sub_download': False, 'sub': True, 'pre': pre,
                                        'pver': rng.choice(['lo', 'hi']), 'optstyle': rng.choice(['D', 'long']), 'seq': seq})
    return out


PCDIRS = {'A': '1.0', 'B': '2.0'}
SIDE_DEP = 'c10bar'
SIDE_PROG = 'c10prog'


def pcpath_arg(pcpath: T.Sequence[str], root: str) -> str:
    return '-Dpkg_config_path=' + ','.join(f'{root}/pc{d}' for d in pcpath)


def system_of(world: dict) -> T.Optional[str]:
    """Version of the system dependency: with pkg_config_path the FIRST listed directory wins (both have it)."""
    if world.get('pcpath') is not None:
        return PCDIRS[world['pcpath'][0]] if world['pcpath'] else None
    return world['system']


def a_failing_sub_worlds(rng: random.Random, n: int) -> T.List[dict]:
    """A fallback / provide subproject that registers its overrides (the name, another name, a program) and then
    FAILS, reached by an optional lookup; then 1-2 more lookups of the same name.  A failed subproject provides
    nothing; repeated lookups agree."""
    out = []
    for _ in range(n):
        kind = rng.choice(['explicit', 'explicit', 'provide', 'provide', 'failed_sub'])
        sub_overrides = rng.random() < 0.8
        provide = kind == 'provide' or (kind == 'failed_sub' and rng.random() < 0.5)

        def first() -> dict:
            return {'constraint': rng.choice([None, None, '>=2', '<2', MULTI]), 'required': False,
                    'nfm': rng.random() < 0.35,
                    'allow_fallback': None if kind == 'explicit' else rng.choice([True, True, None]),
                    'explicit': kind == 'explicit',
                    'eform': rng.choice(['pair', 'single']) if sub_overrides else 'pair', 'afform': 'kw',
                    'static': rng.choice([None, None, None, True, False])}
        seq = [first()]
        for _k in range(rng.choice([1, 2, 2])):
            r = rng.random()
            if r < 0.45:
                seq.append(dict(seq[0]))
            elif r < 0.75:
                seq.append(first())
            else:
                l = dict(rng.choice([x for x in LOOKUP_ALPHABET if not x['explicit'] or kind == 'explicit']))
                l['required'] = False
                seq.append(l)
        if rng.random() < 0.25:
            seq[-1] = dict(seq[-1], required=True)
        out.append({
            'system': rng.choice([None, None, None, '1.0', '2.0', 'unknown']),
            'wrap_mode': rng.choice(['default', 'default', 'nodownload', 'forcefallback', 'nofallback']),
            'fff': rng.choice(['none', 'none', 'dep', 'sub']),
            'main_dl': 'shared', 'sub_dl_how': 'same', 'sub_dl_value': None,
            'provide': provide, 'sub_overrides': sub_overrides,
            'sub_download': kind != 'failed_sub' and rng.random() < 0.15,
            'sub': True, 'pre': 'failed_sub' if kind == 'failed_sub' else 'none',
            'pver': rng.choice(['lo', 'hi']), 'optstyle': rng.choice(['D', 'long']),
            'sub_fails': rng.choice(['error', 'error', 'missingdep']) if rng.random() < 0.85 else None,
            'side_overrides': True, 'seq': seq,
        })
    return out


_EXCLUDES = {'1.0': ('>=2', '>1.0', '>=2.0', ('>=1.5', '<3')), '2.0': ('<2', '<2.0', MULTI, '<=1.9')}
_ADMITS = {'1.0': (None, '<2', '<=2.0', ('>=1.0', '<2.0'), '>=1.0'), '2.0': (None, '>=2', '>1.0', '<=2.0', '!=1.0', '>=1.0')}


def a_relookup_worlds(rng: random.Random, n: int) -> T.List[dict]:
    """Lookup sequences in which an EARLIER lookup of the name was NOT satisfied (nothing is remembered for the name)
    and a later lookup asks again with OTHER keyword arguments (version constraint, required, fallback, static): every
    lookup is decided by its own arguments.  The system dependency is present in a version the first constraint
    excludes and the later one admits; the first lookup has no usable fallback (no link / optional [provide] lookup /
    allow_fallback: false / nofallback) or one whose version is excluded too.  The names are mostly ones meson
    serves through several detection methods (pkg-config among them)."""
    out = []
    for i in range(n):
        kind = ('none', 'provide-optional', 'explicit-later', 'provide-af-false', 'none', 'explicit-both-excluded',
                'provide-optional', 'explicit-later')[i % 8]
        system = ('1.0', '2.0')[(i // 8) % 2]
        pver = rng.choice(['lo', 'hi'])
        excl = list(_EXCLUDES[system])
        if kind == 'explicit-both-excluded':
            # the subproject's version must fail the first constraint as well
            pver = 'lo' if system == '1.0' else 'hi'
            excl = [c for c in excl if _excluded(SUB_VERSIONS[pver], c)]
        c1 = rng.choice(excl)
        c2 = rng.choice(_ADMITS[system])
        provide = kind.startswith('provide')
        sub = kind != 'none'
        mk = lambda con, req, expl, af: {'constraint': con, 'required': req, 'allow_fallback': af, 'explicit': expl,  # noqa: E731
                                         'eform': 'pair', 'afform': rng.choice(['kw', 'emptyfb']), 'static': None,
                                         'nfm': rng.random() < 0.2}
        first = mk(c1, False, kind == 'explicit-both-excluded', False if kind == 'provide-af-false' else None)
        second = mk(c2, rng.random() < 0.5, kind in ('explicit-later', 'explicit-both-excluded'),
                    rng.choice([None, True]) if provide else None)
        if rng.random() < 0.2:
            second['static'] = rng.choice([True, False])
        seq = [first, second]
        r = rng.random()
        if r < 0.3:
            seq.append(dict(second))                                  # A, B, B
        elif r < 0.5:
            seq = [first, dict(first), second]                        # A, A, B
        elif r < 0.65:
            seq.append(dict(first))                                   # A, B, A
        cls = ('factory', 'factory', 'factory', 'case', 'plain')[i % 5]
        out.append({'dep': rng.choice(DEP_NAMES[cls]), 'system': system,
                    'wrap_mode': rng.choice(['default', 'default', 'default', 'nodownload', 'nofallback']), 'fff': 'none',
                    'main_dl': 'shared', 'sub_dl_how': 'same', 'sub_dl_value': None,
                    'provide': provide, 'sub_overrides': sub and rng.random() < 0.4, 'sub_download': False, 'sub': sub,
                    'pre': 'none', 'pver': pver, 'optstyle': rng.choice(['D', 'long']), 'relookup': kind, 'seq': seq})
    return out


def _excluded(version: str, con: T.Any) -> bool:
    """Tiny evaluator for the constraints of _EXCLUDES (generator-side only; the verdicts come from refdeps)."""
    import re
    cons = con if isinstance(con, (list, tuple)) else [con]
    key = lambda v: tuple(int(x) for x in re.findall(r'\d+', v))  # noqa: E731
    for c in cons:
        m = re.fullmatch(r'(>=|<=|!=|>|<)(.+)', c)
        assert m, c
        a, b = key(version), key(m.group(2))
        n = max(len(a), len(b))
        a, b = a + (0,) * (n - len(a)), b + (0,) * (n - len(b))
        if not {'>=': a >= b, '<=': a <= b, '>': a > b, '<': a < b, '!=': a != b}[m.group(1)]:
            return True
    return False


# ---- programs provided by a wrap file ([provide] program_names) ----------------------------------------------------
PROG_NAMES = ('c10prog', 'C10Prog', 'MyProg', 'myPROG-2', 'c10-tool.sh', 'TOOL')


def p_worlds(rng: random.Random, n: int) -> T.List[dict]:
    """Wrap-dependency-system-manual.md: "Programs can also be provided by wrap files, with the `program_names` key
    ... `find_program('myprog')` will automatically fallback to use the subproject, assuming it uses
    `meson.override_find_program('myprog')`" - the same spelling in the wrap file, find_program() and the override."""
    out = []
    for i in range(n):
        out.append({'prog': PROG_NAMES[i % len(PROG_NAMES)], 'others': rng.choice([(), ('other',), ('Other', 'x')]),
                    'position': rng.choice(['first', 'last']),
                    'wrap_mode': ('default', 'forcefallback', 'nodownload', 'default')[i % 4],
                    'fff': rng.choice(['none', 'none', 'sub']), 'with_deps': rng.random() < 0.5,
                    'optstyle': rng.choice(['D', 'long'])})
    return out


def p_world_files(world: dict) -> T.Tuple[T.Dict[str, T.Union[str, bytes]], T.List[str]]:
    name = world['prog']
    names = list(world['others'])
    names.insert(0 if world['position'] == 'first' else len(names), name)
    wrap = f'[wrap-file]\ndirectory = {SUB}\n\n[provide]\n'
    if world.get('with_deps'):
        wrap += 'dependency_names = c10-some-dep\n'
    wrap += 'program_names = ' + ', '.join(names) + '\n'
    files: T.Dict[str, T.Union[str, bytes]] = {
        'pc/.keep': '',
        'src/meson.build': ("project('top', meson_version: '>=1.0')\n"
                            f"p = find_program('{name}')\n"
                            "message('P|@0@'.format(p.found()))\nmessage('END')\n"),
        f'src/subprojects/{SUB}.wrap': wrap,
        f'src/subprojects/{SUB}/meson.build': (f"project('{SUB}', meson_version: '>=1.0')\n"
                                               f"meson.override_find_program('{name}', files('prog.sh'))\n"),
        f'src/subprojects/{SUB}/prog.sh': b'#!/bin/sh\nexit 0\n',
    }
    args: T.List[str] = []
    long = world.get('optstyle') == 'long'
    if world['wrap_mode'] != 'default':
        args.append(f'--wrap-mode={world["wrap_mode"]}' if long else f'-Dwrap_mode={world["wrap_mode"]}')
    if world['fff'] != 'none':
        args.append(f'--force-fallback-for={SUB}' if long else f'-Dforce_fallback_for={SUB}')
    return files, args


def classify_answer(found: str, type_name: str, version: str) -> T.Tuple[str, ...]:
    """The printed triple -> answer tuple of refdeps; anything inexplicable is ('weird', ...)."""
    if found == 'false':
        return ('notfound',)
    if found != 'true':
        return ('weird', found, type_name, version)
    if version in SYSTEM_VERSIONS and type_name == 'pkgconfig':
        return ('system', version)
    if version in SUB_VERSIONS.values() and type_name == 'internal':
        return ('sub', version)
    if version in OVR_VERSIONS.values() and type_name == 'internal':
        return ('override', version)
    return ('weird', found, type_name, version)


# ------------------------------------------------------------------------------------------------
# Part B
# ------------------------------------------------------------------------------------------------
DIRNAME = 'sub-1.0'
GOOD_DATA = ''.join(f'line {i} good\n' for i in range(1, 31))


def _src_tree(has_build: bool, evil: bool = False) -> T.Dict[str, bytes]:
    tag = 'EVIL' if evil else 'good'
    t = {
        'lib/data.txt': (GOOD_DATA if not evil else GOOD_DATA.replace('good', 'EVIL')).encode(),
        'README': f'{tag} source tree\n'.encode(),
    }
    if has_build:
        t['meson.build'] = f"project('sub', version: '1.0')\nmarker = 'src-build-{tag}'\n".encode()
    return t


def _overlay_tree(evil: bool = False) -> T.Dict[str, bytes]:
    tag = 'EVIL' if evil else 'good'
    return {
        'meson.build': f"project('sub', version: '1.0')\nmarker = 'overlay-build-{tag}'\n".encode(),
        'overlay.txt': f'{tag} overlay file\n'.encode(),
    }


TREE_EXTRAS = ('dangling', 'dirlink', 'readonly')
# what tree_digest() of the driver reports for them
EXTRA_EXPECT = {'dangling': {'dangling.lnk': 'link:does/not/exist'},
                'dirlink': {'dirlink': 'link:lib'},
                'readonly': {'ro/readonly.txt': hashlib.sha256(b'read-only file\n').hexdigest()}}


def _archive(tree: T.Dict[str, bytes], fmt: str, lead: str = DIRNAME, extras: T.Sequence[str] = ()) -> bytes:
    """`extras` (tar formats only): a dangling symlink, a symlink to a directory, a read-only file in a
    read-only directory - the things upstream tarballs contain and a clean-up has to cope with."""
    buf = io.BytesIO()
    if fmt == 'zip':
        assert not extras
        with zipfile.ZipFile(buf, 'w', zipfile.ZIP_STORED) as z:
            for rel in sorted(tree):
                zi = zipfile.ZipInfo(f'{lead}/{rel}', date_time=(2020, 1, 1, 0, 0, 0))
                zi.external_attr = 0o644 << 16
                z.writestr(zi, tree[rel])
    else:
        mode = {'tar': 'w', 'tar.gz': 'w:gz', 'tar.xz': 'w:xz'}[fmt]
        with tarfile.open(fileobj=buf, mode=mode, format=tarfile.GNU_FORMAT) as tf:
            for rel in sorted(tree):
                ti = tarfile.TarInfo(f'{lead}/{rel}')
                ti.size = len(tree[rel])
                ti.mtime = 1577836800
                ti.mode = 0o644
                tf.addfile(ti, io.BytesIO(tree[rel]))
            if 'dangling' in extras:
                ti = tarfile.TarInfo(f'{lead}/dangling.lnk')
                ti.type, ti.linkname, ti.mtime = tarfile.SYMTYPE, 'does/not/exist', 1577836800
                tf.addfile(ti)
            if 'dirlink' in extras:
                ti = tarfile.TarInfo(f'{lead}/dirlink')
                ti.type, ti.linkname, ti.mtime = tarfile.SYMTYPE, 'lib', 1577836800
                tf.addfile(ti)
            if 'readonly' in extras:
                ti = tarfile.TarInfo(f'{lead}/ro')
                ti.type, ti.mode, ti.mtime = tarfile.DIRTYPE, 0o555, 1577836800
                tf.addfile(ti)
                data = b'read-only file\n'
                ti = tarfile.TarInfo(f'{lead}/ro/readonly.txt')
                ti.size, ti.mode, ti.mtime = len(data), 0o444, 1577836800
                tf.addfile(ti, io.BytesIO(data))
    return buf.getvalue()


def sha256(b: bytes) -> str:
    return hashlib.sha256(b).hexdigest()


def corrupt(data: bytes, cls: str, other: bytes, evil: bytes, fmt: str) -> T.Optional[bytes]:
    """Apply a corruption class. `absent` -> None (no file at the location)."""
    if cls == 'none':
        return data
    if cls == 'absent':
        return None
    if cls == 'bitflip':
        # flip one bit inside file *content* where possible (plain tar / stored zip: the archive stays readable)
        idx = data.find(b'good')
        if idx < 0:
            idx = len(data) // 2
        b = bytearray(data)
        b[idx] ^= 0x02
        return bytes(b)
    if cls == 'trunc':
        return data[:max(1, len(data) * 2 // 3)]
    if cls == 'swap':
        return other
    if cls == 'evil':
        return evil
    if cls == 'empty':
        return b''
    raise ValueError(cls)


HASH_CLASSES = ('ok', 'upper', 'lastdigit', 'firstdigit', 'other', 'prefix32', 'empty', 'missing')
BAD_HASH_CLASSES = ('lastdigit', 'firstdigit', 'other', 'prefix32', 'empty')


def recorded_hash(true_hash: str, cls: str) -> T.Optional[str]:
    """What the wrap file records. None = key absent."""
    if cls == 'ok':
        return true_hash
    if cls == 'upper':
        return true_hash.upper()
    if cls == 'lastdigit':
        return true_hash[:-1] + ('0' if true_hash[-1] != '0' else '1')
    if cls == 'firstdigit':
        return ('0' if true_hash[0] != '0' else '1') + true_hash[1:]
    if cls == 'other':
        return sha256(b'some other archive ' + true_hash.encode())
    if cls == 'prefix32':
        return true_hash[:32]
    if cls == 'empty':
        return ''
    if cls == 'missing':
        return None
    raise ValueError(cls)


def _good_diff() -> T.Tuple[str, bytes]:
    before = GOOD_DATA.splitlines(keepends=True)
    after = list(before)
    after[2] = 'line 3 patched by diff\n'
    after.insert(10, 'inserted by diff\n')
    d = ''.join(difflib.unified_diff(before, after, f'a/lib/data.txt', f'b/lib/data.txt'))
    return d, ''.join(after).encode()


def _bad_diff() -> str:
    before = [f'totally different {i}\n' for i in range(1, 31)]
    after = list(before)
    after[2] = 'never applies\n'
    return ''.join(difflib.unified_diff(before, after, 'a/lib/data.txt', 'b/lib/data.txt'))


ROLE_FILENAMES = {'source': {'tar': 'sub-1.0.tar', 'tar.gz': 'sub-1.0.tar.gz', 'zip': 'sub-1.0.zip'},
                  'patch': {'tar': 'sub-1.0-overlay.tar', 'tar.gz': 'sub-1.0-overlay.tar.gz', 'zip': 'sub-1.0-overlay.zip'}}


def b_default_role(**kw: T.Any) -> dict:
    r = {'loc': 'url', 'corrupt': 'none', 'fb_corrupt': 'none', 'hash': 'ok', 'fmt': 'tar'}
    r.update(kw)
    return r


def b_build(root: str, spec: dict) -> dict:
    """Materialise a wrap world below `root` (absolute). Returns facts the monitors/postconditions need:
    filenames, recorded hashes, pristine hashes, pre-seeded cache names, expected final tree."""
    src_has_build = spec.get('src_has_build', True)
    roles: T.Dict[str, dict] = {'source': spec['source']}
    if spec.get('patch'):
        roles['patch'] = spec['patch']
    fmt_s = roles['source']['fmt']
    fmt_p = roles['patch']['fmt'] if 'patch' in roles else 'tar'
    extras = tuple(spec.get('tree_extras') or ())
    pristine = {'source': _archive(_src_tree(src_has_build), fmt_s, extras=extras),
                'patch': _archive(_overlay_tree(), fmt_p)}
    evil = {'source': _archive(_src_tree(src_has_build, evil=True), fmt_s, extras=extras),
            'patch': _archive(_overlay_tree(evil=True), fmt_p)}
    other = {'source': pristine['patch'], 'patch': pristine['source']}
    files: T.Dict[str, T.Union[str, bytes]] = {}
    sp = 'src/subprojects'
    wrap = ['[wrap-file]', f'directory = {DIRNAME}']
    facts: T.Dict[str, T.Any] = {'roles': {}, 'preseeded': [], 'dirname': DIRNAME}
    for role, r in roles.items():
        fname = ROLE_FILENAMES[role][r['fmt']]
        good = pristine[role]
        rec = recorded_hash(sha256(good), r['hash'])
        wrap.append(f'{role}_filename = {fname}')
        if rec is not None:
            wrap.append(f'{role}_hash = {rec}')
        loc = r['loc']
        served = corrupt(good, r['corrupt'], other[role], evil[role], r['fmt'])
        if loc in ('url', 'url+fb'):
            wrap.append(f'{role}_url = file://{root}/srv/{fname}')
            if served is not None:
                files[f'srv/{fname}'] = served
            if loc == 'url+fb':
                fbs = corrupt(good, r['fb_corrupt'], other[role], evil[role], r['fmt'])
                wrap.append(f'{role}_fallback_url = file://{root}/srv-fb/{fname}')
                if fbs is not None:
                    files[f'srv-fb/{fname}'] = fbs
        elif loc == 'cache':
            # the URL still points at a pristine copy: what sits in the cache is what must be verified
            wrap.append(f'{role}_url = file://{root}/srv/{fname}')
            files[f'srv/{fname}'] = good
            if served is not None:
                files[f'{spec.get("cachedir_rel", sp + "/packagecache")}/{fname}'] = served
                facts['preseeded'].append(fname)
        elif loc == 'files':
            if served is not None:
                files[f'{sp}/packagefiles/{fname}'] = served
        else:
            raise ValueError(loc)
        facts['roles'][role] = {'filename': fname, 'recorded': rec, 'pristine_sha': sha256(good),
                                'loc': loc, 'hash_optional': loc == 'files'}
    expected = dict(_src_tree(src_has_build))
    if 'patch' in roles:
        expected.update(_overlay_tree())
    if spec.get('patch_directory'):
        wrap.append('patch_directory = ovl')
        for rel, data in _overlay_tree().items():
            files[f'{sp}/packagefiles/ovl/{rel}'] = data
        expected.update(_overlay_tree())
    diffs = spec.get('diffs')
    if diffs:
        good_d, after = _good_diff()
        if diffs == 'good' and spec.get('diff_build'):
            # a second diff that edits the subproject's own build file (upstream sources that already have one):
            # the marker the build file prints then tells whether the diff step was complete
            assert src_has_build and 'patch' not in roles and not spec.get('patch_directory')
            b_before = _src_tree(True)['meson.build'].decode()
            b_after = b_before.replace('src-build-good', 'src-build-good-diffed')
            files[f'{sp}/packagefiles/sub/0001.diff'] = good_d
            files[f'{sp}/packagefiles/sub/0002-build.diff'] = ''.join(difflib.unified_diff(
                b_before.splitlines(keepends=True), b_after.splitlines(keepends=True), 'a/meson.build', 'b/meson.build'))
            wrap.append('diff_files = sub/0001.diff, sub/0002-build.diff')
            expected['lib/data.txt'] = after
            expected['meson.build'] = b_after.encode()
        elif diffs == 'good':
            files[f'{sp}/packagefiles/sub/0001.diff'] = good_d
            wrap.append('diff_files = sub/0001.diff')
            expected['lib/data.txt'] = after
        elif diffs == 'bad':
            files[f'{sp}/packagefiles/sub/0001.diff'] = good_d
            files[f'{sp}/packagefiles/sub/0002.diff'] = _bad_diff()
            wrap.append('diff_files = sub/0001.diff, sub/0002.diff')
        elif diffs == 'missing':
            wrap.append('diff_files = sub/nothere.diff')
        else:
            raise ValueError(diffs)
    files[f'{sp}/sub.wrap'] = '\n'.join(wrap) + '\n'
    files['src/meson.build'] = ("project('top', meson_version: '>=1.0')\n"
                                "sp = subproject('sub')\n"
                                "message('MARKER|' + sp.get_variable('marker'))\n")
    facts['expected_tree'] = {k: sha256(v) for k, v in expected.items()}
    for e in extras:
        facts['expected_tree'].update(EXTRA_EXPECT[e])
    facts['has_buildfile_when_complete'] = 'meson.build' in expected
    m = re.search(rb"marker = '([^']*)'", expected.get('meson.build', b''))
    facts['final_marker'] = m.group(1).decode() if m else None
    facts['files'] = files
    return facts


def b_expect_success(spec: dict) -> T.Optional[bool]:
    """Whether the FAULT-FREE command can succeed according to the documents; None = not decided
    (the check then only applies the safety rules)."""
    if spec.get('diffs') in ('bad', 'missing'):
        return False
    nodl = spec.get('wrap_mode') == 'nodownload'
    roles = [spec['source']] + ([spec['patch']] if spec.get('patch') else [])
    verdicts: T.List[T.Optional[bool]] = []
    for r in roles:
        hash_bad = r['hash'] in BAD_HASH_CLASSES
        if r['hash'] == 'upper':
            verdicts.append(None if r['corrupt'] == 'none' else False)   # hex case: the documents are silent
            continue
        if r['loc'] == 'files':
            if r['hash'] == 'missing':
                verdicts.append(True if r['corrupt'] == 'none' else None)
            else:
                verdicts.append(r['corrupt'] == 'none' and not hash_bad)
            continue
        if r['hash'] == 'missing' or hash_bad:
            verdicts.append(False)
            continue
        if r['loc'] == 'cache':
            verdicts.append(r['corrupt'] == 'none')   # "The file's hash will be checked."
        elif nodl:
            verdicts.append(False)
        elif r['loc'] == 'url':
            verdicts.append(r['corrupt'] == 'none')
        elif r['corrupt'] == 'none' or (r['corrupt'] == 'absent' and r['fb_corrupt'] == 'none'):
            verdicts.append(True)    # "fallback URL to be used when download from source_url fails"
        elif r['fb_corrupt'] == 'none':
            verdicts.append(None)    # is a hash mismatch a failed download? not decided by the documents
        else:
            verdicts.append(False)
    if any(v is False for v in verdicts):
        return False
    if any(v is None for v in verdicts):
        return None
    if not spec.get('src_has_build', True) and not spec.get('patch') and not spec.get('patch_directory'):
        return False
    return True
