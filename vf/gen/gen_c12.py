"""C12 workload generator: language-less projects whose tests are all the probe tools/c12_probe.py, and
`meson test` invocations over them.  Pure data (dicts/lists) so that every case is a JSON witness.

A test spec:
  {'name','parallel','priority','dur':[ms per iteration],'rc':[status per iteration],'should_fail','xfail_kw',
   (an rc < 0 means: the program dies by signal -rc)
   'timeout': None|int seconds, 'protocol':'exitcode'|'tap'|'gtest'|'rust','tap': None|str,'term','suites':[...],
   'victim':bool,
   'xml': (gtest) what happens to the XML report meson asks for: 'full'|'lie'|'cut'|'empty'|'garbage'|'none', a
          '/'-separated list is indexed by iteration,  'rust': (rust) list of libtest result lines 'K.R' (see the probe),
   'leak': ms a forked helper keeps the test's stdout/stderr open after the test program exited, 'leakterm'}

`tests` is listed in the order meson is documented to start them (descending priority; the declaration order
`decl` is a shuffle that keeps the relative order of equal-priority tests, so the generator never relies on the
implementation-defined order of equal priorities more than the stable sort meson really uses - the checker does not
depend on that order at all).
"""
from __future__ import annotations

import json
import os
import random
import sys
import typing as T

PROBE = os.path.join(os.path.dirname(os.path.dirname(os.path.dirname(os.path.abspath(__file__)))), 'tools', 'c12_probe.py')
PYTHON = sys.executable
SUITES = ['s1', 's2', 's3']
PROFILES = ['long-par-before-serial', 'zeros', 'serial-b2b', 'mixed', 'classify', 'allgood', 'saturate',
            'stragglers', 'victims', 'maxfail-race', 'onebad', 'leaky', 'protocols']
VICTIM_DUR = 5000     # ms: far beyond any effective timeout used for victims (<= 1 s)


def _t(name: str, **kw: T.Any) -> dict:
    d = {'name': name, 'parallel': True, 'priority': 0, 'dur': [0], 'rc': [0], 'should_fail': False,
         'xfail_kw': 'should_fail', 'timeout': None, 'protocol': 'exitcode', 'tap': None, 'term': 'default',
         'suites': [], 'victim': False, 'leak': 0, 'leakterm': 'default', 'out': 0, 'err': 0, 'outnl': True,
         'desc': 'plain', 'xml': None, 'rust': None}
    d.update(kw)
    return d


_RCS_BAD = [1, 2, 3, 42, 98, 100, 126, 127, 255]
_SIGNALS = [-11, -6, -9, -15, -8]      # rc < 0: the probe dies by that signal (SEGV, ABRT, KILL, TERM, FPE)


def _rand_rc(rng: random.Random, good_only: bool = False) -> int:
    if good_only:
        return rng.choice([0, 0, 0, 77])
    r = rng.random()
    if r < 0.55:
        return 0
    if r < 0.67:
        return 77
    if r < 0.79:
        return 99
    if r < 0.9:
        return 1
    return rng.choice(_RCS_BAD + _SIGNALS)


def _classify_fields(rng: random.Random, t: dict, good_only: bool, repeat_var: bool) -> None:
    """exit codes / should_fail / protocol for one test."""
    if rng.random() < 0.25:
        t['protocol'] = 'tap'
        if good_only:
            t['tap'] = rng.choice(['ok', 'ok,ok', 'ok,skip', 'skipall', 'ok,todo'])
            t['rc'] = [0]
            if rng.random() < 0.2:
                t['tap'] = rng.choice(['notok', 'ok,notok'])
                t['should_fail'] = True
        else:
            t['tap'] = rng.choice(['ok', 'ok,ok,ok', 'ok,notok', 'notok,ok', 'skipall', 'ok,skip', 'ok,todo',
                                   'ok,bail', 'notok', 'none', 'skip', 'skip,skip', 'todo'])
            t['rc'] = [0]
            r = rng.random()
            if t['tap'] in ('none', 'skip', 'skip,skip'):
                # the program dies before it reports a single real result (crash at start-up, after only skips):
                # always with a bad exit - exit 0 here is not fixed by the documents
                t['rc'] = [rng.choice([1, 2, 3, 127, 255] + _SIGNALS)]
                t['should_fail'] = r < 0.15
            elif t['tap'] == 'skipall' and r < 0.35:
                t['rc'] = [rng.choice([1, 3, 127] + _SIGNALS)]
            elif r < 0.2:
                t['should_fail'] = True
            elif r < 0.35:
                # outcome (FAIL or ERROR) undocumented: checked for "bad" only
                t['rc'] = [rng.choice([1, 77, 99, 3] + _SIGNALS)]
        return
    if good_only:
        if rng.random() < 0.3:
            t['should_fail'] = True
            t['rc'] = [rng.choice([1, 2, 42, 255])]
        else:
            t['rc'] = [_rand_rc(rng, True)]
        return
    t['rc'] = [_rand_rc(rng)]
    if repeat_var and rng.random() < 0.3:
        t['rc'] = [_rand_rc(rng) for _ in range(3)]
    if rng.random() < 0.25:
        t['should_fail'] = True
        if rng.random() < 0.3:
            t['xfail_kw'] = 'expected_fail'


def _durs(rng: random.Random, lo: int, hi: int) -> T.List[int]:
    d = [rng.randint(lo, hi)]
    if rng.random() < 0.2:
        d += [rng.randint(lo, hi), rng.randint(lo, hi)]
    return d


# ---- protocols 'gtest' and 'rust' -----------------------------------------------------------------------------
XML_MODES = ['full', 'lie', 'none', 'cut', 'empty', 'garbage']
_RUST_PLAIN = ['u', 'n', 'd']              # names libtest prints bare
_RUST_DECORATED = ['p', 'dp', 'dc', 'dn']  # names libtest decorates: "- should panic", "- compile fail", "- compile"


def rust_items(rng: random.Random, outcome: str, decorated_fail: bool = False) -> T.List[str]:
    """libtest result lines for a binary whose run is 'ok' | 'fail' | 'ignored' | 'empty' as a whole."""
    if outcome == 'empty':
        return []
    if outcome == 'ignored':
        return [rng.choice(_RUST_PLAIN) + '.' + rng.choice(['ign', 'ignr']) for _ in range(rng.randint(1, 3))]
    items = [rng.choice(_RUST_PLAIN + _RUST_DECORATED) + '.ok' for _ in range(rng.randint(0 if outcome == 'fail' else 1, 4))]
    if rng.random() < 0.3:
        items.append(rng.choice(_RUST_PLAIN) + '.' + rng.choice(['ign', 'ignr']))
    if outcome == 'fail':
        kinds = ['p', 'dp', 'dc'] if decorated_fail else _RUST_PLAIN
        items += [rng.choice(kinds) + '.fail' for _ in range(rng.randint(1, 2))]
    rng.shuffle(items)
    return items


def _protocols_project(rng: random.Random, add: T.Callable[..., dict]) -> None:
    """Directed project: every kind of XML report x exit status for protocol 'gtest' (also when the limit passes while
    the report is half written), every shape of libtest line x outcome for protocol 'rust'.  Tests whose scripted
    outcome is good carry good=True (they get suite 'good': a run of only those must exit 0)."""
    def g(mode: str, rc: int, **kw: T.Any) -> dict:
        return add(parallel=rng.random() < 0.85, dur=[rng.randint(0, 25)], protocol='gtest', xml=mode, rc=[rc], **kw)

    bad = [1, 2, 3, 42, 127, 255]
    unreadable = ['cut', 'empty', 'garbage']
    fixed = [('cut', 0, {}), ('cut', 77, {}), ('cut', rng.choice(bad), {}), ('cut', 99, {}),
             (rng.choice(unreadable), 0, {}), (rng.choice(unreadable), 77, {}), (rng.choice(unreadable), rng.choice(bad), {}),
             ('empty', rng.choice([0, 0, 77, 3]), {}), ('garbage', rng.choice([0, 0, 77, 3]), {}),
             ('lie', 0, {}), ('lie', rng.choice(bad), {}), ('full', 0, {}), ('full', rng.choice(bad), {}),
             ('none', 0, {}), ('none', rng.choice(bad + [99]), {}),
             (rng.choice(unreadable), rng.choice(_SIGNALS), {}),
             (rng.choice(unreadable), rng.choice(bad), {'should_fail': True}),
             (rng.choice(XML_MODES), 0, {'should_fail': True}),
             # a report left by another iteration / an earlier invocation, not rewritten this time
             ('cut/none', 0, {}), ('lie/none', 0, {}), ('none/cut', rng.choice([0, 77]), {})]
    rng.shuffle(fixed)
    for mode, rc, kw in fixed:
        g(mode, rc, good=rc in (0, 77) and not kw, **kw)
    # the limit passes while the report is half written (or missing): TIMEOUT whatever the file looks like
    for k, mode in enumerate(rng.sample(['cut', 'full', 'lie'], 2) + ['none']):
        add(parallel=True, dur=[VICTIM_DUR], timeout=1, victim=True, protocol='gtest', xml=mode,
            term=['default', 'handle', 'ignore'][(k + rng.randint(0, 2)) % 3], rc=[rng.choice([0, 1])])
    add(parallel=False, dur=[rng.randint(0, 30)], good=True)

    def r(outcome: str, decorated_fail: bool = False, **kw: T.Any) -> dict:
        return add(parallel=rng.random() < 0.85, dur=[rng.randint(0, 25)], protocol='rust',
                   rust=rust_items(rng, outcome, decorated_fail), rc=[101 if outcome == 'fail' else 0], **kw)

    shapes = [('ok', False, {}), ('ok', False, {}), ('fail', False, {}), ('fail', True, {}), ('fail', True, {}),
              ('ignored', False, {}), ('empty', False, {}), ('fail', True, {'should_fail': True}),
              ('fail', False, {'should_fail': True}), ('ok', False, {'should_fail': True})]
    rng.shuffle(shapes)
    for outcome, dec, kw in shapes:
        r(outcome, dec, good=outcome != 'fail' and not kw, **kw)
    # the only failure is on a decorated name / the only result line is a decorated one
    add(parallel=True, dur=[rng.randint(0, 25)], protocol='rust', rc=[101], good=False,
        rust=[rng.choice(['p', 'dp', 'dc']) + '.fail'])
    add(parallel=True, dur=[rng.randint(0, 25)], protocol='rust', rc=[101], good=False,
        rust=['u.ok', 'd.ok', rng.choice(['p', 'dp', 'dc']) + '.fail', 'n.ok'])
    add(parallel=True, dur=[rng.randint(0, 25)], protocol='rust', rc=[0], good=True,
        rust=[k + '.ok' for k in _RUST_DECORATED])
    add(parallel=True, dur=[rng.randint(0, 25)], protocol='rust', rc=[0], good=True,
        rust=[k + '.ok' for k in _RUST_PLAIN])
    add(parallel=False, dur=[rng.randint(0, 30)], good=True)


def _protocol_pass(seq: T.List[dict], profile: str) -> None:
    """Other profiles: some exit-code tests speak 'gtest' (any exit status, any report) or 'rust' (libtest lines whose
    verdict is the one the exit status had) instead.  Goodness/badness of every test is preserved, so the profiles
    keep their meaning.  Own random stream (a function of the project), the main stream is not consumed."""
    prng = random.Random('c12-protocols:' + json.dumps(seq, sort_keys=True))
    for t in seq:
        if t['protocol'] != 'exitcode' or t['leak']:
            continue
        r = prng.random()
        if t['victim']:
            if r < 0.3:
                t.update(protocol='gtest', xml=prng.choice(['cut', 'full', 'lie', 'none']))
            continue
        if any(x < 0 for x in t['rc']):
            continue        # deaths by signal stay with the exit-code protocol here ('protocols' has them for gtest)
        if r < 0.12:
            mode = prng.choice(XML_MODES + ['cut', 'empty'])
            if len(t['rc']) > 1 or prng.random() < 0.2:
                mode += '/' + prng.choice(XML_MODES)
            t.update(protocol='gtest', xml=mode)
        elif r < 0.22 and len(t['rc']) == 1 and not t['out']:
            rc = t['rc'][0] & 0xFF
            if rc == 0:
                t.update(protocol='rust', rust=rust_items(prng, 'ok'))
            elif rc == 77 and not t['should_fail']:
                t.update(protocol='rust', rust=rust_items(prng, prng.choice(['ignored', 'ignored', 'empty'])), rc=[0])
            elif rc not in (77, 99) and not t['should_fail']:
                t.update(protocol='rust', rust=rust_items(prng, 'fail', prng.random() < 0.6), rc=[101])


def gen_project(rng: random.Random, profile: str, idx: int = 0, count: T.Optional[int] = None) -> dict:
    """One project. tests are laid out in intended start order.  `count` (profile 'slices' only): number of tests."""
    seq: T.List[dict] = []
    n = 0

    def add(**kw: T.Any) -> dict:
        nonlocal n
        n += 1
        t = _t(f't{n:02d}', **kw)
        seq.append(t)
        return t

    good_only = profile not in ('mixed', 'classify', 'maxfail-race', 'leaky', 'protocols')
    P = lambda lo, hi, **kw: add(parallel=True, dur=_durs(rng, lo, hi), **kw)   # noqa: E731
    S = lambda lo, hi, **kw: add(parallel=False, dur=_durs(rng, lo, hi), **kw)  # noqa: E731

    if profile == 'long-par-before-serial':
        for _ in range(rng.randint(1, 3)):
            for _ in range(rng.randint(0, 3)):
                P(0, 40)
            P(150, 300)
            for _ in range(rng.randint(0, 2)):
                P(0, 30)
            S(0, 80)
            for _ in range(rng.randint(0, 2)):
                P(0, 60)
    elif profile == 'zeros':
        for _ in range(rng.randint(12, 40)):
            (P if rng.random() < 0.7 else S)(0, 0)
    elif profile == 'serial-b2b':
        for _ in range(rng.randint(2, 4)):
            for _ in range(rng.randint(0, 2)):
                P(20, 150)
            for _ in range(rng.randint(2, 4)):
                S(0, 90)
            P(30, 200)
    elif profile == 'stragglers':
        # an early long parallel test outlives later short ones; then a serial test
        for _ in range(rng.randint(1, 2)):
            P(200, 300)
            for _ in range(rng.randint(1, 3)):
                P(0, 30)
            S(60, 120)
            P(80, 160)
            P(0, 20)
    elif profile == 'saturate':
        for _ in range(rng.randint(9, 12)):
            P(250, 400)
        S(0, 30)
        for _ in range(rng.randint(4, 10)):
            P(90, 220)
    elif profile == 'victims':
        for _ in range(rng.randint(1, 4)):
            (P if rng.random() < 0.7 else S)(0, 80)
        nv = 3 if idx < len(PROFILES) else rng.randint(1, 2)
        for k in range(nv):
            add(parallel=rng.random() < 0.7, dur=[VICTIM_DUR], timeout=1, victim=True,
                term=['default', 'handle', 'ignore'][(idx + k) % 3], rc=[rng.choice([0, 1])],
                should_fail=rng.random() < 0.2)
            for _ in range(rng.randint(0, 2)):
                (P if rng.random() < 0.6 else S)(0, 120)
        S(0, 40)
    elif profile == 'leaky':
        # the test program exits at once, a helper it forked keeps the inherited stdout/stderr open:
        # (a) past the limit  -> the limit passes with the pipe still held: TIMEOUT, group terminated
        # (b) for a short while, generous limit -> classified by the exit status once the pipe closes
        for _ in range(rng.randint(1, 3)):
            (P if rng.random() < 0.7 else S)(0, 60)
        for k in range(rng.randint(1, 2)):
            add(parallel=rng.random() < 0.7, dur=[rng.randint(0, 40)], leak=VICTIM_DUR, timeout=1, victim=True,
                rc=[rng.choice([0, 0, 1, 77])], should_fail=rng.random() < 0.2)
            (P if rng.random() < 0.6 else S)(0, 80)
        if idx < len(PROFILES) or rng.random() < 0.3:
            # directed probe of known finding descendant-left-running-after-TIMEOUT:sigterm-ignore
            add(parallel=True, dur=[rng.randint(0, 30)], leak=VICTIM_DUR, leakterm='ignore', timeout=1, victim=True)
            S(20, 60)
        for k in range(rng.randint(1, 3)):
            add(parallel=rng.random() < 0.6, dur=[rng.randint(0, 40)], leak=rng.randint(40, 220),
                rc=[rng.choice([0, 0, 1, 77, 99])], should_fail=rng.random() < 0.25)
        S(0, 40)
    elif profile == 'protocols':
        _protocols_project(rng, add)
    elif profile == 'slices':
        # many short tests: the set that --slice i/n is swept over for n up to (and beyond) the number of tests
        for _ in range(count or rng.randint(12, 40)):
            r = rng.random()
            if r < 0.7:
                (P if rng.random() < 0.75 else S)(0, 0)
            else:
                (P if rng.random() < 0.7 else S)(1, 25)
    elif profile == 'maxfail-race':
        # a failing short test while long parallel tests (some ignoring SIGTERM) are still running.  What is in
        # flight when the run is cut short would end with every kind of status (not only 0): whatever is reported
        # for it, it must not be a classification its program never earned
        for k in range(rng.randint(1, 3)):
            t = P(250, 400, term=rng.choice(['default', 'handle', 'ignore']),
                  rc=[rng.choice([3, 1, 42, 99, 77, -6] if k == 0 else [0, 0, 3, 1, 99, 77, 255, -11])])
            r = rng.random()
            if r < 0.2:
                t['should_fail'] = True
            elif r < 0.35:
                t.update(protocol='tap', tap=rng.choice(['ok,notok', 'ok', 'ok,bail']))
        add(parallel=True, dur=[rng.randint(0, 30)], rc=[1])
        for _ in range(rng.randint(1, 4)):
            (P if rng.random() < 0.7 else S)(0, 100)
        add(parallel=rng.random() < 0.5, dur=[rng.randint(0, 30)], rc=[99])
        for _ in range(rng.randint(1, 3)):
            (P if rng.random() < 0.7 else S)(0, 60)
    else:  # mixed / classify / allgood / onebad
        lo, hi = (5, 40) if profile != 'classify' else (14, 40)
        for _ in range(rng.randint(lo, hi)):
            r = rng.random()
            if profile == 'classify':
                (P if rng.random() < 0.8 else S)(0, 15)
            elif r < 0.35:
                (P if rng.random() < 0.6 else S)(0, 0)
            elif r < 0.8:
                (P if rng.random() < 0.65 else S)(1, 90)
            else:
                (P if rng.random() < 0.7 else S)(100, 300)

    if len(seq) < 5:
        for _ in range(5 - len(seq)):
            P(0, 50)
    seq = seq[:40] if profile not in ('protocols', 'slices') else seq

    repeat_var = profile in ('mixed', 'classify')
    for t in seq:
        if not t['victim'] and t['rc'] == [0] and profile not in ('maxfail-race', 'zeros', 'leaky', 'protocols'):
            if profile in ('classify', 'mixed', 'allgood', 'onebad') or rng.random() < 0.3:
                _classify_fields(rng, t, good_only, repeat_var)
    if profile == 'onebad':
        # exactly one kind of bad result in an otherwise good run: every term of the exit status matters
        t = rng.choice(seq)
        kind = rng.choice(['fail', 'error', 'upass', 'upass', 'tapfail', 'tapbail', 'taperror', 'tapsilentdie',
                           'tapskipdie', 'sigdeath', 'tapsigdeath'])
        t.update(protocol='exitcode', tap=None, should_fail=False, rc=[0])
        if kind == 'fail':
            t['rc'] = [rng.choice(_RCS_BAD)]
        elif kind == 'error':
            t['rc'] = [99]
            t['should_fail'] = rng.random() < 0.5
        elif kind == 'upass':
            t['should_fail'] = True
        elif kind == 'tapfail':
            t.update(protocol='tap', tap='ok,notok')
        elif kind == 'tapbail':
            t.update(protocol='tap', tap='ok,bail')
        elif kind == 'tapsilentdie':
            t.update(protocol='tap', tap='none', rc=[rng.choice([1, 3, 127] + _SIGNALS)])
        elif kind == 'tapskipdie':
            t.update(protocol='tap', tap=rng.choice(['skipall', 'skip', 'skip,skip']),
                     rc=[rng.choice([1, 3, 127] + _SIGNALS)])
        elif kind == 'sigdeath':
            t['rc'] = [rng.choice(_SIGNALS)]
        elif kind == 'tapsigdeath':
            t.update(protocol='tap', tap=rng.choice(['ok', 'ok,ok', 'ok,skip']), rc=[rng.choice(_SIGNALS)])
        else:
            t.update(protocol='tap', tap='ok', rc=[rng.choice([1, 3])])
    if profile == 'classify':
        # every run reaches the classes "exit status disagrees with / replaces the TAP stream" and "death by signal"
        cands = [t for t in seq if not t['victim']]
        rng.shuffle(cands)
        forced = [dict(protocol='tap', tap='none', rc=[rng.choice([1, 3, 127])]),
                  dict(protocol='tap', tap='none', rc=[rng.choice(_SIGNALS)]),
                  dict(protocol='tap', tap=rng.choice(['skipall', 'skip']), rc=[rng.choice([1, 2, 255])]),
                  dict(protocol='tap', tap=rng.choice(['ok', 'ok,ok']), rc=[rng.choice(_SIGNALS)]),
                  dict(protocol='exitcode', tap=None, rc=[rng.choice(_SIGNALS)]),
                  dict(protocol='exitcode', tap=None, rc=[rng.choice(_SIGNALS)], should_fail=True)]
        for t, f in zip(cands, forced):
            t.update(should_fail=False)
            t.update(f)
    # shape of what the test programs print - independent of how they end: bulk output with no newline inside
    # (below / at / far above asyncio's 64 KiB stream limit; stdout only for exitcode tests, stderr for any), and
    # TAP subtest descriptions containing characters that mean something elsewhere in TAP ('#')
    _SIZES = [1000, 65535, 65536, 65537, 70000, 100000, 200000]
    plain = [t for t in seq if not t['victim'] and not t['leak'] and profile != 'protocols']
    for t in plain:
        if t['protocol'] == 'tap' and rng.random() < 0.4:
            t['desc'] = rng.choice(['hash', 'sharp', 'path'])
        if rng.random() < 0.05:
            t['err' if t['protocol'] == 'tap' or rng.random() < 0.4 else 'out'] = rng.choice(_SIZES)
            t['outnl'] = rng.random() < 0.5
    if profile in ('classify', 'allgood') and len(plain) >= 6:
        pick = rng.sample(plain, 6)
        ex = [t for t in pick if t['protocol'] == 'exitcode']
        for t, (key, n, nl) in zip(ex, [('out', 200000, True), ('out', rng.choice([70000, 100000]), False),
                                        ('err', rng.choice([70000, 65537]), rng.random() < 0.5)]):
            t.update({'out': 0, 'err': 0})
            t[key] = n
            t['outnl'] = nl
        taps = [t for t in plain if t['protocol'] == 'tap' and 'ok' in (t['tap'] or '').replace('notok', 'ok')]
        for t, d in zip(taps, ['hash', 'sharp', 'hash']):
            t['desc'] = d
        if taps:
            taps[0]['err'] = 70000
            taps[0]['outnl'] = False
    for t in seq:
        # suites
        r = rng.random()
        if r < 0.45:
            t['suites'] = [rng.choice(SUITES)]
        elif r < 0.6:
            t['suites'] = sorted(rng.sample(SUITES, 2))
        # generous or disabled (0 / negative = no limit, Unit-tests.md) timeouts on everything that is not a victim
        if not t['victim']:
            t['timeout'] = rng.choice([None, None, 0, -1, -1, -7, -30, 600, 1000]
                                      if profile not in ('victims', 'leaky', 'protocols') else [0, -1, -3, 600, 1000])
    if profile == 'protocols':
        for t in seq:
            if t.pop('good', False):
                t['suites'] = sorted(set(t['suites']) | {'good'})
    else:
        _protocol_pass(seq, profile)

    # priorities: non-increasing along seq, with random break points
    prio = rng.choice([0, 0, 10, 1000])
    for t in seq:
        if rng.random() < 0.25:
            prio -= rng.choice([1, 5, 50])
        t['priority'] = prio
    # declaration order: shuffle that preserves the relative order inside each priority class
    groups: T.Dict[int, T.List[dict]] = {}
    for t in seq:
        groups.setdefault(t['priority'], []).append(t)
    pools = [list(g) for g in groups.values()]
    decl: T.List[str] = []
    while any(pools):
        g = rng.choice([p for p in pools if p])
        decl.append(g.pop(0)['name'])
    return {'profile': profile, 'tests': seq, 'decl': decl, 'script_mode': 'args' if rng.random() < 0.85 else 'file'}


def probe_args(t: dict) -> T.List[str]:
    a = [f"dur={'/'.join(str(x) for x in t['dur'])}", f"rc={'/'.join(str(x) for x in t['rc'])}"]
    if t['tap'] is not None:
        a.append('tap=' + t['tap'])
    if t['term'] != 'default':
        a.append('term=' + t['term'])
    if t.get('leak'):
        a.append(f"leak={t['leak']}")
        if t.get('leakterm', 'default') != 'default':
            a.append('leakterm=' + t['leakterm'])
    if t.get('out'):
        a.append(f"out={t['out']}")
    if t.get('err'):
        a.append(f"err={t['err']}")
    if (t.get('out') or t.get('err')) and not t.get('outnl', True):
        a.append('outnl=0')
    if t.get('desc', 'plain') != 'plain':
        a.append('desc=' + t['desc'])
    if t.get('xml'):
        a.append('xml=' + t['xml'])
    if t.get('rust') is not None:
        a.append('rust=' + ','.join(t['rust']))
    if t['victim']:
        a.append('cap=60')
    return a


def script_json(proj: dict) -> dict:
    out = {}
    for t in proj['tests']:
        out[t['name']] = dict(x.split('=', 1) for x in probe_args(t))
    return out


def meson_build(proj: dict) -> str:
    by = {t['name']: t for t in proj['tests']}
    lines = ["project('p')", f"py = find_program('{PYTHON}')", '']
    for name in proj['decl']:
        t = by[name]
        args = ['-S', PROBE, name] + (probe_args(t) if proj.get('script_mode', 'args') == 'args' else [])
        kw = ['args: [' + ', '.join("'" + a + "'" for a in args) + ']']
        if not t['parallel']:
            kw.append('is_parallel: false')
        elif t['name'][-1] in '05':
            kw.append('is_parallel: true')
        if t['priority'] != 0:
            kw.append(f"priority: {t['priority']}")
        if t['should_fail']:
            kw.append(f"{t['xfail_kw']}: true")
        if t['timeout'] is not None:
            kw.append(f"timeout: {t['timeout']}")
        if t['protocol'] != 'exitcode':
            kw.append(f"protocol: '{t['protocol']}'")
        if len(t['suites']) == 1:
            kw.append(f"suite: '{t['suites'][0]}'")
        elif t['suites']:
            kw.append('suite: [' + ', '.join("'" + s + "'" for s in t['suites']) + ']')
        lines.append(f"test('{name}', py, " + ', '.join(kw) + ')')
    return '\n'.join(lines) + '\n'


def _suite_sel(rng: random.Random, proj: T.Optional[dict] = None) -> T.Tuple[T.List[str], T.List[str]]:
    """A --suite/--no-suite selection; an empty selection is kept only rarely."""
    from vf.ref.c12_oracle import selected
    allow_empty = rng.random() < 0.04
    for _ in range(12):
        inc, exc = _suite_sel1(rng)
        if proj is None or allow_empty or selected(proj, {'suites': inc, 'no_suites': exc}):
            break
    return inc, exc


def _suite_sel1(rng: random.Random) -> T.Tuple[T.List[str], T.List[str]]:
    r = rng.random()
    fmt = lambda s: rng.choice([s, 'p:' + s, ':' + s])   # noqa: E731
    if r < 0.4:
        return [fmt(rng.choice(SUITES))], []
    if r < 0.6:
        a, b = rng.sample(SUITES, 2)
        return [fmt(a), fmt(b)], []
    if r < 0.85:
        return [], [fmt(rng.choice(SUITES))]
    a, b = rng.sample(SUITES, 2)
    return [fmt(a)], [fmt(b)]


def gen_invocations(rng: random.Random, proj: dict, count: int) -> T.List[dict]:
    """`count` invocations of `meson test` for one project (a slice group of n counts as n)."""
    prof = proj['profile']
    has_victim = any(t['victim'] for t in proj['tests'])
    has_bad = any(t['rc'] != [0] or (t['tap'] or '').find('notok') >= 0 or 'bail' in (t['tap'] or '')
                  for t in proj['tests'])
    out: T.List[dict] = []
    gid = 0

    def base() -> dict:
        return {'j': rng.choice([1, 2, 2, 3, 3, 8]), 'repeat': 1, 'maxfail': 0, 'slice': None, 'suites': [],
                'no_suites': [], 'tmult': None, 'group': None}

    while len(out) < count:
        inv = base()
        r = rng.random()
        if prof == 'saturate':
            inv['j'] = rng.choice([2, 3, 3, 8])
        if prof in ('long-par-before-serial', 'serial-b2b', 'stragglers'):
            inv['j'] = rng.choice([2, 3, 3, 8, 8])
        if prof == 'onebad':
            out.append(inv)
            continue
        if prof in ('victims', 'leaky', 'protocols'):
            inv['j'] = rng.choice([1, 2, 3, 8])
            # effective timeout of victims: timeout 1 s x multiplier
            inv['tmult'] = rng.choice([None, 0.3, 0.5, 0.25])
            if rng.random() < 0.15:
                inv['repeat'] = 2
            out.append(inv)
            continue
        if prof == 'maxfail-race':
            inv['j'] = rng.choice([3, 8, 8])
            inv['maxfail'] = rng.choice([1, 1, 2])
            out.append(inv)
            continue
        if r < 0.22 and count - len(out) >= 2:
            # slice group: all i of n with identical other options
            n = rng.randint(2, min(4, count - len(out)))
            gid += 1
            if rng.random() < 0.3:
                inv['suites'], inv['no_suites'] = _suite_sel(rng, proj)
            for i in range(1, n + 1):
                d = dict(inv)
                d['slice'] = [i, n]
                d['group'] = f'slice{gid}'
                out.append(d)
            continue
        if r < 0.45:
            inv['repeat'] = rng.choice([2, 2, 3])
        elif r < 0.6 and has_bad:
            inv['maxfail'] = rng.choice([1, 1, 2, 3])
        elif r < 0.8:
            inv['suites'], inv['no_suites'] = _suite_sel(rng, proj)
        if rng.random() < 0.25 and not has_victim:
            inv['tmult'] = rng.choice([0, 2, 10, -1, 0.5, 3])
        out.append(inv)
    return out


SLICE_SWEEP_PROFILE = 'slices'      # not in PROFILES: projects of this profile are added by the driver on top


def gen_slice_sweep(rng: random.Random, proj: dict, ns: T.Sequence[T.Any], sample: int = 0) -> T.List[dict]:
    """Slice groups for a 'slices' project.  Each item of `ns` is a number of slices n, or 'all' (n = number of
    selected tests), 'whole' (no suite selection, n = number of tests), 'over' (n a little above it: what the documents do not define), 'rand' (10 <= n <= selected).
    Every i of 1..n is one invocation (identical other options); with `sample` > 0 and n > sample only `sample`
    of the i are run (always 1, n, and i of every number of digits that exists): a partial group."""
    from vf.ref.c12_oracle import selected
    out: T.List[dict] = []
    for gid, spec in enumerate(ns):
        inv = {'j': rng.choice([1, 2, 3, 8]), 'repeat': 1, 'maxfail': 0, 'slice': None, 'suites': [],
               'no_suites': [], 'tmult': None, 'group': f'sweep{gid}'}
        if spec != 'whole' and rng.random() < 0.35:
            for _ in range(8):
                inc, exc = _suite_sel1(rng)
                if len(selected(proj, {'suites': inc, 'no_suites': exc})) >= 10:
                    inv['suites'], inv['no_suites'] = inc, exc
                    break
        nsel = len(selected(proj, inv))
        if spec in ('all', 'whole'):
            n = nsel
        elif spec == 'over':
            nxt = 10 ** len(str(nsel))           # the next number with one more digit (only while that stays cheap)
            n = nsel + rng.choice([1, 1, 2, 5] + ([nxt - nsel] if nxt <= 100 else []))
            inv['oversize'] = True
        elif spec == 'rand':
            n = rng.randint(min(10, nsel), nsel)
        else:
            n = min(int(spec), nsel)
        if n < 1:
            continue
        iis = list(range(1, n + 1))
        if sample and n > sample:
            keep = {1, n}
            for d in range(1, len(str(n)) + 1):
                cand = [i for i in iis if len(str(i)) == d and i not in keep]
                if cand:
                    keep.add(rng.choice(cand))
            rest = [i for i in iis if i not in keep]
            rng.shuffle(rest)
            keep.update(rest[:max(0, sample - len(keep))])
            iis = sorted(keep)
            inv['partial'] = True
        eq = rng.random() < 0.3
        for i in iis:
            d = dict(inv)
            d['slice'] = [i, n]
            if eq:
                d['slice_eq'] = True
            out.append(d)
    return out


def argv_for(inv: dict, bdir: str) -> T.List[str]:
    a = ['test', '-C', bdir, '--no-rebuild', '--num-processes', str(inv['j'])]
    if inv['repeat'] != 1:
        a += ['--repeat', str(inv['repeat'])]
    if inv['maxfail']:
        a += ['--maxfail', str(inv['maxfail'])]
    if inv['slice']:
        v = f"{inv['slice'][0]}/{inv['slice'][1]}"
        a += ['--slice=' + v] if inv.get('slice_eq') else ['--slice', v]
    for s in inv['suites']:
        a += ['--suite', s]
    for s in inv['no_suites']:
        a += ['--no-suite', s]
    if inv['tmult'] is not None:
        a += ['--timeout-multiplier', str(inv['tmult'])]
    return a
