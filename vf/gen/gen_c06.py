"""Seeded generator of C projects rich in order-sensitive constructs (C06): several libraries with link_with sets,
tests with >=3 depends, env objects, pkg-config generation, a subproject, configure_file, install rules,
custom targets with depends lists, generators, declare_dependency, summary()."""
from __future__ import annotations

import random
import typing as T


def gen_project(seed: int) -> T.Dict[str, str]:
    r = random.Random(seed)
    files: T.Dict[str, str] = {}
    nlibs = r.randint(3, 6)
    nexe = r.randint(2, 4)
    unity = r.choice(['off', 'off', 'on', 'subprojects'])
    L = ["project('det%d', 'c', version: '1.%d', meson_version: '>=1.1', license: ['MIT', 'Apache-2.0', 'BSD-3-Clause'], license_files: ['LICENSE', 'COPYING', 'AUTHORS.txt'], "
         "default_options: ['warning_level=2', 'b_ndebug=if-release', 'unity=%s', 'unity_size=2'])" % (seed, seed % 7, unity),
         "pkg = import('pkgconfig')", "fs = import('fs')", "cmake = import('cmake')", "py = find_program('python3')",
         # the dependency manifest (depmf.json) names every (sub)project with its version and licenses
         "meson.install_dependency_manifest('share/det/depmf.json')",
         "cdata = configuration_data()"]
    for n in ('LICENSE', 'COPYING', 'AUTHORS.txt'):
        files[n] = n + '\n'
    # a pkg-config dependency found through -Dpkg_config_path: two private directories provide different 'foo's (the cache of
    # found dependencies is keyed by the search path and lives in coredata.dat), several -L directories of equal rank, a
    # library present in more than one of them and one that cannot be resolved
    L.append("foo = dependency('foo', required: false, method: 'pkg-config')")
    L.append("if foo.found()\n  cdata.set_quoted('FOO_VERSION', foo.version())\n  cdata.set_quoted('FOO_VAR', foo.get_variable('flavour'))\n"
             "  executable('usefoo', 'usefoo.c', dependencies: foo)\nendif")
    files['usefoo.c'] = 'int main(void){return 0;}\n'
    for which, ver in (('A', '1.0'), ('B', '2.1')):
        dirs = ['lib1', 'lib2', 'lib3', 'lib4']
        r.shuffle(dirs)
        files[f'pc{which}/foo.pc'] = (f"prefix=${{pcfiledir}}/../sdk{which}\nflavour=from{which}\nName: foo\nDescription: foo {which}\nVersion: {ver}\n"
                                      f"Cflags: -DFOO_FROM_{which} -I${{prefix}}/inc2 -I${{prefix}}/inc1\n"
                                      f"Libs: {' '.join('-L${prefix}/' + d for d in dirs)} -lshadow -lonlyone -lnowhere\n")
        for d in dirs:
            files[f'sdk{which}/{d}/.keep'] = ''
        for d in r.sample(dirs, 3):
            files[f'sdk{which}/{d}/libshadow.so'] = ''
        files[f'sdk{which}/{dirs[-1]}/libonlyone.so'] = ''
        files[f'sdk{which}/inc1/.keep'] = files[f'sdk{which}/inc2/.keep'] = ''
    for i in range(r.randint(3, 7)):
        L.append(f"cdata.set('KEY{i}', {r.randint(0, 99)})")
        L.append(f"cdata.set_quoted('STR{i}', 'v{r.randint(0, 99)}')")
    L.append("cdata.set10('HAVE_X', get_option('feat'))")
    L.append("configure_file(output: 'config.h', configuration: cdata)")
    L.append("configure_file(input: 'tmpl.in', output: 'tmpl.out', configuration: cdata)")
    files['tmpl.in'] = 'a=@KEY0@\nb=@STR0@\n#mesondefine KEY1\n'
    # templates whose line terminators are not LF (checked out with core.autocrlf, .rc/.def/.bat templates, classic-Mac files),
    # mixed terminators, no terminator at the end of the file: the output keeps the template's terminators, and an unchanged
    # output must be recognised as unchanged whatever they are
    L.append("configure_file(input: 'tmpl_crlf.in', output: 'tmpl_crlf.out', configuration: cdata)")
    L.append("configure_file(input: 'tmpl_cr.in', output: 'tmpl_cr.out', configuration: cdata)")
    L.append("configure_file(input: 'tmpl_mixed.in', output: 'tmpl_mixed.out', configuration: cdata, format: 'cmake@')")
    files['tmpl_crlf.in'] = '/* generated */\r\na=@KEY0@\r\n#mesondefine KEY1\r\n\r\nb=@STR0@\r\n'
    files['tmpl_cr.in'] = 'rem generated\ra=@KEY1@\r\rb=@STR1@'
    files['tmpl_mixed.in'] = 'a=@KEY0@\r\nb=@STR0@\n#cmakedefine KEY2 @KEY2@\rc=@KEY1@\r\nlast line without terminator @STR2@'
    L.append("inc = include_directories('.', 'include')")
    files['include/common.h'] = '#pragma once\nint common(void);\n'
    L.append("gen_h = custom_target('gen_h', output: ['gen.h', 'gen2.h'], command: [py, files('tool.py'), '@OUTPUT0@', '@OUTPUT1@'])")
    files['tool.py'] = "import sys\nfor p in sys.argv[1:]:\n    open(p, 'w').write('#define GEN 1\\n')\n"
    L.append("g = generator(py, output: '@BASENAME@.c', arguments: [meson.current_source_dir() / 'gen.py', '@INPUT@', '@OUTPUT@'])")
    files['gen.py'] = "import sys\nopen(sys.argv[2], 'w').write('int gen_%s(void){return 0;}\\n' % 'x')\n"
    files['g1.in'] = 'x\n'
    libs = []
    for i in range(nlibs):
        deps = r.sample(libs, min(len(libs), r.randint(0, 3)))
        kind = r.choice(['static_library', 'shared_library', 'library', 'both_libraries'])
        files[f'lib{i}.c'] = f'#include "gen.h"\nint lib{i}(void){{return {i};}}\n'
        args = r.sample(['-DA=1', '-DB=2', '-DC=3', '-DD=4', '-DE=5'], r.randint(0, 4))
        # versioned shared libraries get alias symlinks in the build directory (created at configure time: state that a
        # reconfigure finds already there)
        ver = f", version: '{i}.2.{r.randint(0, 9)}', soversion: '{i}'" if kind != 'static_library' and r.random() < 0.6 else ''
        L.append(f"lib{i} = {kind}('l{i}', 'lib{i}.c', gen_h, include_directories: inc, link_with: [{', '.join(deps)}], "
                 f"c_args: {args!r}, install: {str(r.random() < 0.6).lower()}{ver})")
        libs.append(f'lib{i}')
        if r.random() < 0.6:
            # several version constraints on the same required package, private requirements, several variables
            L.append(f"pkg.generate(lib{i}, name: 'l{i}', description: 'lib {i}', "
                     f"requires: ['foo{i} >=1.{i}', 'foo{i} <3.0', 'foo{i} !=2.5', 'bar >2'], "
                     f"requires_private: ['priv{i} >=0.1', 'priv{i} <9', 'zed'], libraries: ['-lm', '-ldl'], "
                     f"variables: {{'k{i}': 'v', 'a{i}': 'b', 'z{i}': 'c'}}, uninstalled_variables: {{'u': '1', 'b': '2'}}, "
                     f"extra_cflags: ['-DX{i}', '-DY{i}'], subdirs: ['s{i}', 'a{i}'])")
    # found external dependencies kept in variables: cached in coredata and re-used by reconfigure
    # raw -L/-l link arguments: the backend guesses which file -lshadow is (several directories provide one) to make the
    # link step depend on it
    ldirs = ['lib1', 'lib2', 'lib3', 'lib4']
    r.shuffle(ldirs)
    L.append("rawdep = declare_dependency(link_args: [%s, '-lshadow', '-lonlyone', '-lm'])"
             % ', '.join(f"'-L' + meson.current_source_dir() / 'sdkA/{d}'" for d in ldirs))
    L.append("executable('userawdep', 'usefoo.c', dependencies: rawdep)")
    L.append("thr = dependency('threads')")
    L.append("thr2 = thr")
    L.append("dl = dependency('dl', required: false)")
    L.append("dep_all = declare_dependency(dependencies: [thr], link_with: [%s], include_directories: inc, compile_args: ['-DDEP=1'], "
             "variables: {'z': '1', 'a': '2', 'm': '3'})" % ', '.join(r.sample(libs, min(3, len(libs)))))
    exes = []
    for i in range(nexe):
        files[f'exe{i}.c'] = f'#include "config.h"\nint main(void){{return 0;}}\n'
        src = f"'exe{i}.c'" + (", g.process('g1.in')" if i == 0 else '')
        L.append(f"exe{i} = executable('e{i}', {src}, dependencies: dep_all, link_with: [{', '.join(r.sample(libs, min(2, len(libs))))}], install: {str(r.random() < 0.5).lower()})")
        exes.append(f'exe{i}')
    L.append("ct2 = custom_target('ct2', output: 'ct2.txt', input: 'tmpl.in', command: [py, '-c', 'import sys; open(sys.argv[1], \"w\").write(\"x\")', '@OUTPUT@'], "
             "depends: [%s], depend_files: files('gen.py', 'tool.py'), build_by_default: true, install: true, install_dir: get_option('datadir') / 'det')" % ', '.join(libs))
    envn = r.randint(3, 6)
    L.append("e = environment()")
    for i in r.sample(range(10), envn):
        L.append(f"e.set('VAR{i}', 'v{i}')")
        if r.random() < 0.4:
            L.append(f"e.append('PATHVAR', 'p{i}')")
    for i in range(r.randint(2, 5)):
        deps = r.sample(libs + ['ct2'], min(len(libs) + 1, r.randint(3, 5)))
        L.append(f"test('t{i}', {r.choice(exes)}, depends: [{', '.join(deps)}], env: e, suite: {r.sample(['a', 'b', 'c', 'd'], r.randint(1, 3))!r}, "
                 f"args: ['--x{i}'], is_parallel: {str(r.random() < 0.7).lower()})")
    L.append("benchmark('b0', %s, depends: [%s])" % (exes[0], ', '.join(libs[:3])))
    # wrapped commands: capture/feed/env force a meson-private/meson_exe_*.dat pickle whose NAME is a digest of its content
    L.append("ctc = custom_target('ctc', output: 'ctc.txt', input: 'tmpl.in', capture: true, feed: true, command: [py, files('cat.py')], "
             "env: {'ZED': '1', 'ALPHA': '2', 'MID': '3', 'BETA': '4'}, depends: [%s], build_by_default: true)" % ', '.join(libs[:3]))
    files['cat.py'] = "import sys\nsys.stdout.write(sys.stdin.read())\n"
    L.append("ctw = custom_target('ctw', output: 'ctw.txt', capture: true, command: [%s, '--x'], env: e, build_by_default: true)" % exes[0])
    L.append("run_target('rt', command: [py, files('cat.py')], depends: [%s], env: e)" % ', '.join(libs[:4]))
    L.append("alias_target('al', %s, ct2, ctc)" % ', '.join(r.sample(libs, min(3, len(libs)))))
    L.append("objlib = static_library('objl', objects: [%s.extract_all_objects(recursive: true), %s.extract_objects('%s.c')])" % (libs[0], libs[1], libs[1]))
    L.append("vt = vcs_tag(input: 'tmpl.in', output: 'vcs.out', command: [py, '-c', 'print(1)'], fallback: 'fb')")
    L.append("add_test_setup('ts', env: e, exe_wrapper: [py, '-u'], timeout_multiplier: 2, exclude_suites: ['c', 'a', 'b'])")
    L.append("meson.add_install_script(py, files('cat.py'), 'a1', install_tag: 'scr')")
    L.append("meson.add_install_script(%s, 'a2', skip_if_destdir: true)" % exes[0])
    L.append("meson.add_postconf_script(py, '-c', 'pass')")
    L.append("meson.add_dist_script(py, '-c', 'pass')")
    L.append("install_symlink('lnk', pointing_to: 'tmpl.in', install_dir: get_option('datadir') / 'det')")
    L.append("install_emptydir(get_option('localstatedir') / 'det', install_mode: 'rwxr-x---')")
    L.append("install_man('det.1', 'det.3')")
    files['det.1'] = files['det.3'] = '.TH det\n'
    L.append("cmake.write_basic_package_version_file(name: 'det', version: '1.2.3', compatibility: 'SameMajorVersion')")
    L.append("cmake.configure_package_config_file(name: 'det', input: 'detConfig.cmake.in', configuration: cdata)")
    files['detConfig.cmake.in'] = '@PACKAGE_INIT@\nset(K0 @KEY0@)\nset(S0 @STR0@)\n'
    L.append("install_headers('include/common.h', subdir: 'det')")
    L.append("install_data('tmpl.in', install_dir: get_option('datadir') / 'det', install_tag: 'extra')")
    L.append("install_subdir('include', install_dir: get_option('includedir') / 'sub')")
    # a second compiled language in some projects (own random stream: the rest of the project is what it was without it): each
    # language has its own flag variables in the environment (CXXFLAGS besides CFLAGS; CPPFLAGS and LDFLAGS apply to both)
    r2 = random.Random(f'c06-aux:{seed}')
    if r2.random() < 0.5:
        L.append("add_languages('cpp', native: false)")
        L.append("cxxl = static_library('cxxl', 'cxx1.cpp', 'cxx2.cpp', cpp_args: %r, include_directories: inc)" % r2.sample(['-DXA=1', '-DXB=2', '-DXC=3'], r2.randint(0, 2)))
        L.append("executable('cxxe', 'cxxmain.cpp', link_with: [cxxl, %s], install: %s)" % (r2.choice(libs), str(r2.random() < 0.5).lower()))
        files['cxx1.cpp'] = 'extern "C" int cxx1(void){return 1;}\n'
        files['cxx2.cpp'] = 'extern "C" int cxx2(void){return 2;}\n'
        files['cxxmain.cpp'] = 'int main(){return 0;}\n'
    L.append("sp = subproject('spx', default_options: ['sval=fromparent'])")
    # a subproject that may be reached for the first time by a reconfigure, with default_options of its own that matter
    L.append("if get_option('with_spy')\n  spy = subproject('spy')\nendif")
    # configure-time command whose depfile names several files outside the build dir (they become regeneration inputs)
    L.append("configure_file(output: 'cmd.out', command: [py, files('depgen.py'), '@OUTPUT@', '@DEPFILE@', meson.current_source_dir()], depfile: 'cmd.d')")
    L.append("summary({'z': 1, 'b': true, 'a': 'x'}, section: 'S')")
    L.append("summary('libs', [%s].length())" % ', '.join(libs))
    files['meson.build'] = '\n'.join(L) + '\n'
    files['meson.options'] = "option('feat', type: 'boolean', value: true)\noption('name', type: 'string', value: 'n')\noption('lvl', type: 'combo', choices: ['x', 'y', 'z'], value: 'y')\noption('with_spy', type: 'boolean', value: true)\n"
    files['depgen.py'] = ("import sys, os\nout, dep, src = sys.argv[1:4]\nopen(out, 'w').write('x')\n"
                          "names = ['zeta.txt', 'alpha.txt', 'mid.txt', 'beta.txt', 'omega.txt', 'gamma.txt']\n"
                          "open(dep, 'w').write(os.path.basename(out) + ': ' + ' '.join(os.path.join(src, n) for n in names) + '\\n')\n")
    for n in ['zeta.txt', 'alpha.txt', 'mid.txt', 'beta.txt', 'omega.txt', 'gamma.txt']:
        files[n] = n + '\n'
    files['subprojects/spy/meson.build'] = ("project('spy', 'c', version: '0.2', license: ['Zlib', 'ISC'], license_files: ['LIC.a', 'LIC.b'], default_options: ['warning_level=3', 'werror=true', 'c_std=c99', 'yopt=fromproject'])\n"
                                            "static_library('spyl', 'spy.c', c_args: ['-DSPY_' + get_option('yopt')])\n")
    files['subprojects/spy/meson.options'] = "option('yopt', type: 'string', value: 'ydef')\n"
    files['subprojects/spy/LIC.a'] = files['subprojects/spy/LIC.b'] = 'l\n'
    files['subprojects/spy/spy.c'] = 'int spy(void){return 2;}\n'
    files['subprojects/spx/meson.build'] = ("project('spx', 'c', version: '0.1', license: 'GPL-2.0-or-later')\nlibsp = static_library('sp', 'sp.c')\n"
                                            "spx_dep = declare_dependency(link_with: libsp)\nmeson.override_dependency('spx', spx_dep)\n"
                                            "test('spt', executable('spe', 'spe.c', link_with: libsp))\n")
    files['subprojects/spx/meson.options'] = "option('sval', type: 'string', value: 'd')\n"
    files['subprojects/spx/sp.c'] = 'int sp(void){return 1;}\n'
    files['subprojects/spx/spe.c'] = 'int sp(void);int main(void){return sp()-1;}\n'
    return files


# ---------------------------------------------------------------------------------------------------------------------
# Tiny language-less projects for two more environment/history dimensions (cheap: ~0.3 s per configuration):
#   * gen_wrap_project: SEVERAL wrap files (+ bare directories) in subprojects/ with [provide] sections, some of them claiming
#     the same dependency / program name -- whatever depends on which wrap the resolver registers first depends on readdir order;
#   * gen_dep_project: dependencies that exist both on the "system" (pkg-config files) and as fallback subprojects (exported
#     through override_dependency() and/or only through the [sub, var] variable), looked up under dependency-policy options
#     (force_fallback_for, wrap_mode, pkg_config_path, guarding project options) that CHANGE between two configurations.

_WRAP_NAMES = ['zeta', 'Alpha', 'mid', 'beta', 'omega', 'Gamma', 'k2', 'k10']


def gen_wrap_project(seed: int, directed: T.Optional[str] = None) -> T.Tuple[T.Dict[str, str], T.Dict[str, T.Any]]:
    """directed = a conflict kind ('dep', 'program', 'implicit-name') the project must contain, or None (random)."""
    r = random.Random(f'wraps:{seed}')
    files: T.Dict[str, str] = {}
    nw = 2 if directed == 'dep' else r.randint(2, 4)
    wnames = r.sample(_WRAP_NAMES, nw)
    depnames = [f'wd{i}' for i in range(3 if directed == 'dep' else r.randint(2, 4))]
    prognames = [f'wp{i}' for i in range(r.randint(1, 2))]
    # who provides what: every name gets one provider; conflicts add a second claimant
    prov_deps: T.Dict[str, T.List[T.Tuple[str, str]]] = {w: [] for w in wnames}     # wrap -> [(depname, style)]
    prov_progs: T.Dict[str, T.List[str]] = {w: [] for w in wnames}
    for d in depnames:
        prov_deps[r.choice(wnames)].append((d, r.choice(['var', 'names'])))
    for p in prognames:
        prov_progs[r.choice(wnames)].append(p)
    conflicts: T.List[str] = []
    first_lookup: T.Optional[str] = None
    kind = directed if directed else r.choice(['none', 'none', 'none', 'none', 'dep', 'dep', 'dep', 'program', 'program', 'implicit-name', 'implicit-name', 'bare-directory'])
    extra_dirs: T.List[str] = []
    if kind == 'dep':
        d = r.choice(depnames)
        owner = next(w for w in wnames if any(x[0] == d for x in prov_deps[w]))
        other = r.choice([w for w in wnames if w != owner])
        # both claimants export the name through a variable only: an override_dependency() by whichever subproject happens to be
        # configured first would decide the lookup whatever the resolver says
        prov_deps[owner] = [(x, 'var' if x == d else st) for x, st in prov_deps[owner]]
        prov_deps[other].append((d, 'var'))
        first_lookup = d
        conflicts.append(f'dependency {d}: {owner} and {other}')
    elif kind == 'program':
        conflict_prog = r.choice(prognames)
        owner = next(w for w in wnames if conflict_prog in prov_progs[w])
        other = r.choice([w for w in wnames if w != owner])
        prov_progs[other].append(conflict_prog)
        conflicts.append(f'program {conflict_prog}: {owner} and {other}')
    elif kind == 'implicit-name':
        # a wrap file provides its own (lower-cased) name implicitly: another wrap claims that name in its [provide]
        target = r.choice(wnames)
        other = r.choice([w for w in wnames if w != target])
        prov_deps[other].append((target.lower(), 'var'))
        prov_deps[target].append((target.lower(), 'self'))       # the subproject overrides its own name, the wrap file does not say so
        depnames.append(target.lower())
        first_lookup = target.lower()
        conflicts.append(f'dependency {target.lower()}: wrap file {target} (implicit) and {other}')
    elif kind == 'bare-directory':
        # a directory without wrap file is a package of its own name; a wrap claims that name
        dn = 'baredir'
        extra_dirs.append(dn)
        other = r.choice(wnames)
        prov_deps[other].append((dn, 'var'))
        depnames.append(dn)
        conflicts.append(f'dependency {dn}: directory {dn} and {other}')
    if r.random() < 0.5:
        extra_dirs.append('plainsub')
    if r.random() < 0.4:
        files['subprojects/packagefiles/readme.txt'] = 'x\n'
    for w in wnames:
        directory = w if r.random() < 0.6 else f'{w}-1.{r.randint(0, 9)}'
        names_style = [d for d, st in prov_deps[w] if st == 'names']
        var_style = [d for d, st in prov_deps[w] if st == 'var']
        wl = ['[wrap-file]', f'directory = {directory}', '']
        if names_style or var_style or prov_progs[w]:
            wl.append('[provide]')
            if names_style:
                wl.append('dependency_names = ' + ', '.join(names_style))
            if prov_progs[w]:
                wl.append('program_names = ' + ', '.join(prov_progs[w]))
            for d in var_style:
                wl.append(f'{d} = {d}_dep')
        files[f'subprojects/{w}.wrap'] = '\n'.join(wl) + '\n'
        sl = [f"project('{w}', version: '{r.randint(1, 9)}.{r.randint(0, 9)}')"]
        for d, st in prov_deps[w]:
            sl.append(f"{d}_dep = declare_dependency(variables: {{'origin': '{w}'}}, version: '{len(w)}.{len(d)}')")
            if st in ('names', 'self'):
                sl.append(f"meson.override_dependency('{d}', {d}_dep)")
        for p in prov_progs[w]:
            sl.append(f"meson.override_find_program('{p}', files('{p}.py'))")
            files[f'subprojects/{directory}/{p}.py'] = f'#!/usr/bin/env python3\nprint("{p} of {w}")\n'
        sl.append(f"configure_file(output: 'sub-{w}.txt', configuration: {{'me': '{w}'}})")
        files[f'subprojects/{directory}/meson.build'] = '\n'.join(sl) + '\n'
    for dn in extra_dirs:
        files[f'subprojects/{dn}/meson.build'] = (f"project('{dn}', version: '0.{len(dn)}')\n{dn}_dep = declare_dependency(variables: {{'origin': 'dir-{dn}'}})\n"
                                                  f"meson.override_dependency('{dn}', {dn}_dep)\n")
    L = [f"project('wr{seed}', version: '1.0', meson_version: '>=1.1')", "cd = configuration_data()", "origins = []"]
    lookups = list(depnames)
    r.shuffle(lookups)
    if first_lookup:
        # looked up before any subproject has been configured (and has had the occasion to override names)
        lookups.remove(first_lookup)
        lookups.insert(0, first_lookup)
    if kind == 'program':
        prognames.sort(key=lambda x: x != conflict_prog)
    for d in lookups:
        # a dependency that is not required only falls back to a providing wrap when asked to
        L.append(f"{d} = dependency('{d}'" + r.choice(["", ", required: false, allow_fallback: true"]) + ")")
        L.append(f"cd.set('FOUND_{d.upper()}', {d}.found())")
        L.append(f"if {d}.found()\n  cd.set('ORIGIN_{d.upper()}', {d}.get_variable('origin', default_value: 'none'))\n"
                 f"  cd.set('VERSION_{d.upper()}', {d}.version())\n  origins += ['{d}=' + {d}.get_variable('origin', default_value: 'none')]\nendif")
    PL: T.List[str] = []
    for p in prognames:
        PL.append(f"{p} = find_program('{p}')")
        PL.append(f"cd.set('PROG_{p.upper()}', {p}.found() ? {p}.full_path() : 'none')")
        PL.append(f"if {p}.found()\n  custom_target('run-{p}', output: 'run-{p}.txt', command: [{p}], capture: true)\nendif")
    if kind == 'program':
        L[3:3] = PL
    else:
        L += PL
    for dn in extra_dirs:
        if dn not in depnames:
            L.append(f"subproject('{dn}', required: false)")
    L.append("configure_file(output: 'wraps.h', configuration: cd)")
    L.append("custom_target('origins', output: 'origins.txt', command: ['echo', origins], capture: true, build_by_default: true)")
    files['meson.build'] = '\n'.join(L) + '\n'
    return files, {'wraps': sorted(wnames), 'conflict_kind': kind, 'conflicts': conflicts, 'lookups': lookups, 'programs': prognames,
                   'bare_directories': extra_dirs}


def gen_dep_project(seed: int, directed: bool = False) -> T.Tuple[T.Dict[str, str], T.Dict[str, T.Any]]:
    """files, meta.  meta['deps'] = [{name, sub, export, lookup, guarded}], meta['histories'] = [(name, [option vectors of the successive configurations], transition)];
    an option vector is a dict {force: [names], wrap_mode: str, pc: 'pc'|'pc2', use: {i: bool}}."""
    r = random.Random(f'deps:{seed}')
    files: T.Dict[str, str] = {}
    n = 2 if directed else r.randint(2, 4)
    deps: T.List[T.Dict[str, T.Any]] = []
    for i in range(n):
        export = r.choice(['var', 'var', 'override', 'both'])
        lookup = r.choice(['fallback-pair', 'fallback-pair', 'wrap-provide-var'] if export == 'var'
                          else ['fallback-pair', 'fallback-name', 'wrap-provide-names', 'wrap-provide-var'] if export == 'both'
                          else ['fallback-name', 'wrap-provide-names'])
        deps.append({'name': f'dq{i}', 'sub': f'sq{i}', 'export': export, 'lookup': lookup, 'guarded': r.random() < 0.4,
                     'in_pc2': r.random() < 0.5})
    if directed:
        deps[0].update(export='var', lookup='fallback-pair', guarded=False, in_pc2=True)
        deps[1].update(export='both', lookup='fallback-pair', guarded=True, in_pc2=False)
    L = [f"project('dh{seed}', version: '1.0', meson_version: '>=1.1')", "cd = configuration_data()", "flavours = []"]
    opts = []
    for i, d in enumerate(deps):
        name, sub = d['name'], d['sub']
        kw = {'fallback-pair': f", fallback: ['{sub}', '{name}_dep']", 'fallback-name': f", fallback: '{sub}'"}.get(d['lookup'], '')
        body = [f"d{i} = dependency('{name}', required: false{kw})",
                f"cd.set('FOUND_{i}', d{i}.found())",
                f"if d{i}.found()",
                f"  fl{i} = d{i}.get_variable(pkgconfig: 'flavour', internal: 'flavour', default_value: 'none')",
                f"  cd.set('TYPE_{i}', d{i}.type_name())", f"  cd.set('VERSION_{i}', d{i}.version())", f"  cd.set('FLAVOUR_{i}', fl{i})",
                f"  flavours += ['{name}=' + fl{i}]",
                "endif"]
        if d['guarded']:
            opts.append(f"option('use{i}', type: 'boolean', value: true)")
            L.append(f"if get_option('use{i}')")
            L += ['  ' + x for x in body]
            L.append('endif')
        else:
            L += body
        for which, present, ver in (('pc', True, f'1.{i}'), ('pc2', d['in_pc2'], f'2.{i}')):
            if present:
                files[f'{which}/{name}.pc'] = (f"flavour=system-{which}\nName: {name}\nDescription: {name} of {which}\nVersion: {ver}\n"
                                               f"Cflags: -DFROM_{which.upper()}_{i}\n")
        sl = [f"project('{sub}', version: '9.{i}')", f"{name}_dep = declare_dependency(variables: {{'flavour': 'subproject-{sub}'}}, version: '9.{i}')"]
        if d['export'] in ('override', 'both'):
            sl.append(f"meson.override_dependency('{name}', {name}_dep)")
        files[f'subprojects/{sub}/meson.build'] = '\n'.join(sl) + '\n'
        if d['lookup'].startswith('wrap-provide'):
            files[f'subprojects/{sub}.wrap'] = (f"[wrap-file]\ndirectory = {sub}\n\n[provide]\n" +
                                                (f"dependency_names = {name}\n" if d['lookup'] == 'wrap-provide-names' else f"{name} = {name}_dep\n"))
    files['pc2/.keep'] = ''
    L.append("configure_file(output: 'deps.h', configuration: cd)")
    L.append("custom_target('flavours', output: 'flavours.txt', command: ['echo', flavours], capture: true, build_by_default: true)")
    files['meson.build'] = '\n'.join(L) + '\n'
    if opts:
        files['meson.options'] = '\n'.join(opts) + '\n'
    guarded = [i for i, d in enumerate(deps) if d['guarded']]
    names = [d['name'] for d in deps]

    def vec(**kw: T.Any) -> T.Dict[str, T.Any]:
        v: T.Dict[str, T.Any] = {'force': [], 'wrap_mode': 'default', 'pc': 'pc', 'use': {i: True for i in guarded}}
        v.update(kw)
        return v

    def rand_vec() -> T.Dict[str, T.Any]:
        return vec(force=sorted(r.sample(names, r.randint(0, len(names)))) if r.random() < 0.6 else [],
                   wrap_mode=r.choice(['default', 'default', 'forcefallback', 'nofallback', 'nodownload']),
                   pc=r.choice(['pc', 'pc', 'pc2']), use={i: r.random() < 0.6 for i in guarded})
    # a history = option vectors of the successive configurations of one build directory; the last one is compared with a fresh setup
    hists: T.List[T.Tuple[str, T.List[dict], str]] = []
    if directed:
        hists.append(('system-found-then-force-fallback-for', [vec(), vec(force=[names[0]])], 'reconfigure'))
        hists.append(('lookup-no-longer-evaluated', [vec(), vec(use={i: False for i in guarded})], 'reconfigure'))
        hists.append(('system-found-then-wrap-mode-forcefallback', [vec(), vec(wrap_mode='forcefallback')], 'configure'))
        hists.append(('forced-fallback-then-system', [vec(force=list(names)), vec()], 'reconfigure'))
        hists.append(('lookup-first-evaluated-by-reconfigure', [vec(use={i: False for i in guarded}, force=[names[0]]), vec()], 'reconfigure'))
        hists.append(('search-path-there-and-back', [vec(), vec(pc='pc2'), vec()], 'reconfigure'))
        hists.append(('search-path-changed', [vec(), vec(pc='pc2')], 'configure'))
    else:
        for _ in range(3):
            vs = [rand_vec() for _ in range(3 if r.random() < 0.3 else 2)]
            if vs[-2] == vs[-1]:
                vs[-1] = vec(force=[names[0]]) if vs[-2]['force'] != [names[0]] or vs[-2]['wrap_mode'] != 'default' else vec(wrap_mode='forcefallback')
            hists.append(('random-policy-change', vs, r.choice(['reconfigure', 'configure'])))
    return files, {'deps': deps, 'histories': hists}
