"""Seeded generator of C projects rich in order-sensitive constructs (C06): several libraries with link_with sets,
tests with >=3 depends, env objects, pkg-config generation, a subproject, configure_file, install rules,
custom targets with depends lists, generators, declare_dependency, summary()."""
from __future__ import annotations

import random
import typing as T


def gen_project(seed: int) -> T.Dict[str, str]:
    r = random.Random(seed)
    files: T.Dict[str, str] = {}
    nlibs = r.randint(3, 6)
    nexe = r.randint(2, 4)
    unity = r.choice(['off', 'off', 'on', 'subprojects'])
    L = ["project('det%d', 'c', version: '1.%d', meson_version: '>=1.1', license: ['MIT', 'Apache-2.0', 'BSD-3-Clause'], license_files: ['LICENSE', 'COPYING', 'AUTHORS.txt'], "
         "default_options: ['warning_level=2', 'b_ndebug=if-release', 'unity=%s', 'unity_size=2'])" % (seed, seed % 7, unity),
         "pkg = import('pkgconfig')", "fs = import('fs')", "cmake = import('cmake')", "py = find_program('python3')",
         # the dependency manifest (depmf.json) names every (sub)project with its version and licenses
         "meson.install_dependency_manifest('share/det/depmf.json')",
         "cdata = configuration_data()"]
    for n in ('LICENSE', 'COPYING', 'AUTHORS.txt'):
        files[n] = n + '\n'
    # a pkg-config dependency found through -Dpkg_config_path: two private directories provide different 'foo's (the cache of
    # found dependencies is keyed by the search path and lives in coredata.dat), several -L directories of equal rank, a
    # library present in more than one of them and one that cannot be resolved
    L.append("foo = dependency('foo', required: false, method: 'pkg-config')")
    L.append("if foo.found()\n  cdata.set_quoted('FOO_VERSION', foo.version())\n  cdata.set_quoted('FOO_VAR', foo.get_variable('flavour'))\n"
             "  executable('usefoo', 'usefoo.c', dependencies: foo)\nendif")
    files['usefoo.c'] = 'int main(void){return 0;}\n'
    for which, ver in (('A', '1.0'), ('B', '2.1')):
        dirs = ['lib1', 'lib2', 'lib3', 'lib4']
        r.shuffle(dirs)
        files[f'pc{which}/foo.pc'] = (f"prefix=${{pcfiledir}}/../sdk{which}\nflavour=from{which}\nName: foo\nDescription: foo {which}\nVersion: {ver}\n"
                                      f"Cflags: -DFOO_FROM_{which} -I${{prefix}}/inc2 -I${{prefix}}/inc1\n"
                                      f"Libs: {' '.join('-L${prefix}/' + d for d in dirs)} -lshadow -lonlyone -lnowhere\n")
        for d in dirs:
            files[f'sdk{which}/{d}/.keep'] = ''
        for d in r.sample(dirs, 3):
            files[f'sdk{which}/{d}/libshadow.so'] = ''
        files[f'sdk{which}/{dirs[-1]}/libonlyone.so'] = ''
        files[f'sdk{which}/inc1/.keep'] = files[f'sdk{which}/inc2/.keep'] = ''
    for i in range(r.randint(3, 7)):
        L.append(f"cdata.set('KEY{i}', {r.randint(0, 99)})")
        L.append(f"cdata.set_quoted('STR{i}', 'v{r.randint(0, 99)}')")
    L.append("cdata.set10('HAVE_X', get_option('feat'))")
    L.append("configure_file(output: 'config.h', configuration: cdata)")
    L.append("configure_file(input: 'tmpl.in', output: 'tmpl.out', configuration: cdata)")
    files['tmpl.in'] = 'a=@KEY0@\nb=@STR0@\n#mesondefine KEY1\n'
    L.append("inc = include_directories('.', 'include')")
    files['include/common.h'] = '#pragma once\nint common(void);\n'
    L.append("gen_h = custom_target('gen_h', output: ['gen.h', 'gen2.h'], command: [py, files('tool.py'), '@OUTPUT0@', '@OUTPUT1@'])")
    files['tool.py'] = "import sys\nfor p in sys.argv[1:]:\n    open(p, 'w').write('#define GEN 1\\n')\n"
    L.append("g = generator(py, output: '@BASENAME@.c', arguments: [meson.current_source_dir() / 'gen.py', '@INPUT@', '@OUTPUT@'])")
    files['gen.py'] = "import sys\nopen(sys.argv[2], 'w').write('int gen_%s(void){return 0;}\\n' % 'x')\n"
    files['g1.in'] = 'x\n'
    libs = []
    for i in range(nlibs):
        deps = r.sample(libs, min(len(libs), r.randint(0, 3)))
        kind = r.choice(['static_library', 'shared_library', 'library', 'both_libraries'])
        files[f'lib{i}.c'] = f'#include "gen.h"\nint lib{i}(void){{return {i};}}\n'
        args = r.sample(['-DA=1', '-DB=2', '-DC=3', '-DD=4', '-DE=5'], r.randint(0, 4))
        # versioned shared libraries get alias symlinks in the build directory (created at configure time: state that a
        # reconfigure finds already there)
        ver = f", version: '{i}.2.{r.randint(0, 9)}', soversion: '{i}'" if kind != 'static_library' and r.random() < 0.6 else ''
        L.append(f"lib{i} = {kind}('l{i}', 'lib{i}.c', gen_h, include_directories: inc, link_with: [{', '.join(deps)}], "
                 f"c_args: {args!r}, install: {str(r.random() < 0.6).lower()}{ver})")
        libs.append(f'lib{i}')
        if r.random() < 0.6:
            # several version constraints on the same required package, private requirements, several variables
            L.append(f"pkg.generate(lib{i}, name: 'l{i}', description: 'lib {i}', "
                     f"requires: ['foo{i} >=1.{i}', 'foo{i} <3.0', 'foo{i} !=2.5', 'bar >2'], "
                     f"requires_private: ['priv{i} >=0.1', 'priv{i} <9', 'zed'], libraries: ['-lm', '-ldl'], "
                     f"variables: {{'k{i}': 'v', 'a{i}': 'b', 'z{i}': 'c'}}, uninstalled_variables: {{'u': '1', 'b': '2'}}, "
                     f"extra_cflags: ['-DX{i}', '-DY{i}'], subdirs: ['s{i}', 'a{i}'])")
    # found external dependencies kept in variables: cached in coredata and re-used by reconfigure
    # raw -L/-l link arguments: the backend guesses which file -lshadow is (several directories provide one) to make the
    # link step depend on it
    ldirs = ['lib1', 'lib2', 'lib3', 'lib4']
    r.shuffle(ldirs)
    L.append("rawdep = declare_dependency(link_args: [%s, '-lshadow', '-lonlyone', '-lm'])"
             % ', '.join(f"'-L' + meson.current_source_dir() / 'sdkA/{d}'" for d in ldirs))
    L.append("executable('userawdep', 'usefoo.c', dependencies: rawdep)")
    L.append("thr = dependency('threads')")
    L.append("thr2 = thr")
    L.append("dl = dependency('dl', required: false)")
    L.append("dep_all = declare_dependency(dependencies: [thr], link_with: [%s], include_directories: inc, compile_args: ['-DDEP=1'], "
             "variables: {'z': '1', 'a': '2', 'm': '3'})" % ', '.join(r.sample(libs, min(3, len(libs)))))
    exes = []
    for i in range(nexe):
        files[f'exe{i}.c'] = f'#include "config.h"\nint main(void){{return 0;}}\n'
        src = f"'exe{i}.c'" + (", g.process('g1.in')" if i == 0 else '')
        L.append(f"exe{i} = executable('e{i}', {src}, dependencies: dep_all, link_with: [{', '.join(r.sample(libs, min(2, len(libs))))}], install: {str(r.random() < 0.5).lower()})")
        exes.append(f'exe{i}')
    L.append("ct2 = custom_target('ct2', output: 'ct2.txt', input: 'tmpl.in', command: [py, '-c', 'import sys; open(sys.argv[1], \"w\").write(\"x\")', '@OUTPUT@'], "
             "depends: [%s], depend_files: files('gen.py', 'tool.py'), build_by_default: true, install: true, install_dir: get_option('datadir') / 'det')" % ', '.join(libs))
    envn = r.randint(3, 6)
    L.append("e = environment()")
    for i in r.sample(range(10), envn):
        L.append(f"e.set('VAR{i}', 'v{i}')")
        if r.random() < 0.4:
            L.append(f"e.append('PATHVAR', 'p{i}')")
    for i in range(r.randint(2, 5)):
        deps = r.sample(libs + ['ct2'], min(len(libs) + 1, r.randint(3, 5)))
        L.append(f"test('t{i}', {r.choice(exes)}, depends: [{', '.join(deps)}], env: e, suite: {r.sample(['a', 'b', 'c', 'd'], r.randint(1, 3))!r}, "
                 f"args: ['--x{i}'], is_parallel: {str(r.random() < 0.7).lower()})")
    L.append("benchmark('b0', %s, depends: [%s])" % (exes[0], ', '.join(libs[:3])))
    # wrapped commands: capture/feed/env force a meson-private/meson_exe_*.dat pickle whose NAME is a digest of its content
    L.append("ctc = custom_target('ctc', output: 'ctc.txt', input: 'tmpl.in', capture: true, feed: true, command: [py, files('cat.py')], "
             "env: {'ZED': '1', 'ALPHA': '2', 'MID': '3', 'BETA': '4'}, depends: [%s], build_by_default: true)" % ', '.join(libs[:3]))
    files['cat.py'] = "import sys\nsys.stdout.write(sys.stdin.read())\n"
    L.append("ctw = custom_target('ctw', output: 'ctw.txt', capture: true, command: [%s, '--x'], env: e, build_by_default: true)" % exes[0])
    L.append("run_target('rt', command: [py, files('cat.py')], depends: [%s], env: e)" % ', '.join(libs[:4]))
    L.append("alias_target('al', %s, ct2, ctc)" % ', '.join(r.sample(libs, min(3, len(libs)))))
    L.append("objlib = static_library('objl', objects: [%s.extract_all_objects(recursive: true), %s.extract_objects('%s.c')])" % (libs[0], libs[1], libs[1]))
    L.append("vt = vcs_tag(input: 'tmpl.in', output: 'vcs.out', command: [py, '-c', 'print(1)'], fallback: 'fb')")
    L.append("add_test_setup('ts', env: e, exe_wrapper: [py, '-u'], timeout_multiplier: 2, exclude_suites: ['c', 'a', 'b'])")
    L.append("meson.add_install_script(py, files('cat.py'), 'a1', install_tag: 'scr')")
    L.append("meson.add_install_script(%s, 'a2', skip_if_destdir: true)" % exes[0])
    L.append("meson.add_postconf_script(py, '-c', 'pass')")
    L.append("meson.add_dist_script(py, '-c', 'pass')")
    L.append("install_symlink('lnk', pointing_to: 'tmpl.in', install_dir: get_option('datadir') / 'det')")
    L.append("install_emptydir(get_option('localstatedir') / 'det', install_mode: 'rwxr-x---')")
    L.append("install_man('det.1', 'det.3')")
    files['det.1'] = files['det.3'] = '.TH det\n'
    L.append("cmake.write_basic_package_version_file(name: 'det', version: '1.2.3', compatibility: 'SameMajorVersion')")
    L.append("cmake.configure_package_config_file(name: 'det', input: 'detConfig.cmake.in', configuration: cdata)")
    files['detConfig.cmake.in'] = '@PACKAGE_INIT@\nset(K0 @KEY0@)\nset(S0 @STR0@)\n'
    L.append("install_headers('include/common.h', subdir: 'det')")
    L.append("install_data('tmpl.in', install_dir: get_option('datadir') / 'det', install_tag: 'extra')")
    L.append("install_subdir('include', install_dir: get_option('includedir') / 'sub')")
    L.append("sp = subproject('spx', default_options: ['sval=fromparent'])")
    # a subproject that may be reached for the first time by a reconfigure, with default_options of its own that matter
    L.append("if get_option('with_spy')\n  spy = subproject('spy')\nendif")
    # configure-time command whose depfile names several files outside the build dir (they become regeneration inputs)
    L.append("configure_file(output: 'cmd.out', command: [py, files('depgen.py'), '@OUTPUT@', '@DEPFILE@', meson.current_source_dir()], depfile: 'cmd.d')")
    L.append("summary({'z': 1, 'b': true, 'a': 'x'}, section: 'S')")
    L.append("summary('libs', [%s].length())" % ', '.join(libs))
    files['meson.build'] = '\n'.join(L) + '\n'
    files['meson.options'] = "option('feat', type: 'boolean', value: true)\noption('name', type: 'string', value: 'n')\noption('lvl', type: 'combo', choices: ['x', 'y', 'z'], value: 'y')\noption('with_spy', type: 'boolean', value: true)\n"
    files['depgen.py'] = ("import sys, os\nout, dep, src = sys.argv[1:4]\nopen(out, 'w').write('x')\n"
                          "names = ['zeta.txt', 'alpha.txt', 'mid.txt', 'beta.txt', 'omega.txt', 'gamma.txt']\n"
                          "open(dep, 'w').write(os.path.basename(out) + ': ' + ' '.join(os.path.join(src, n) for n in names) + '\\n')\n")
    for n in ['zeta.txt', 'alpha.txt', 'mid.txt', 'beta.txt', 'omega.txt', 'gamma.txt']:
        files[n] = n + '\n'
    files['subprojects/spy/meson.build'] = ("project('spy', 'c', version: '0.2', license: ['Zlib', 'ISC'], license_files: ['LIC.a', 'LIC.b'], default_options: ['warning_level=3', 'werror=true', 'c_std=c99', 'yopt=fromproject'])\n"
                                            "static_library('spyl', 'spy.c', c_args: ['-DSPY_' + get_option('yopt')])\n")
    files['subprojects/spy/meson.options'] = "option('yopt', type: 'string', value: 'ydef')\n"
    files['subprojects/spy/LIC.a'] = files['subprojects/spy/LIC.b'] = 'l\n'
    files['subprojects/spy/spy.c'] = 'int spy(void){return 2;}\n'
    files['subprojects/spx/meson.build'] = ("project('spx', 'c', version: '0.1', license: 'GPL-2.0-or-later')\nlibsp = static_library('sp', 'sp.c')\n"
                                            "spx_dep = declare_dependency(link_with: libsp)\nmeson.override_dependency('spx', spx_dep)\n"
                                            "test('spt', executable('spe', 'spe.c', link_with: libsp))\n")
    files['subprojects/spx/meson.options'] = "option('sval', type: 'string', value: 'd')\n"
    files['subprojects/spx/sp.c'] = 'int sp(void){return 1;}\n'
    files['subprojects/spx/spe.c'] = 'int sp(void);int main(void){return sp()-1;}\n'
    return files
