"""gen_c16 -- workload generators for C16 (`meson format` preserves meaning and comments, is idempotent).

Nothing here imports mesonbuild.  Three workloads:

* ``Gen(rng, noise).program()`` -- grammar-based programs of the Meson language (grammar = the one
  documented in Syntax.md and accepted by mparser: ternary < or < and < comparison (non-chaining) < +- < */% <
  unary not/- (non-stacking) < call/method/index < atoms), rendered with arbitrary LEGAL trivia in every gap
  between two tokens: blanks/tabs, comments, newlines inside brackets, backslash continuations (with and
  without a comment after the backslash), blank lines and comment lines between statements, odd indentation,
  trailing commas, redundant nested parentheses, very long argument lists, strings starting with ``--``,
  multiline strings containing backslashes / quotes / ``@`` / ``#`` / CR, f-strings with and without
  placeholders, method chains, dict/array literals, ``files()`` calls with nested arrays, if/elif/else and
  foreach blocks, kwargs.  A program is returned as a list of top-level chunks (each chunk is a complete
  top-level statement with its surrounding trivia), so that a failing program can be delta-debugged by chunks.
* ``mutate_text(rng, text)`` -- trivia-level and token-level mutations of corpus files (kept only if they
  still parse; the caller decides).
* ``configs(rng, n, strength)`` -- formatter configurations: greedy pairwise (or 3-wise) covering sets over all
  keys of FormatterConfig + the editorconfig switch.
"""
from __future__ import annotations

import glob
import itertools
import os
import random
import typing as T

# --------------------------------------------------------------------------------------------------
# configurations

BOOL_KEYS = ('space_array', 'kwargs_force_multiline', 'wide_colon', 'no_single_comma_function',
             'simplify_string_literals', 'insert_final_newline', 'sort_files', 'group_arg_value')

# every key -> candidate values.  The first value of each key is the documented default.
CONFIG_SPACE: T.Dict[str, T.Tuple[T.Any, ...]] = {
    **{k: ((True, False) if k in ('simplify_string_literals', 'insert_final_newline') else (False, True)) for k in BOOL_KEYS},
    'max_line_length': (80, 20, 0, 1000, 40),
    # '' is legal too ("no indentation"): every `value[:-len(indent_by)]` / `endswith(indent_by)` of the formatter then
    # meets the empty string
    'indent_by': ('    ', '  ', '\t', ' ', '        ', ''),
    'indent_before_comments': ('  ', ' ', '', '\t'),
    'tab_width': (4, 8, 1, 2),
    'end_of_line': ('native', 'lf', 'crlf', 'cr'),
    # editorconfig: None = not used; otherwise the index of a prepared .editorconfig flavour (EDITORCONFIGS)
    'editorconfig': (None, 0, 1, 2, 3),
    # whether use_editor_config is requested by the CLI flag / constructor argument or by the config-file key
    'ec_via_key': (False, True),
}

# .editorconfig flavours (content, expected overrides when no meson.format key says otherwise)
EDITORCONFIGS: T.Tuple[str, ...] = (
    'root = true\n\n[*]\nindent_style = tab\ntab_width = 8\nend_of_line = lf\ninsert_final_newline = true\n',
    'root = true\n\n[meson.build]\nindent_style = space\nindent_size = 2\nmax_line_length = 30\nend_of_line = crlf\n',
    'root = true\n\n[*.c]\nindent_size = 7\n\n[{meson.build,meson.options}]\nindent_size = 3\nmax_line_length = off\n',
    '[*]\nmax_line_length = 120\ncharset = utf-8\ntrim_trailing_whitespace = true\n\n[*.build]\nindent_style = space\n',
)

DEFAULT_CONFIG: T.Dict[str, T.Any] = {k: v[0] for k, v in CONFIG_SPACE.items()}


def config_file_text(cfg: T.Mapping[str, T.Any]) -> str:
    """The meson.format (ini) text of a configuration; keys equal to the default are still written with
    probability decided by the caller (here: all written except those the caller removed)."""
    lines = []
    for k, v in cfg.items():
        if k in ('editorconfig', 'ec_via_key'):
            continue
        if isinstance(v, bool):
            lines.append(f'{k} = {"true" if v else "false"}')
        elif isinstance(v, int):
            lines.append(f'{k} = {v}')
        elif k in ('indent_by', 'indent_before_comments'):
            lines.append(f"{k} = '{v}'")
        else:
            lines.append(f'{k} = {v}')
    if cfg.get('editorconfig') is not None and cfg.get('ec_via_key'):
        lines.append('use_editor_config = true')
    return '\n'.join(lines) + '\n'


def configs(rng: random.Random, strength: int = 2, extra_random: int = 0) -> T.List[T.Dict[str, T.Any]]:
    """Greedy t-wise covering set over CONFIG_SPACE (always starts with the all-default configuration)."""
    keys = list(CONFIG_SPACE)
    out: T.List[T.Dict[str, T.Any]] = [dict(DEFAULT_CONFIG)]
    need: T.Set[T.Tuple[T.Tuple[str, T.Any], ...]] = set()
    for ks in itertools.combinations(keys, strength):
        for vs in itertools.product(*(CONFIG_SPACE[k] for k in ks)):
            need.add(tuple(zip(ks, vs)))

    def covered_by(c: T.Mapping[str, T.Any]) -> T.Set[T.Tuple[T.Tuple[str, T.Any], ...]]:
        return {tuple((k, c[k]) for k in ks) for ks in itertools.combinations(keys, strength)}

    need -= covered_by(out[0])
    while need:
        best, best_n = None, -1
        pick = min(need, key=repr)
        for _ in range(24):
            c = {k: rng.choice(CONFIG_SPACE[k]) for k in keys}
            # seed the candidate with one still-uncovered tuple so progress is guaranteed
            for k, v in pick:
                c[k] = v
            n = len(covered_by(c) & need)
            if n > best_n:
                best, best_n = c, n
        assert best is not None
        out.append(best)
        need -= covered_by(best)
    for _ in range(extra_random):
        out.append({k: rng.choice(CONFIG_SPACE[k]) for k in keys})
    for c in out:
        if c['editorconfig'] is None:
            c['ec_via_key'] = False
    return out


# --------------------------------------------------------------------------------------------------
# lexical material

IDS = ('a', 'b', 'x', 'foo', 'bar', 'srcs', 'deps', 'cc', 'lib_a', 'cfg', 'v1', 'name', 'opt', 'd', 'i', 'k', 'v', 'item',
       'very_long_identifier_name_number_one', 'another_quite_long_variable_name', '_p', 'f', 'files_', 'if_', 'not_in')
FUNCS = ('message', 'executable', 'library', 'dependency', 'files', 'files', 'files', 'custom_target', 'f', 'get_option',
         'import', 'configure_file', 'test', 'run_command', 'subdir_done', 'include_directories', 'static_library',
         'declare_dependency', 'project', 'find_program', 'join_paths', 'set_variable', 'g')
METHODS = ('get', 'format', 'split', 'strip', 'to_string', 'contains', 'found', 'get_variable', 'keys', 'length', 'm',
           'get_compiler', 'has_argument', 'version', 'version_compare', 'join', 'underscorify', 'to_upper', 'set')
KWNAMES = ('sources', 'dependencies', 'install', 'c_args', 'required', 'native', 'input', 'output', 'command', 'version',
           'include_directories', 'k', 'default_options', 'link_with', 'env', 'args', 'fill', 'check')
PATHS = ('a.c', 'b.c', 'main.c', 'src/util.c', 'src/a10.c', 'src/a2.c', 'Src/B.c', 'lib/x/y.c', 'z.h', 'foo.cpp', 'a1.c',
         'a10.c', 'a2.c', 'dir/sub/file.c', 'dir/file.c', 'gen.py', 'meson.build', 'A.c', '_x.c', '10.c', '9.c')
OPTS = ('--foo', '--bar', '-D', '--', '--prefix', '--long-option-name=value', '-Wall', '--output')

PLAIN_CHARS = 'abcdefghijklmnopqrstuvwxyzABCXYZ0123456789 _-./,:;=+*()[]{}<>!?%&|~^$@#"'
ESCAPES = ('\\\\', "\\'", '\\n', '\\t', '\\r', '\\a', '\\x41', '\\101', '\\7', '\\u00e9', '\\U0001F600', '\\N{DIGIT ONE}',
           '\\q', '\\ ', '\\@', '\\#', '\\"', '\\x4', '\\8')
ML_EXTRA = ('\n', '\n', "'", "''", '\\', '\\\\', '\\n', '\\t', "\\'x", '\\x41', '\\101', '\\N{DIGIT ONE}', '\\u00e9', '\\q',
            '\r', '\r\n', '\t', '@foo@', '@', '#', ' # not a comment ', '"', '\u00e9', '\u2028', '\x0c', '  ', '\n    ')
COMMENT_CHARS = 'abcdefghijklmnopqrstuvwxyz ABC0123 _-.,:;=+*()[]{}<>!?\'"\\@#\t'
COMMENT_WORDS = ('TODO', 'x = [1,', "'''", "'", 'endif', 'foreach', '\\', '\\n', 'files(', ')', '#', '##', ' ', '  ', '\t',
                 '\u00e9\u00fc', '\u4e2d', 'if true', '@var@', "f'", ',')
FOREIGN_SEPS = ('\r', '\x0c', '\x0b', '\x1c', '\x1d', '\x1e', '\x85', '\u2028', '\u2029')

_WORD = 'abcdefghijklmnopqrstuvwxyzABCDEFGHIJKLMNOPQRSTUVWXYZ0123456789_'
KEYWORDS = frozenset(('true', 'false', 'if', 'else', 'elif', 'endif', 'and', 'or', 'not', 'foreach', 'endforeach', 'in',
                      'continue', 'break'))


class Gen:
    """One program generator.  noise in [0, 1]: probability mass of non-canonical trivia in a gap.
    foreign: allow non-LF line separators (CR, FF, U+2028, ...) inside comments."""

    def __init__(self, rng: random.Random, noise: float = 0.5, foreign: bool = False, size: int = 8,
                 features: T.Optional[T.Counter[str]] = None, ml_backslash: bool = True) -> None:
        self.r = rng
        self.noise = noise
        self.foreign = foreign
        self.ml_backslash = ml_backslash
        self.size = size
        self.out: T.List[str] = []
        self.depth = 0            # bracket nesting of the emitted text
        self.prev = ''            # previous token text ('' at line start)
        self.in_ternary = False
        self.ncomments = 0
        self.feat: T.Counter[str] = features if features is not None else __import__('collections').Counter()
        self.indent_level = 0

    # ---- trivia ---------------------------------------------------------------------
    def comment_text(self) -> str:
        r = self.r
        self.ncomments += 1
        n = r.choice((0, 1, 1, 2, 3, 5, 12))
        parts = []
        for _ in range(n):
            if r.random() < 0.4:
                parts.append(r.choice(COMMENT_WORDS))
            else:
                parts.append(''.join(r.choice(COMMENT_CHARS) for _ in range(r.randint(1, 8))))
        s = '#' + r.choice(('', ' ', ' ', '  ', '!', '#')) + ''.join(parts) + f'c{self.ncomments}'
        if self.foreign and r.random() < 0.3:
            i = r.randint(1, len(s))
            s = s[:i] + r.choice(FOREIGN_SEPS) + s[i:]
            self.feat['comment-foreign-separator'] += 1
        if r.random() < 0.15:
            s += r.choice((' ', '  ', '\t'))
        return s

    def blanks(self, allow_empty: bool = True) -> str:
        r = self.r
        if r.random() >= self.noise:
            return ' '
        c = r.random()
        if c < 0.3 and allow_empty:
            return ''
        if c < 0.6:
            return ' ' * r.randint(1, 4)
        if c < 0.7:
            return '\t'
        return r.choice((' \t', '\t ', '  \t  ', '      '))

    def gap(self, req: bool = False, canonical: str = ' ') -> str:
        """Trivia between two tokens of one statement."""
        r = self.r
        if r.random() >= self.noise:
            return canonical if (canonical or not req) else ' '
        c = r.random()
        if self.depth > 0:
            if c < 0.25:
                return '' if not req else ' '
            if c < 0.50:
                return self.blanks(allow_empty=not req)
            if c < 0.70:
                self.feat['nl-in-brackets'] += 1
                return self.blanks() + '\n' * r.choice((1, 1, 1, 2, 3)) + self.blanks()
            if c < 0.88:
                self.feat['comment-in-brackets'] += 1
                s = self.blanks() + self.comment_text() + '\n'
                while r.random() < 0.3:
                    s += self.blanks() + r.choice(('', self.comment_text())) + '\n'
                return s + self.blanks()
            self.feat['continuation-in-brackets'] += 1
            return self.cont()
        if c < 0.35:
            return '' if not req else ' '
        if c < 0.85:
            return self.blanks(allow_empty=not req)
        self.feat['continuation'] += 1
        return self.cont()

    def cont(self) -> str:
        r = self.r
        s = self.blanks() + '\\' + r.choice(('', '', ' ', '\t'))
        if r.random() < 0.35:
            self.feat['continuation-with-comment'] += 1
            s += self.comment_text()
        return s + '\n' + self.blanks()

    # ---- token emission -------------------------------------------------------------
    def tok(self, s: str, canonical: T.Optional[str] = None) -> None:
        """Emit token s preceded by a gap.  canonical = the gap used when no noise is drawn."""
        prev = self.prev
        if prev:
            req = prev[-1] in _WORD and s[0] in _WORD
            if canonical is None:
                word_prev = prev[-1] in _WORD and prev not in KEYWORDS
                if prev in ('(', '[', '{', '.') or s in (',', ')', ']', '}', ':', '.'):
                    canonical = ''
                elif s == '(' and word_prev:
                    canonical = ''
                elif s == '[' and (word_prev or prev in (')', ']') or prev[-1] == "'"):
                    canonical = ''
                else:
                    canonical = ' '
            self.out.append(self.gap(req, canonical))
        if s in ('(', '[', '{'):
            self.depth += 1
        elif s in (')', ']', '}'):
            self.depth -= 1
        self.out.append(s)
        self.prev = s

    # ---- literals -------------------------------------------------------------------
    def plain_parts(self) -> T.List[str]:
        r = self.r
        k = r.random()
        if k < 0.25:
            return [r.choice(PATHS)]
        if k < 0.35:
            return [r.choice(OPTS)]
        n = r.choice((0, 1, 2, 3, 5, 8, 12, 20, 70))
        parts = []
        for _ in range(n):
            if r.random() < 0.2:
                parts.append(r.choice(ESCAPES))
            else:
                parts.append(r.choice(PLAIN_CHARS))
        return parts

    def plain_body(self) -> str:
        return ''.join(self.plain_parts())

    def ml_body(self) -> str:
        r = self.r
        n = r.choice((0, 1, 2, 4, 8, 20))
        parts = []
        style = r.random()
        for _ in range(n):
            c = r.random()
            if style < 0.5:   # "simplifiable" flavour: no newline, no quote (the interesting branch of the formatter)
                if c < 0.25:
                    parts.append(r.choice(('\\', '\\\\', '\\n', '\\t', '\\x41', '\\101', '\\q', '@foo@', '#', '"', '\t', '\\N{DIGIT ONE}',
                                           '\\u00e9', '\\ ', '@')))
                else:
                    parts.append(r.choice(PLAIN_CHARS))
            else:
                if c < 0.4:
                    parts.append(r.choice(ML_EXTRA))
                else:
                    parts.append(r.choice(PLAIN_CHARS))
        s = ''.join(parts).replace("'''", "''x")
        if not self.ml_backslash:
            s = s.replace('\\', '/')
        if not self.foreign:
            s = s.replace('\u2028', '_').replace('\x0c', '_')
        while s.endswith("'"):
            s += r.choice(('.', ' ', '\n'))
        if '\\' in s:
            self.feat['mlstring-with-backslash'] += 1
            if '\n' not in s and "'" not in s:
                self.feat['mlstring-with-backslash-simplifiable'] += 1
        if '\r' in s:
            self.feat['mlstring-with-cr'] += 1
        return s

    def string(self) -> str:
        r = self.r
        k = r.random()
        if k < 0.60:
            self.feat['lit:string'] += 1
            return "'" + self.plain_body() + "'"
        if k < 0.80:
            self.feat['lit:mlstring'] += 1
            return "'''" + self.ml_body() + "'''"
        if k < 0.92:
            parts = self.plain_parts()
            if r.random() < 0.6:
                parts.insert(r.randint(0, len(parts)), '@' + r.choice(IDS) + '@')   # never inside an escape sequence
                self.feat['lit:fstring-placeholder'] += 1
            else:
                self.feat['lit:fstring-plain'] += 1
            return "f'" + ''.join(parts) + "'"
        self.feat['lit:mlfstring'] += 1
        return "f'''" + self.ml_body() + "'''"

    def number(self) -> str:
        r = self.r
        return r.choice(('0', '1', '2', '10', '42', '123456789', '0x1F', '0XaB', '0o17', '0O7', '0b101', '0B1',
                         str(r.randint(0, 10 ** r.randint(1, 12)))))

    # ---- expressions ----------------------------------------------------------------
    def expr(self, minprec: int, b: int) -> None:
        """Emit an expression whose precedence level is >= minprec (lower levels get parentheses)."""
        r = self.r
        if b <= 0:
            return self.atom(0)
        c = r.random()
        # redundant parentheses anywhere
        if c < 0.06 * (0.5 + self.noise):
            self.feat['redundant-parens'] += 1
            return self.paren(lambda: self.expr(1, b - 1))
        c = r.random()
        if c < 0.45:
            level = 9
        elif c < 0.62:
            level = 8
        else:
            level = r.choice((1, 2, 2, 3, 3, 4, 4, 4, 5, 5, 5, 6, 6, 7))
        if level == 1 and self.in_ternary:
            level = 2
        if level < minprec:
            self.feat['needed-parens'] += 1
            return self.paren(lambda: self.level(level, b - 1))
        return self.level(level, b)

    def paren(self, inner: T.Callable[[], None]) -> None:
        self.tok('(')
        inner()
        self.tok(')')

    def level(self, level: int, b: int) -> None:
        r = self.r
        self.feat[f'expr:level{level}'] += 1
        if level == 1:
            self.expr(2, b - 1)
            self.tok('?')
            old = self.in_ternary
            self.in_ternary = True
            self.expr(2, b - 1)
            self.tok(':', canonical=' ')
            self.expr(2, b - 1)
            self.in_ternary = old
        elif level == 2:
            self.expr(3, b - 1)
            for _ in range(r.choice((1, 1, 2, 4))):
                self.tok('or')
                self.expr(3, b - 2)
        elif level == 3:
            self.expr(4, b - 1)
            for _ in range(r.choice((1, 1, 2, 4))):
                self.tok('and')
                self.expr(4, b - 2)
        elif level == 4:
            self.expr(5, b - 1)
            op = r.choice(('==', '!=', '<', '<=', '>', '>=', 'in', 'not in'))
            if op == 'not in':
                self.tok('not')
                self.tok('in')
            else:
                self.tok(op)
            self.expr(5, b - 1)
        elif level == 5:
            self.expr(6, b - 1)
            for _ in range(r.choice((1, 1, 2, 3, 9))):
                self.tok(r.choice('+-'))
                self.expr(6, b - 2)
        elif level == 6:
            self.expr(7, b - 1)
            for _ in range(r.choice((1, 1, 2))):
                self.tok(r.choice('*/%'))
                self.expr(7, b - 2)
        elif level == 7:
            if r.random() < 0.5:
                self.tok('not')
            else:
                self.tok('-')
                return self._after_minus(b)
            self.expr(8, b - 1)
        elif level == 8:
            self.postfix(b)
        else:
            self.atom(b)

    def _after_minus(self, b: int) -> None:
        # emit the operand; canonical gap after '-' is empty
        mark = len(self.out)
        self.expr(8, b - 1)
        if self.out[mark] == ' ':
            self.out[mark] = ''

    def postfix(self, b: int) -> None:
        r = self.r
        c = r.random()
        if c < 0.55:
            self.call(b)
        else:
            self.atom(b - 1)
        n = r.choice((0, 1, 1, 2, 3, 5)) if c >= 0.55 else r.choice((0, 0, 0, 1, 2))
        for _ in range(n):
            if r.random() < 0.75:
                self.feat['method-call'] += 1
                self.tok('.')
                self.tok(r.choice(METHODS))
                self.tok('(')
                self.args(b - 2)
                self.tok(')')
            else:
                self.feat['index'] += 1
                self.tok('[')
                self.expr(1, b - 2)
                self.tok(']')

    def call(self, b: int, name: T.Optional[str] = None) -> None:
        r = self.r
        name = name or r.choice(FUNCS)
        self.tok(name)
        self.tok('(')
        if name == 'files':
            self.files_args(b)
        else:
            self.args(b - 1)
        self.tok(')')

    def files_args(self, b: int) -> None:
        r = self.r
        self.feat['files-call'] += 1
        c = r.random()

        def strs(n: int) -> None:
            for i in range(n):
                if i:
                    self.tok(',')
                k = r.random()
                if k < 0.8:
                    self.tok("'" + r.choice(PATHS) + "'")
                elif k < 0.9:
                    self.tok(r.choice(IDS))
                else:
                    self.expr(1, 1)
            if n and r.random() < 0.3:
                self.tok(',')

        n = r.choice((0, 1, 2, 3, 5, 9, 25))
        if c < 0.4:
            strs(n)
        elif c < 0.75:
            self.feat['files-call-array'] += 1
            self.tok('[')
            strs(n)
            self.tok(']')
            if r.random() < 0.2:
                self.tok(',')
        elif c < 0.85:
            self.feat['files-call-nested-array'] += 1
            self.tok('[')
            self.tok('[')
            strs(n)
            self.tok(']')
            if r.random() < 0.5:
                self.tok(',')
                strs(r.randint(0, 2))
            self.tok(']')
        elif c < 0.93:
            self.feat['files-call-mixed'] += 1
            self.tok('[')
            strs(r.randint(0, 3))
            self.tok(']')
            self.tok(',')
            strs(r.randint(1, 3))
        else:
            self.feat['files-call-kwargs'] += 1
            self.tok('[')
            strs(n)
            self.tok(']')
            self.tok(',')
            self.tok('k')
            self.tok(':')
            self.expr(1, 1)

    def args(self, b: int) -> None:
        r = self.r
        npos = r.choice((0, 1, 1, 2, 2, 3, 4, 12 if b > 2 else 2))
        nkw = r.choice((0, 0, 1, 2, 3, 6 if b > 2 else 1))
        if b <= 0:
            npos, nkw = min(npos, 2), min(nkw, 1)
        first = True
        if npos and r.random() < 0.15:
            # '--opt', 'value' pairs (group_arg_value)
            self.feat['args-dashdash-pairs'] += 1
            for _ in range(r.randint(1, 4)):
                if not first:
                    self.tok(',')
                first = False
                self.tok("'" + r.choice(OPTS) + "'")
                if r.random() < 0.8:
                    self.tok(',')
                    self.tok("'" + r.choice(PATHS) + "'")
        else:
            for _ in range(npos):
                if not first:
                    self.tok(',')
                first = False
                self.expr(1, b - 1)
        names = r.sample(KWNAMES, nkw)
        for n in names:
            if not first:
                self.tok(',')
            first = False
            self.feat['kwarg'] += 1
            self.tok(n)
            self.tok(':')
            self.expr(1, b - 1)
        if not first and r.random() < 0.3:
            self.feat['trailing-comma'] += 1
            self.tok(',')

    def atom(self, b: int) -> None:
        r = self.r
        c = r.random()
        if b <= 0:
            c *= 0.7
        if c < 0.25:
            self.tok(r.choice(IDS))
        elif c < 0.37:
            self.tok(self.number())
        elif c < 0.42:
            self.tok(r.choice(('true', 'false')))
        elif c < 0.70:
            self.tok(self.string())
        elif c < 0.86:
            self.feat['array'] += 1
            self.tok('[')
            n = r.choice((0, 1, 2, 3, 5, 14))
            for i in range(n):
                if i:
                    self.tok(',')
                self.expr(1, b - 2)
            if n and r.random() < 0.3:
                self.feat['trailing-comma'] += 1
                self.tok(',')
            self.tok(']')
        elif c < 0.96:
            self.feat['dict'] += 1
            self.tok('{')
            n = r.choice((0, 1, 2, 3, 6))
            for i in range(n):
                if i:
                    self.tok(',')
                if r.random() < 0.8:
                    self.tok("'" + r.choice(IDS) + str(i) + "'")
                else:
                    self.expr(2, 1)
                self.tok(':')
                self.expr(1, b - 2)
            if n and r.random() < 0.3:
                self.tok(',')
            self.tok('}')
        else:
            self.paren(lambda: self.expr(1, b - 1))

    # ---- statements -----------------------------------------------------------------
    def eol(self, final: bool = False) -> None:
        """End the current logical line: optional trailing comment, newline."""
        r = self.r
        assert self.depth == 0, 'unbalanced brackets in generator'
        if r.random() < 0.25 * (0.4 + self.noise):
            self.feat['trailing-comment'] += 1
            self.out.append(self.blanks() if r.random() < self.noise else '  ')
            self.out.append(self.comment_text())
        elif r.random() < 0.2 * self.noise:
            self.out.append(r.choice((' ', '  ', '\t')))   # trailing blanks
        if not final:
            self.out.append('\n')
        self.prev = ''

    def bol(self) -> None:
        """Begin a logical line: indentation and, before it, optional blank/comment lines."""
        r = self.r
        while r.random() < 0.18 * (0.3 + self.noise):
            k = r.random()
            if k < 0.45:
                self.feat['blank-line'] += 1
                self.out.append(r.choice(('', '', ' ', '\t', '    ')) + '\n')
            else:
                self.feat['comment-line'] += 1
                self.out.append(self.line_indent() + self.comment_text() + '\n')
        self.out.append(self.line_indent())
        self.prev = ''

    def line_indent(self) -> str:
        r = self.r
        if r.random() >= self.noise:
            return '    ' * self.indent_level
        return r.choice(('', ' ', '  ', '    ', '\t', '        ', ' \t', '   '))

    def deep(self, depth: int) -> None:
        """`depth` argument lists opened one inside the other on one logical line (function calls, method calls, arrays,
        dicts, keyword arguments, in any mix), the innermost one holding arguments long enough to overflow the line even
        after all outer lists have been split: an input that needs as many - or more - successive splits as the
        formatter's regeneration loop has rounds (5)."""
        r = self.r
        self.feat[f'deep-nesting:depth{min(depth, 10)}'] += 1
        closers: T.List[T.Callable[[], None]] = []
        last_is_kw = False
        for _ in range(depth):
            k = r.random()
            after = r.random() < 0.25     # a sibling argument after the nested one
            last_is_kw = False

            def sibling() -> None:
                self.tok(',')
                self.tok(r.choice(("'s'", 'v1', '42', "'sibling.c'", 'true')))

            if k < 0.5:
                self.tok(r.choice([f for f in FUNCS if f != 'files'] + ['a', 'b', 'c', 'd', 'e']) if r.random() < 0.7 else r.choice(IDS))
                self.tok('(')
                if r.random() < 0.3:
                    self.tok(r.choice(("'first'", 'x', '1')))
                    self.tok(',')
                if r.random() < 0.25:
                    self.tok(r.choice(KWNAMES))
                    self.tok(':')
                    after = False         # no positional argument after a keyword argument
                    last_is_kw = True
                closer = ')'
            elif k < 0.62:
                self.tok(r.choice(IDS))
                self.tok('.')
                self.tok(r.choice(METHODS))
                self.tok('(')
                closer = ')'
            elif k < 0.84:
                self.tok('[')
                if r.random() < 0.3:
                    self.tok(r.choice(("'first'", 'x', '1')))
                    self.tok(',')
                closer = ']'
            else:
                self.tok('{')
                self.tok("'" + r.choice(IDS) + "'")
                self.tok(':')
                closer = '}'
                after = False
                last_is_kw = True

            def close(closer: str = closer, after: bool = after) -> None:
                if after:
                    sibling()
                if r.random() < 0.15:
                    self.tok(',')
                self.tok(closer)
            closers.append(close)
        # the innermost arguments
        n = 1 if last_is_kw else r.choice((1, 2, 2, 3, 5))
        for i in range(n):
            if i:
                self.tok(',')
            if r.random() < 0.8:
                self.tok("'" + ''.join(r.choice('abcdefghijklmnopqrstuvwxyz_-./') for _ in range(r.choice((8, 20, 45, 70, 95)))) + "'")
            else:
                self.tok(r.choice(IDS))
        for close in reversed(closers):
            close()

    def simple_statement(self, b: int) -> None:
        r = self.r
        c = r.random()
        if c < 0.05:
            self.feat['stmt:deep-nesting'] += 1
            if r.random() < 0.7:
                self.tok(r.choice(IDS))
                self.tok('=')
            self.deep(r.choice((3, 4, 5, 5, 6, 6, 7, 8, 10)))
        elif c < 0.40:
            self.feat['stmt:assign'] += 1
            self.tok(r.choice(IDS))
            self.tok('=')
            self.expr(1, b)
        elif c < 0.50:
            self.feat['stmt:plusassign'] += 1
            self.tok(r.choice(IDS))
            self.tok('+=')
            self.expr(1, b)
        elif c < 0.85:
            self.feat['stmt:call'] += 1
            self.call(b)
            if r.random() < 0.2:
                self.tok('.')
                self.tok(r.choice(METHODS))
                self.tok('(')
                self.args(b - 1)
                self.tok(')')
        else:
            self.feat['stmt:expr'] += 1
            self.expr(1, b)

    def statement(self, b: int, nest: int, in_loop: bool) -> None:
        r = self.r
        c = r.random()
        self.bol()
        if nest < 3 and c < 0.14:
            self.feat['stmt:if'] += 1
            self.tok('if')
            self.expr(1, min(b, 3))
            self.eol()
            self.block(b - 1, nest + 1, in_loop)
            for _ in range(r.choice((0, 0, 1, 2))):
                self.feat['stmt:elif'] += 1
                self.bol_kw()
                self.tok('elif')
                self.expr(1, min(b, 3))
                self.eol()
                self.block(b - 1, nest + 1, in_loop)
            if r.random() < 0.5:
                self.feat['stmt:else'] += 1
                self.bol_kw()
                self.tok('else')
                self.eol()
                self.block(b - 1, nest + 1, in_loop)
            self.bol_kw()
            self.tok('endif')
        elif nest < 3 and c < 0.22:
            self.feat['stmt:foreach'] += 1
            self.tok('foreach')
            self.tok(r.choice(IDS))
            if r.random() < 0.4:
                self.tok(',')
                self.tok(r.choice(IDS))
            self.tok(':', canonical=' ')
            self.expr(1, min(b, 3))
            self.eol()
            self.block(b - 1, nest + 1, True)
            self.bol_kw()
            self.tok('endforeach')
        elif in_loop and c < 0.27:
            self.feat['stmt:break-continue'] += 1
            self.tok(r.choice(('break', 'continue')))
        else:
            self.simple_statement(b)

    def bol_kw(self) -> None:
        self.bol()

    def block(self, b: int, nest: int, in_loop: bool) -> None:
        r = self.r
        self.indent_level += 1
        n = r.choice((0, 1, 1, 2, 3))
        for _ in range(n):
            self.statement(b, nest, in_loop)
            self.eol()
        self.indent_level -= 1

    def program(self) -> T.List[str]:
        """A program as a list of chunks; ''.join(chunks) is the text.  Every chunk holds whole top-level
        statements (with leading blank/comment lines and the final newline)."""
        r = self.r
        chunks: T.List[str] = []
        n = r.choice((1, 1, 1, 2, 2, 3, 4, 7)) if self.size >= 8 else r.randint(1, max(1, self.size))
        # optional leading comment block / blank lines
        if r.random() < 0.3 * (0.3 + self.noise):
            self.feat['leading-comment-block'] += 1
            chunks.append(''.join(r.choice(('', self.blanks())) + r.choice(('', self.comment_text())) + '\n'
                                  for _ in range(r.randint(1, 3))))
        for i in range(n):
            self.out = []
            self.indent_level = 0
            self.depth = 0
            self.in_ternary = False
            self.statement(r.choice((1, 2, 2, 3, 3, 4)), 0, False)
            last = i == n - 1
            if last:
                k = r.random()
                if k < 0.12 * (0.3 + self.noise):
                    self.feat['no-final-newline'] += 1
                    self.eol(final=True)
                else:
                    self.eol()
                    if r.random() < 0.2 * (0.3 + self.noise):
                        self.feat['trailing-trivia-at-eof'] += 1
                        for _ in range(r.randint(1, 3)):
                            self.out.append(r.choice(('', self.blanks())) + r.choice(('', '', self.comment_text())) + '\n')
                        if r.random() < 0.3:
                            self.out.append(self.blanks() + self.comment_text())   # comment without newline at EOF
            else:
                self.eol()
            chunks.append(''.join(self.out))
        return chunks


def program(rng: random.Random, features: T.Optional[T.Counter[str]] = None, foreign_rate: float = 0.04,
            ml_backslash_rate: float = 0.5) -> T.List[str]:
    noise = rng.choice((0.0, 0.15, 0.3, 0.5, 0.7, 0.9))
    foreign = rng.random() < foreign_rate
    g = Gen(rng, noise=noise, foreign=foreign, features=features, ml_backslash=rng.random() < ml_backslash_rate)
    return g.program()


# --------------------------------------------------------------------------------------------------
# corpus

def corpus_files(repo: str) -> T.List[str]:
    pats = ('test cases/**/meson.build', 'test cases/**/meson.options', 'test cases/**/meson_options.txt',
            'test cases/format/**/*.meson', 'manual tests/**/meson.build', 'unittests/**/meson.build')
    out: T.Set[str] = set()
    for p in pats:
        out.update(glob.glob(os.path.join(repo, p), recursive=True))
    return sorted(out)


def mutate_text(rng: random.Random, text: str, tokens: T.Sequence[T.Tuple[str, str]]) -> str:
    """Mutate a corpus file given its trivia-preserving token list [(kind, text), ...] (kinds of refmeson.tokenize
    with trivia=True).  Mutations act on trivia (so the program normally stays parseable and keeps its meaning as
    far as the mutation is concerned -- the caller re-parses anyway) or swap a literal for a nastier one."""
    toks = [list(t) for t in tokens]
    n = len(toks)
    if n == 0:
        return text
    g = Gen(rng, noise=0.9)
    depth = 0
    depths = []
    for k, s in toks:
        if k in ('(', '[', '{'):
            depth += 1
        elif k in (')', ']', '}'):
            depth = max(0, depth - 1)
        depths.append(depth)
    nmut = rng.choice((1, 1, 2, 3, 6, 12))
    for _ in range(nmut):
        i = rng.randrange(n)
        k, s = toks[i]
        m = rng.random()
        if k == 'ws':
            if m < 0.3:
                toks[i][1] = rng.choice(('', ' ', '   ', '\t'))
            elif depths[i] > 0:
                g.depth = 1
                toks[i][1] = g.gap(True)
            else:
                g.depth = 0
                toks[i][1] = g.gap(True)
        elif k in ('nl',):
            if m < 0.5:
                toks[i][1] = '\n' + rng.choice(('', '\n', '  # ' + 'added comment\n', '\\\n', '   '))
            else:
                toks[i][1] = ' '
        elif k == 'comment':
            if m < 0.5:
                toks[i][1] = g.comment_text()
            else:
                toks[i][1] = s + rng.choice(('  ', '\t', " '", ' \\'))
        elif k == 'eol':
            if m < 0.4:
                toks[i][1] = rng.choice(('  ', '')) + g.comment_text() + '\n'
            elif m < 0.6:
                toks[i][1] = '\n' + rng.choice(('\n', '  \n', '# c\n', '\t# c\n\n'))
        elif k == ',':
            if depths[i] > 0 and m < 0.5:
                toks[i][1] = ',' + g.comment_text() + '\n'
            elif m < 0.7:
                toks[i][1] = ' ,'
        elif k in (')', ']', '}'):
            # add a trailing comma / newline before the closer when the previous significant token allows it
            j = i - 1
            while j >= 0 and toks[j][0] in ('ws', 'nl', 'comment', 'cont'):
                j -= 1
            if j >= 0 and toks[j][0] not in ('(', '[', '{', ',', ':') and k != ')' or (k == ')' and j >= 0 and m < 0.5 and
                                                                                      toks[j][0] not in ('(', ',', ':')):
                if k == ')':
                    toks[i][1] = '\n' + s     # only a newline: '(expr,)' is not an expression
                else:
                    toks[i][1] = rng.choice((',', ',\n', '\n')) + s
        elif k in ('string', 'mstring'):
            if m < 0.25:
                toks[i][1] = g.string() if depths[i] >= 0 else s
            elif m < 0.4 and k == 'string' and "\\" not in s and '\n' not in s:
                toks[i][1] = "''" + s + "''"      # same text as a multiline literal
            elif m < 0.5 and k == 'string' and "\\" not in s:
                toks[i][1] = 'f' + s
        elif k in ('(', '[', '{') and m < 0.4:
            toks[i][1] = s + rng.choice(('\n', ' ', '  # c\n', ' \\\n'))
        elif k == 'id' and m < 0.15:
            toks[i][1] = '(' + s + ')'
    return ''.join(s for _, s in toks)
