"""C08 — option VALUES from a hostile alphabet (imports nothing from mesonbuild).

A string option is "a free form string" (Build-options.md), an array option holds "arbitrary strings": every value a user
can type after `-Dopt=` is a value the build directory has to keep.  The values built here are hostile to everything that
stores the value as text between the command line and the option store (meson-private/cmd_line.txt is an INI-style file,
option files and messages quote strings): blanks followed by a comment character, key/value delimiters, interpolation
syntax, quotes, brackets, commas, backslashes, shell and format metacharacters, tabs and runs of blanks inside the value,
non-ASCII text.

Deliberately NOT produced here (the driver has directed probes for them instead, see c08.py KNOWN_PROBES): values that
begin or end with a blank and values that contain a line break — the recorded command line of the pinned tree does not
keep those (known findings), and random histories that ran into them all the time would explore nothing else.
"""
from __future__ import annotations

import random
import typing as T

WORDS = ['a', 'b7', 'Zq', 'rc', 'x_y', 'release', 'see', 'bug', 'O2', 'v1.2', 'ü', 'ß', 'é', 'ñandú', '日本', '€', 'Ω', 'жук', '😀']

# separators that may stand anywhere inside a value
INNER = [' #', ' # ', ' ;', ' ; ', '#', ';', '=', ' = ', '==', ':', ' : ', '::', '%', '%%', '%(s)s', '%s', '%(', '"', "'", "''", '[', ']',
         '(', ')', '{', '}', '${x}', '$', ',', ', ', ' ,', '  ', ' ', '\t', ' \t#', '\\', '\\\\', '\\n', '\\t', '!', '*', '?', '~', '&', '|',
         '<', '>', '@', '@0@', '`', '-', '--', '/', '.', '+', '^', ' ', '　#', '​']
# what a value may begin / end with (no blanks: see the module docstring)
EDGE_LEAD = ['#', ';', '=', ':', '[', ']', '%', '"', "'", '-', '--', '@', '(', '{', '\\', ',', '!', '$', '*', '/', '.']
EDGE_TRAIL = ['#', ';', '=', ':', ']', '[', '%', '"', "'", '\\', ',', ')', '}', '!', '$', '.', ' #x', ' ;x']

_BLANK = ' \t\n\r\x0b\x0c\x1c\x1d\x1e\x1f\x85                 　'


def _ok_edges(v: str) -> bool:
    return bool(v) and v[0] not in _BLANK and v[-1] not in _BLANK and '\n' not in v and '\r' not in v


def hostile_string(r: random.Random, avoid: str = '') -> str:
    """One value; characters of `avoid` never occur in it."""
    for _ in range(50):
        n = r.choice([1, 1, 2, 2, 3])
        parts = [r.choice(WORDS)]
        for _ in range(n):
            parts.append(r.choice(INNER))
            parts.append(r.choice(WORDS))
        v = ''.join(parts)
        x = r.random()
        if x < 0.2:
            v = r.choice(EDGE_LEAD) + v
        elif x < 0.4:
            v = v + r.choice(EDGE_TRAIL)
        elif x < 0.45:
            v = r.choice(EDGE_LEAD) + v + r.choice(EDGE_TRAIL)
        if _ok_edges(v) and not any(c in v for c in avoid):
            return v
    return 'fallback #' + str(r.randint(0, 99))


def hostile_array(r: random.Random) -> str:
    """A documented spelling of an array value (Build-options.md): `a,b,c` with hostile elements that hold no comma, or the
    bracket form `['a,b', 'c']` (elements may hold commas; inner quotes single, so no single quote and — the form is a
    quoted literal — no backslash inside)."""
    k = r.choice([1, 2, 2, 3])
    seen: T.List[str] = []
    if r.random() < 0.5:
        while len(seen) < k:
            e = hostile_string(r, avoid=',')
            if e not in seen and not (not seen and e.startswith('[')):
                seen.append(e)
        return ','.join(seen)
    while len(seen) < k:
        e = hostile_string(r, avoid="'\\")
        if e not in seen:
            seen.append(e)
    if not any(',' in e for e in seen):
        seen[r.randrange(len(seen))] += ',' + r.choice(WORDS)
    return '[' + ', '.join("'" + e + "'" for e in seen) + ']'


def empty_option_file(r: random.Random) -> str:
    """Text of an option file that is still there but holds no option() call any more."""
    return r.choice(['', '\n', '# no options left\n', "# option('old', type: 'string', value: 'x')\n", '\n\n# all gone\n\n', '  \n'])


# ---- builtin options given for the build directory as a whole (wave 8) ---------------------------------------------------
# `specs`: name -> {'kind', 'choices'?} (the driver passes the table of the reference model).  Only VALID values are made:
# the prefix is an absolute path without a trailing slash and not starting with `~`, directory options are clean relative
# paths (an absolute one inside the prefix is documented to be rewritten relative to it - not what these histories are about).
_PATH_INNER = [' ', ' #', ';', '=', '%', '%(x)s', ':', ',', "'", '"', '[', '(', '&', '@', '+', '-', '.']
_PATH_WORDS = ['stage', 'opt', 'x1', 'Zq', 'my app', 'ü', '日本', 'v1.2', 'rel#1']


def prefix_value(r: random.Random, uid: int) -> str:
    x = r.random()
    if x < 0.16:
        return '/usr'
    if x < 0.26:
        return '/usr/local'
    if x < 0.6:
        return f'/opt/p{uid}' + r.choice(['', '/stage', '/a/b'])
    # hostile to the text file the command line is recorded in (no blank at either end, no line break)
    w = r.choice(_PATH_WORDS) + r.choice(_PATH_INNER) + r.choice(_PATH_WORDS)
    return f'/tmp/p{uid}/' + w.strip('/')


def builtin_value(r: random.Random, name: str, spec: T.Mapping[str, T.Any], uid: int) -> str:
    if name == 'prefix':
        return prefix_value(r, uid)
    if spec['kind'] == 'string':        # a directory option
        return r.choice([f'{name[:3]}{uid}', f'share/{name[:3]}{uid}', f'{name[:3]}{uid}/sub dir', 'lib64' if name == 'libdir' else f'x{uid}'])
    if spec['kind'] == 'combo':
        return r.choice([c for c in spec['choices'] if c != 'custom'])
    if spec['kind'] == 'boolean':
        return r.choice(['true', 'false'])
    raise AssertionError(name)


def builtin_assignment(r: random.Random, specs: T.Mapping[str, T.Mapping[str, T.Any]], first: bool, uid0: int) -> T.Dict[str, str]:
    """Builtin options for one command.  first: the command creates the configuration (setup on a fresh directory): two times
    out of three it carries some, the prefix more often than anything else; other commands carry one now and then."""
    out: T.Dict[str, str] = {}
    if first:
        if r.random() < 0.3:
            return out
        names = [n for n in specs if n != 'prefix']
        picked = r.sample(names, r.choice([0, 1, 1, 2, 3]))
        if r.random() < 0.7 or not picked:
            picked.insert(r.randrange(len(picked) + 1), 'prefix')
    else:
        if r.random() >= 0.15:
            return out
        picked = [r.choice(list(specs))]
    for i, n in enumerate(picked):
        out[n] = builtin_value(r, n, specs[n], uid0 + i)
    return out


def spelling(r: random.Random, kind: str, value: str) -> str:
    """How a builtin option is spelled on the command line: 'D' (-Dname=value), 'long=' (--name=value), 'long ' (--name value)
    or 'flag' (--name: a boolean builtin switched on)."""
    x = r.random()
    if x < 0.4:
        return 'D'
    if kind == 'boolean':
        return 'flag' if value == 'true' else 'D'
    return 'long=' if x < 0.75 else 'long '
