"""C08 — option VALUES from a hostile alphabet (imports nothing from mesonbuild).

A string option is "a free form string" (Build-options.md), an array option holds "arbitrary strings": every value a user
can type after `-Dopt=` is a value the build directory has to keep.  The values built here are hostile to everything that
stores the value as text between the command line and the option store (meson-private/cmd_line.txt is an INI-style file,
option files and messages quote strings): blanks followed by a comment character, key/value delimiters, interpolation
syntax, quotes, brackets, commas, backslashes, shell and format metacharacters, tabs and runs of blanks inside the value,
non-ASCII text.

Deliberately NOT produced here (the driver has directed probes for them instead, see c08.py KNOWN_PROBES): values that
begin or end with a blank and values that contain a line break — the recorded command line of the pinned tree does not
keep those (known findings), and random histories that ran into them all the time would explore nothing else.
"""
from __future__ import annotations

import random
import typing as T

WORDS = ['a', 'b7', 'Zq', 'rc', 'x_y', 'release', 'see', 'bug', 'O2', 'v1.2', 'ü', 'ß', 'é', 'ñandú', '日本', '€', 'Ω', 'жук', '😀']

# separators that may stand anywhere inside a value
INNER = [' #', ' # ', ' ;', ' ; ', '#', ';', '=', ' = ', '==', ':', ' : ', '::', '%', '%%', '%(s)s', '%s', '%(', '"', "'", "''", '[', ']',
         '(', ')', '{', '}', '${x}', '$', ',', ', ', ' ,', '  ', ' ', '\t', ' \t#', '\\', '\\\\', '\\n', '\\t', '!', '*', '?', '~', '&', '|',
         '<', '>', '@', '@0@', '`', '-', '--', '/', '.', '+', '^', ' ', '　#', '​']
# what a value may begin / end with (no blanks: see the module docstring)
EDGE_LEAD = ['#', ';', '=', ':', '[', ']', '%', '"', "'", '-', '--', '@', '(', '{', '\\', ',', '!', '$', '*', '/', '.']
EDGE_TRAIL = ['#', ';', '=', ':', ']', '[', '%', '"', "'", '\\', ',', ')', '}', '!', '$', '.', ' #x', ' ;x']

_BLANK = ' \t\n\r\x0b\x0c\x1c\x1d\x1e\x1f\x85                 　'


def _ok_edges(v: str) -> bool:
    return bool(v) and v[0] not in _BLANK and v[-1] not in _BLANK and '\n' not in v and '\r' not in v


def hostile_string(r: random.Random, avoid: str = '') -> str:
    """One value; characters of `avoid` never occur in it."""
    for _ in range(50):
        n = r.choice([1, 1, 2, 2, 3])
        parts = [r.choice(WORDS)]
        for _ in range(n):
            parts.append(r.choice(INNER))
            parts.append(r.choice(WORDS))
        v = ''.join(parts)
        x = r.random()
        if x < 0.2:
            v = r.choice(EDGE_LEAD) + v
        elif x < 0.4:
            v = v + r.choice(EDGE_TRAIL)
        elif x < 0.45:
            v = r.choice(EDGE_LEAD) + v + r.choice(EDGE_TRAIL)
        if _ok_edges(v) and not any(c in v for c in avoid):
            return v
    return 'fallback #' + str(r.randint(0, 99))


def hostile_array(r: random.Random) -> str:
    """A documented spelling of an array value (Build-options.md): `a,b,c` with hostile elements that hold no comma, or the
    bracket form `['a,b', 'c']` (elements may hold commas; inner quotes single, so no single quote and — the form is a
    quoted literal — no backslash inside)."""
    k = r.choice([1, 2, 2, 3])
    seen: T.List[str] = []
    if r.random() < 0.5:
        while len(seen) < k:
            e = hostile_string(r, avoid=',')
            if e not in seen and not (not seen and e.startswith('[')):
                seen.append(e)
        return ','.join(seen)
    while len(seen) < k:
        e = hostile_string(r, avoid="'\\")
        if e not in seen:
            seen.append(e)
    if not any(',' in e for e in seen):
        seen[r.randrange(len(seen))] += ',' + r.choice(WORDS)
    return '[' + ', '.join("'" + e + "'" for e in seen) + ']'


def empty_option_file(r: random.Random) -> str:
    """Text of an option file that is still there but holds no option() call any more."""
    return r.choice(['', '\n', '# no options left\n', "# option('old', type: 'string', value: 'x')\n", '\n\n# all gone\n\n', '  \n'])
