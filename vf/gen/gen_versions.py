"""gen_versions (C19): the finite version domain, operator spellings, constraint lists, range specs.

Domain (DESIGN.md C19/W): strings of <=3 components over COMPONENTS joined by SEPARATORS, plus
specials.  1- and 2-component strings are always complete; 3-component strings are a seeded sample
stratified over (numeric/alphabetic pattern) x (separator pair) so that every structural cell occurs.
"""
from __future__ import annotations

import itertools
import random
import typing as T

COMPONENTS = ['0', '1', '2', '10', '01', 'a', 'b', 'rc', 'Z']
SEPARATORS = ['.', '-', '_', '']
SPECIALS = ['', '1.0.0', '1.0a', '1..2', '1.0', '1.0.0.0', '0.46.0', '0.46', '1.2.3', '1.2.3.4', '9', '099', '100',
            '18446744073709551616', '18446744073709551615', '.', '1.', '.1', '1.A', '1.rc1', '1.0rc1', '1.0-rc1',
            '1.0.rc.1', 'A', 'z', 'Za', '2.0.0', '1.13.0', '1.12.99', 'RC', 'Rc', 'rC', '1.0RC1', 'B', '1.B', '1.0-RC1', 'zA']

# canonical operator spellings (str.yml) + "no operator"
OPERATORS = ['>=', '<=', '!=', '==', '=', '>', '<', '']
# stray white space the code documents by strip()ing the version text
SPACE_FORMS = ['{op} {v}', '{op}{v} ', '{op}  {v}\t', '{op}\t{v}']


def _kind(c: str) -> str:
    return 'n' if c.isdigit() else 'a'


def full_one_two() -> T.List[str]:
    out = list(COMPONENTS)
    for a, b in itertools.product(COMPONENTS, repeat=2):
        for s in SEPARATORS:
            out.append(a + s + b)
    return out


def three_strata() -> T.Dict[T.Tuple[str, str, str], T.List[str]]:
    strata: T.Dict[T.Tuple[str, str, str], T.List[str]] = {}
    for a, b, c in itertools.product(COMPONENTS, repeat=3):
        pat = _kind(a) + _kind(b) + _kind(c)
        for s1, s2 in itertools.product(SEPARATORS, repeat=2):
            strata.setdefault((pat, s1, s2), []).append(a + s1 + b + s2 + c)
    return strata


def domain(rng: random.Random, per_stratum: int) -> T.List[str]:
    """Deduplicated, deterministic order (specials first)."""
    seen: T.Dict[str, None] = {}
    for s in SPECIALS + full_one_two():
        seen.setdefault(s)
    strata = three_strata()
    for key in sorted(strata):
        items = strata[key]
        for s in rng.sample(items, min(per_stratum, len(items))):
            seen.setdefault(s)
    return list(seen)


def subdomain(rng: random.Random, dom: T.Sequence[str], n: int, always: T.Sequence[str] = ()) -> T.List[str]:
    """n elements of dom: the `always` ones, then a seeded sample of the rest."""
    out: T.Dict[str, None] = {}
    for s in always:
        if s in dom:
            out.setdefault(s)
    rest = [s for s in dom if s not in out]
    for s in rng.sample(rest, max(0, min(len(rest), n - len(out)))):
        out.setdefault(s)
    return list(out)[:max(n, len(out))]


# bounds that every range/constraint subdomain contains: equal-but-differently-spelled versions,
# the least version, a numeric/alphabetic neighbourhood with no version in between ('1' < '1.Z' has
# only 1.A..1.Y between), leading zeros, two-digit numbers
BOUND_CORE = ['1.0', '1-0', '1', '1.Z', '1.a', '1.0.0', '2', '10', '01', '', '0.46.0', 'rc', '1.0a', '1.2.3']


def range_specs(bounds: T.Sequence[str]) -> T.List[T.Tuple[T.Optional[str], bool, T.Optional[str], bool]]:
    """All (min|None, min_eq, max|None, max_eq); an absent bound is listed once (eq flag False)."""
    specs = []
    los: T.List[T.Tuple[T.Optional[str], bool]] = [(None, False)]
    for b in bounds:
        los += [(b, True), (b, False)]
    for (lo, lo_eq), (hi, hi_eq) in itertools.product(los, repeat=2):
        specs.append((lo, lo_eq, hi, hi_eq))
    return specs


def constraints(ops: T.Sequence[str], versions: T.Sequence[str]) -> T.List[str]:
    return [op + v for op in ops for v in versions]
