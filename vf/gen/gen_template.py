"""gen_template -- workload for property C14: template texts built from placeholder-like fragments and
configuration dictionaries whose values look like placeholders themselves.

Nothing here imports mesonbuild.  Everything is driven by a random.Random handed in by the caller.

A case is a dict (plain data, JSON-able):
  fmt      'meson' | 'cmake' | 'cmake@'
  text     the template
  data     name -> str | int | bool  (undefined names are simply absent)
  markers  name -> [opening marker, full value]   (only str values of a marker-mode dictionary)
  shape    structural key: fragment kinds per line, terminators, value classes, format
  cells    list of coverage cells 'fragment-kind' and 'value-class' touched by the case
"""
from __future__ import annotations

import random
import typing as T

FORMATS = ('meson', 'cmake', 'cmake@')

NAMES = ['A', 'B', 'VAR', 'var1', 'x-y', '_u', 'N1', 'Ab_2']
UNDEF_NAMES = ['U', 'U-2', 'MISSING_q']

# filler never contains '<' '>' '9' (reserved for markers) nor any of @ \ $ { } #
WORDS = ['x', 'foo', 'int', 'a b', '/* c */', '"', "'", '=', '0', '12', 'define', ';', '%', '(', ')', '!',
         'mesondefine', 'cmakedefine', '_', '-', '.', '+', '/']
NONASCII_LATIN1 = ['\u00e9', '\u00df', '\u00a4', '\u00fc\u00f1']
NONASCII_WIDE = ['\u20ac', '\u03bb', '\u65e5\u672c', '\U0001f600']
EXOTIC_SPACE = ['\u00a0', '\x0c', '\x0b', '\x1f', '\u2003']

# ---- inline fragments: kind -> function(name) ------------------------------------------------------
INLINE: T.Dict[str, T.Callable[[str], str]] = {
    'at':          lambda n: '@' + n + '@',
    'at-open':     lambda n: '@' + n,
    'at-close':    lambda n: n + '@',
    'atat':        lambda n: '@@',
    'at1':         lambda n: '@',
    'esc':         lambda n: '\\@' + n + '\\@',
    'bs1-at':      lambda n: '\\@' + n + '@',
    'bs2-at':      lambda n: '\\\\@' + n + '@',
    'bs2-esc':     lambda n: '\\\\@' + n + '\\@',
    'bs3-esc':     lambda n: '\\\\\\@' + n + '\\@',
    'bs3-at':      lambda n: '\\\\\\@' + n + '@',
    'bs4-at':      lambda n: '\\\\\\\\@' + n + '@',
    'bs5-esc':     lambda n: '\\\\\\\\\\@' + n + '\\@',
    'at-bs':       lambda n: '@' + n + '\\@',
    'at-bs2':      lambda n: '@' + n + '\\\\@',
    'esc-bs2':     lambda n: '\\@' + n + '\\\\@',
    'bs':          lambda n: '\\',
    'bsbs':        lambda n: '\\\\',
    'brace':       lambda n: '${' + n + '}',
    'brace2':      lambda n: '${${' + n + '}}',
    'brace-open':  lambda n: '${' + n,
    'brace-sp':    lambda n: '${' + n + ' }',
    'brace-empty': lambda n: '${}',
    'bs-brace':    lambda n: '\\${' + n + '}',
    'brace-at':    lambda n: '${@' + n + '@}',
    'dollar':      lambda n: '$',
    'lbrace':      lambda n: '{',
    'rbrace':      lambda n: '}',
    'hash':        lambda n: '#',
    'at-space':    lambda n: '@' + n + ' @',
    'at-bang':     lambda n: '@' + n + '!@',
    'at-slash':    lambda n: '@' + n + '/.+@',
    'name':        lambda n: n,
}
# fragments whose text is chosen by the rng
RANDOM_INLINE = ('word', 'space', 'nonascii', 'tab')

# kinds that may make a whole cmake-format template an error (kept rare)
CMAKE_RISKY = {'brace-open', 'brace-sp', 'brace-empty', 'brace-at'}

# ---- whole-line fragments ---------------------------------------------------------------------------
LINEFRAG: T.Dict[str, T.Callable[[str, str], str]] = {
    'mdef':         lambda n, m: '#mesondefine ' + n,
    'mdef-hashsp':  lambda n, m: '# mesondefine ' + n,
    'mdef-odd':     lambda n, m: '#mesondefine  ' + n + ' ',
    'mdef-indent':  lambda n, m: '  #mesondefine ' + n,
    'mdef-tab':     lambda n, m: '\t#mesondefine\t' + n,
    'mdef-mid':     lambda n, m: 'x #mesondefine ' + n,
    'mdef-atname':  lambda n, m: '#mesondefine @' + n + '@',
    'mdef-3tok':    lambda n, m: '#mesondefine ' + n + ' x',
    'mdef-0':       lambda n, m: '#mesondefine',
    'mdef-glued':   lambda n, m: '#mesondefine' + n,
    'mdef-nbsp':    lambda n, m: '\u00a0#mesondefine ' + n,
    'mdef-ff':      lambda n, m: '#mesondefine\x0c' + n,
    'cdef':         lambda n, m: '#cmakedefine ' + n,
    'cdef-at':      lambda n, m: '#cmakedefine ' + n + ' @' + n + '@',
    'cdef-brace':   lambda n, m: '#cmakedefine ' + n + ' ${' + n + '}',
    'cdef01':       lambda n, m: '#cmakedefine01 ' + n,
    'cdef-text':    lambda n, m: '  #cmakedefine ' + n + ' x  @' + m + '@ "y"',
    'cdef-text2':   lambda n, m: '#cmakedefine ' + n + ' ${' + m + '}${' + n + '}',
    'cdef-key':     lambda n, m: '#cmakedefine ' + n + ' ' + m,
    'cdef-hashsp':  lambda n, m: '# cmakedefine ' + n,
    'cdef-hashsp2': lambda n, m: '#  cmakedefine ' + n + ' 1',
    'cdef-hashtab01': lambda n, m: '#\tcmakedefine01 ' + n,
    'cdef-indent-hashsp': lambda n, m: '  # cmakedefine ' + n + ' x',
    'cdef-0':       lambda n, m: '#cmakedefine',
    'cdef01-0':     lambda n, m: '  #cmakedefine01  ',
    'cdef-glued':   lambda n, m: '#cmakedefine' + n,
}
MESON_SAFE_LINES = ['mdef', 'mdef-hashsp', 'mdef-odd', 'mdef-indent', 'mdef-tab', 'mdef-mid', 'mdef-atname']
MESON_RISKY_LINES = ['mdef-3tok', 'mdef-0', 'mdef-glued', 'mdef-nbsp', 'mdef-ff', 'cdef', 'cdef-hashsp']
CMAKE_SAFE_LINES = ['cdef', 'cdef-at', 'cdef-brace', 'cdef01', 'cdef-text', 'cdef-text2']
CMAKE_RISKY_LINES = ['cdef-key', 'cdef-hashsp', 'cdef-hashsp2', 'cdef-hashtab01', 'cdef-indent-hashsp', 'cdef-0', 'cdef01-0',
                     'cdef-glued', 'mdef']

# ---- value classes ----------------------------------------------------------------------------------
STR_CLASSES = ['str.plain', 'str.plain', 'str.empty', 'str.blank', 'str.spaced', 'str.at-lookalike', 'str.at-self',
               'str.at-undef', 'str.brace-lookalike', 'str.esc-lookalike', 'str.bs-at', 'str.bs2-at', 'str.backslash',
               'str.group-ref', 'str.define-lookalike', 'str.nonascii', 'str.quote', 'str.at-only', 'str.newline',
               'str.name-of-other']
INT_CLASSES = ['int.zero', 'int.one', 'int.pos', 'int.neg', 'int.big']
BOOL_CLASSES = ['bool.true', 'bool.false']


def _payload(cls: str, name: str, other: str, rng: random.Random, charset: str) -> str:
    if cls == 'str.plain':
        return rng.choice(['val', 'foo', 'a_token', 'v1.2.3', 'word'])
    if cls == 'str.empty':
        return ''
    if cls == 'str.blank':
        return rng.choice([' ', '  ', '\t'])
    if cls == 'str.spaced':
        return rng.choice([' v ', 'a b  c', '  lead', 'trail  '])
    if cls == 'str.at-lookalike':
        return '@' + other + '@'
    if cls == 'str.at-self':
        return 'p@' + name + '@q'
    if cls == 'str.at-undef':
        return '@U@'
    if cls == 'str.brace-lookalike':
        return '${' + other + '}'
    if cls == 'str.esc-lookalike':
        return '\\@' + other + '\\@'
    if cls == 'str.bs-at':
        return rng.choice(['\\@', 'x\\@y', '\\'])
    if cls == 'str.bs2-at':
        return rng.choice(['\\\\@', '\\\\@' + other + '@', '\\\\\\\\@z'])
    if cls == 'str.backslash':
        return rng.choice(['a\\b', 'C:\\dir\\n', '\\\\', 'tab\\there'])
    if cls == 'str.group-ref':
        return rng.choice(['\\1', '\\g<0>', '\\g<variable>', 'a\\0b'])
    if cls == 'str.define-lookalike':
        return '#mesondefine ' + other
    if cls == 'str.nonascii':
        pool = NONASCII_LATIN1 if charset != 'unicode' else NONASCII_LATIN1 + NONASCII_WIDE
        return 'n' + rng.choice(pool) if charset != 'ascii' else 'n~'
    if cls == 'str.quote':
        return rng.choice(['"value"', "it's", '"a \\"b\\""'])
    if cls == 'str.at-only':
        return rng.choice(['@', '@@', 'a@b', '$', '${'])
    if cls == 'str.newline':
        return 'l1\nl2'
    if cls == 'str.name-of-other':
        return other
    raise AssertionError(cls)


def gen_data(rng: random.Random, names: T.Sequence[str], charset: str, marker: bool,
             allow_newline: bool = True, classes: T.Optional[T.Sequence[str]] = None
             ) -> T.Tuple[T.Dict[str, T.Any], T.Dict[str, T.List[str]], T.Dict[str, str]]:
    """-> (data, markers, class per name).  Insertion order of data is random (matters for the
    header-without-template obligation)."""
    data: T.Dict[str, T.Any] = {}
    markers: T.Dict[str, T.List[str]] = {}
    cls_of: T.Dict[str, str] = {}
    order = list(names)
    rng.shuffle(order)
    for idx, n in enumerate(order):
        other = rng.choice([x for x in names if x != n] or [n])
        r = rng.random()
        if classes:
            cls = rng.choice(list(classes))
        elif r < 0.17:
            cls = 'undef'
        elif r < 0.72:
            cls = rng.choice(STR_CLASSES)
        elif r < 0.88:
            cls = rng.choice(INT_CLASSES)
        else:
            cls = rng.choice(BOOL_CLASSES)
        if cls == 'str.newline' and not allow_newline:
            cls = 'str.plain'
        cls_of[n] = cls
        if cls == 'undef':
            continue
        if cls.startswith('str.'):
            p = _payload(cls, n, other, rng, charset)
            if marker:
                opening = '<[' + n + '|'
                full = opening + p + '|' + n + ']>'
                markers[n] = [opening, full]
                data[n] = full
            else:
                data[n] = p
        elif cls.startswith('int.'):
            if marker:
                data[n] = 9000000 + rng.randrange(100000, 999999) * 10 + idx
            else:
                data[n] = {'int.zero': 0, 'int.one': 1, 'int.pos': rng.choice([2, 42, 1000]),
                           'int.neg': rng.choice([-1, -7]), 'int.big': 2 ** 40 + 1}[cls]
        else:
            data[n] = cls == 'bool.true'
    return data, markers, cls_of


def _refs(v: T.Any, names: T.Iterable[str]) -> T.List[str]:
    if not isinstance(v, str):
        return []
    return [n for n in names if ('@' + n + '@') in v or ('${' + n + '}') in v]


def reference_cycle(data: T.Mapping[str, T.Any]) -> bool:
    """True if some value mentions (as @N@ or ${N}) a name whose value leads back to it."""
    graph = {k: _refs(v, data.keys()) for k, v in data.items()}
    state: T.Dict[str, int] = {}

    def visit(k: str) -> bool:
        if state.get(k) == 1:
            return True
        if state.get(k) == 2:
            return False
        state[k] = 1
        for m in graph.get(k, ()):
            if visit(m):
                return True
        state[k] = 2
        return False
    return any(visit(k) for k in graph)


def _inline(kind: str, name: str, rng: random.Random, charset: str) -> str:
    if kind == 'word':
        return rng.choice(WORDS)
    if kind == 'space':
        return rng.choice([' ', '  '])
    if kind == 'tab':
        return '\t'
    if kind == 'nonascii':
        if charset == 'ascii':
            return '~'
        pool = NONASCII_LATIN1 if charset == 'latin1' else NONASCII_LATIN1 + NONASCII_WIDE
        return rng.choice(pool)
    return INLINE[kind](name)


_MESON_INLINE_W = [(k, 3) for k in ('at', 'esc', 'bs2-at', 'bs1-at', 'word', 'space')] + \
                  [(k, 2) for k in ('at-open', 'at-close', 'atat', 'at1', 'bs3-esc', 'bs4-at', 'bs2-esc', 'bs3-at',
                                    'at-bs', 'bs', 'bsbs', 'brace', 'nonascii', 'name')] + \
                  [(k, 1) for k in ('bs5-esc', 'at-bs2', 'esc-bs2', 'brace2', 'brace-open', 'dollar', 'lbrace', 'rbrace',
                                    'hash', 'at-space', 'at-bang', 'bs-brace', 'tab', 'at-slash', 'brace-empty')]
_CMAKE_INLINE_W = [(k, 3) for k in ('at', 'brace', 'word', 'space')] + \
                  [(k, 2) for k in ('at-open', 'at-close', 'atat', 'at1', 'brace2', 'nonascii', 'name', 'dollar',
                                    'lbrace', 'rbrace', 'at-slash')] + \
                  [(k, 1) for k in ('esc', 'bs1-at', 'bs2-at', 'bs', 'bsbs', 'hash', 'at-space', 'at-bang', 'bs-brace',
                                    'tab')]


def _expand(weighted: T.Sequence[T.Tuple[str, int]]) -> T.List[str]:
    out: T.List[str] = []
    for k, w in weighted:
        out += [k] * w
    return out


_MESON_INLINE_POOL = _expand(_MESON_INLINE_W)
_CMAKE_INLINE_POOL = _expand(_CMAKE_INLINE_W)


EOL_STYLES = ['lf', 'lf', 'crlf', 'mixed', 'cr-rare']


def gen_case(rng: random.Random, fmt: T.Optional[str] = None, charset: T.Optional[str] = None,
             risky: T.Optional[bool] = None, max_lines: int = 8, allow_newline_values: bool = True) -> dict:
    fmt = fmt or rng.choice(['meson', 'meson', 'meson', 'cmake', 'cmake@'])
    charset = charset or rng.choice(['ascii', 'latin1', 'unicode'])
    if risky is None:
        risky = rng.random() < 0.12
    marker = rng.random() < 0.55
    k = rng.randint(2, 5)
    names = rng.sample(NAMES, k)
    data, markers, cls_of = gen_data(rng, names, charset, marker, allow_newline_values)
    if fmt != 'meson':
        # upstream re-reads substituted values in the cmake formats: a value that leads back to itself never
        # terminates there (known finding, re-observed by a directed probe); each such case would cost a watchdog
        for _ in range(20):
            if not reference_cycle(data):
                break
            data, markers, cls_of = gen_data(rng, names, charset, marker, allow_newline_values)
    usable = names + [rng.choice(UNDEF_NAMES)]
    nlines = rng.randint(1, max_lines)
    style = rng.choice(EOL_STYLES)
    final_eol = rng.random() < 0.55
    lines: T.List[str] = []
    shape: T.List[T.Any] = []
    cells: T.Set[str] = set('value:' + c for c in cls_of.values())
    risky_line = rng.randrange(nlines) if risky else -1
    pool_inline = _MESON_INLINE_POOL if fmt == 'meson' else _CMAKE_INLINE_POOL
    for li in range(nlines):
        r = rng.random()
        kinds: T.List[str] = []
        if li == risky_line and rng.random() < 0.7:
            pool = MESON_RISKY_LINES if fmt == 'meson' else CMAKE_RISKY_LINES
            kd = rng.choice(pool)
            body = LINEFRAG[kd](rng.choice(usable), rng.choice(usable))
            kinds = [kd]
        elif r < 0.25:
            pool = MESON_SAFE_LINES if fmt == 'meson' else CMAKE_SAFE_LINES
            kd = rng.choice(pool)
            n1 = rng.choice(usable)
            body = LINEFRAG[kd](n1, rng.choice(usable))
            kinds = [kd]
            cells.add('define-of:' + cls_of.get(n1, 'undef'))
        else:
            parts: T.List[str] = []
            nfr = rng.randint(0, 6) if rng.random() > 0.03 else rng.randint(30, 90)    # now and then a long line
            if nfr > 6:
                cells.add('line:long')
            for _ in range(nfr):
                kd = pool_inline[int(rng.random() * len(pool_inline))]
                if fmt == 'cmake' and kd in CMAKE_RISKY and li != risky_line:
                    kd = 'brace'
                if fmt == 'cmake' and li != risky_line and kd == 'lbrace' and parts and parts[-1].endswith('$'):
                    kd = 'word'   # an accidental, unterminated '${' would turn the whole template into an error
                n1 = rng.choice(usable)
                parts.append(_inline(kd, n1, rng, charset))
                kinds.append(kd)
                if kd in INLINE and kd != 'name':
                    cells.add('subst-of:' + cls_of.get(n1, 'undef'))
            body = ''.join(parts)
        last = li == nlines - 1
        if last and not final_eol:
            eol = ''
        elif style == 'lf':
            eol = '\n'
        elif style == 'crlf':
            eol = '\r\n'
        elif style == 'mixed':
            eol = rng.choice(['\n', '\r\n'])
        else:
            eol = rng.choice(['\n', '\n', '\r\n', '\r'])
        lines.append(body + eol)
        shape.append((tuple(kinds), eol))
        for kd in kinds:
            cells.add('frag:' + kd)
        cells.add('eol:' + {'': 'none', '\n': 'lf', '\r\n': 'crlf', '\r': 'cr'}[eol])
    text = ''.join(lines)
    return {
        'fmt': fmt, 'text': text, 'data': data, 'markers': markers, 'charset': charset,
        'shape': (fmt, tuple(shape), tuple(sorted(cls_of.values())), marker),
        'cells': sorted(cells),
    }


# ---- bounded exhaustive part ------------------------------------------------------------------------
EXH_ALPHABET = ['@A@', '@B@', '\\', '\\\\', '@', 'A', '\\@A\\@', '@A', 'A@', ' ', 'x', '${A}', '\\@']
EXH_DICTS: T.List[T.Dict[str, T.Any]] = [
    {'A': 'va', 'B': 'vb'},
    {'A': '@B@', 'B': '\\@A\\@'},
    {'B': ''},
    {'A': 7, 'B': '<[B|\\\\@A@|B]>'},
]


def exhaustive_lines(maxlen: int = 3) -> T.Iterator[str]:
    """Every concatenation of 1..maxlen symbols of EXH_ALPHABET (13 + 169 + 2197 lines for maxlen 3)."""
    def rec(prefix: str, depth: int) -> T.Iterator[str]:
        if depth:
            yield prefix
        if depth == maxlen:
            return
        for s in EXH_ALPHABET:
            yield from rec(prefix + s, depth + 1)
    yield from rec('', 0)


# ---- header-without-template dictionaries -----------------------------------------------------------
HEADER_KEYS = ['FOO', 'BAR', 'foo', 'Zed', 'A1', 'A10', 'A2', '_X', 'HAVE_X', 'have_y', 'B', 'b', 'AA', 'a']


def gen_header_case(rng: random.Random) -> dict:
    k = rng.randint(0, 9)
    keys = rng.sample(HEADER_KEYS, k)
    data: T.Dict[str, T.Any] = {}
    desc: T.Dict[str, str] = {}
    for key in keys:
        r = rng.random()
        if r < 0.45:
            data[key] = rng.choice(['"string"', 'a_token', '', 'two words', '@FOO@', '${BAR}', '\\@B\\@', 'x\\y',
                                    '#define B 1', '/* c */', '1'])
        elif r < 0.75:
            data[key] = rng.choice([0, 1, 42, -3, 2 ** 33])
        else:
            data[key] = rng.random() < 0.5
        if rng.random() < 0.3:
            desc[key] = rng.choice(['Set %s if it is available' % key, 'desc', 'two\nlines'])
    fmt = rng.choice(['c', 'c', 'nasm', 'json'])
    macro = rng.choice([None, None, 'CONFIG_H_GUARD', 'FOO']) if fmt == 'c' else None
    return {'output_format': fmt, 'macro_name': macro, 'data': data, 'desc': desc,
            'shape': ('header', fmt, bool(macro), len(keys),
                      tuple(sorted(type(v).__name__ for v in data.values())), bool(desc))}


# ---- sequences on ONE configuration_data() object ---------------------------------------------------
SEQ_VALUES_STR = ['"string"', 'a_token', '', 'two words', '@FOO@', '${BAR}', 'x\\y', '1', 'v2']


def _seq_value(rng: random.Random) -> T.Any:
    r = rng.random()
    if r < 0.45:
        return rng.choice(SEQ_VALUES_STR)
    if r < 0.75:
        return rng.choice([0, 1, 42, -3, 7])
    return rng.random() < 0.5


def _seq_entries(rng: random.Random, keys: T.Sequence[str]) -> T.Dict[str, T.Tuple[T.Any, T.Optional[str]]]:
    out: T.Dict[str, T.Tuple[T.Any, T.Optional[str]]] = {}
    for k in keys:
        out[k] = (_seq_value(rng), ('about ' + k) if rng.random() < 0.25 else None)
    return out


def gen_sequence(rng: random.Random) -> T.List[T.Tuple[T.Any, ...]]:
    """A history of a FAMILY of configuration_data() objects related by assignment (`b = a` copies: Syntax.md,
    "all objects are immutable ... a new object is created and assigned to the name"; Configuration.md, "Copy
    of immutable configuration_data is still immutable").  Object 0 gets initial entries; then 3-7 steps, each
    an optional mutation of one member followed by one configure_file() of a (possibly different) member.
    Mutations: merge_from() of a fresh object (works also after first use), set/set10/set_quoted (only while
    the member - and, for a copy, the object it was copied from at copy time - has not been used), and
    assignment to a new variable.  Half of the histories have a single object (use, merge, use again).  Ops:
       ('init', entries) ('copy', src, dst) ('set', obj, entries) ('merge', obj, entries)
       ('emit', obj, kind, macro_name)   kind: c | nasm | json | template | template-cmake | template-cmake@
       ('universe', keys) last"""
    universe = rng.sample(HEADER_KEYS, rng.randint(4, 9))
    rng.shuffle(universe)
    n0 = rng.randint(0, max(1, len(universe) // 2))
    ops: T.List[T.Tuple[T.Any, ...]] = [('init', _seq_entries(rng, universe[:n0]))]
    family = rng.random() < 0.5
    used = [False]
    nsteps = rng.randint(3, 5) if not family else rng.randint(4, 7)
    for step in range(nsteps):
        if family and len(used) < 4 and (step == 0 or rng.random() < 0.35):
            src = rng.randrange(len(used))
            ops.append(('copy', src, len(used)))
            used.append(used[src])
        tgt = rng.randrange(len(used))
        r = rng.random()
        ks = rng.sample(universe, rng.randint(1, min(3, len(universe))))
        if not used[tgt] and r < 0.6:
            ops.append(('set', tgt, _seq_entries(rng, ks)))
        elif step > 0 and r < 0.85 or r < 0.25:
            ops.append(('merge', tgt, _seq_entries(rng, ks)))
        who = rng.randrange(len(used))
        kind = rng.choice(['c', 'c', 'c', 'nasm', 'json', 'template', 'template', 'template-cmake', 'template-cmake@'])
        if step == nsteps - 1 and rng.random() < 0.7:
            kind = rng.choice(['c', 'nasm'])
        macro = rng.choice([None, None, 'SEQ_GUARD_H']) if kind == 'c' else None
        ops.append(('emit', who, kind, macro))
        used[who] = True
    ops.append(('universe', list(universe)))
    return ops


# ---- ONE object through configure_file() calls of DIFFERENT formats, in every order -----------------
EMIT_KINDS = ('template', 'template-cmake', 'template-cmake@', 'c', 'nasm', 'json')


def _order_entries(rng: random.Random) -> T.Dict[str, T.Tuple[T.Any, T.Optional[str]]]:
    """Entries of every documented value type (Configuration.md: strings, integers, booleans), each class at
    least once, under keys drawn per chain."""
    values: T.List[T.Any] = [True, False, 0, 1, rng.choice([42, -3, 7]), 'a_token', '"string"',
                             rng.choice(['', 'two words', 'v2']), _seq_value(rng)]
    keys = rng.sample(HEADER_KEYS, len(values))
    rng.shuffle(values)
    return {k: (v, ('about ' + k) if rng.random() < 0.2 else None) for k, v in zip(keys, values)}


def gen_format_orders(rng: random.Random, part: int, nparts: int, nperm: int,
                      all_perms: bool = False) -> T.List[T.List[T.Tuple[T.Any, ...]]]:
    """Chains in the op language of gen_sequence(): a fresh configuration_data() object holding booleans,
    integers and strings is handed to configure_file() calls of different kinds one after the other.
    Every ORDERED pair of the six kinds (36, the same kind twice included; split over `nparts` callers) plus
    `nperm` orders of all six (random, or - all_perms - the slice `part` of all 720)."""
    import itertools
    chains: T.List[T.Tuple[str, ...]] = []
    pairs = [(a, b) for a in EMIT_KINDS for b in EMIT_KINDS]
    chains += [p for i, p in enumerate(pairs) if i % nparts == part]
    if all_perms:
        chains += [p for i, p in enumerate(itertools.permutations(EMIT_KINDS)) if i % nparts == part]
    else:
        for _ in range(nperm):
            p = list(EMIT_KINDS)
            rng.shuffle(p)
            chains.append(tuple(p))
    out: T.List[T.List[T.Tuple[T.Any, ...]]] = []
    for ch in chains:
        entries = _order_entries(rng)
        ops: T.List[T.Tuple[T.Any, ...]] = [('init', entries)]
        for kind in ch:
            ops.append(('emit', 0, kind, None))
        ops.append(('universe', list(entries)))
        out.append(ops)
    return out
