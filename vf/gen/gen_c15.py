"""gen_c15: seeded generator of C projects for C15 (imports nothing from mesonbuild).

generate(seed) -> (files, desc)
  files : {relative path: text}   a complete meson project
  desc  : the generator's own words about what it wrote (never read back from meson):
    setup_args      : extra `meson setup` arguments (-D..., --layout)
    printed         : {project: [option names whose get_option() value the build files print]}
    never_read      : build-definition files that exist in the tree but must NOT be read
    must_read       : build-definition files that must be read
    reconfigure     : {'arg': '-Dname=value', 'name', 'value'} an option change for a later `setup --reconfigure`
    configure       : the same for a later `meson configure` (name = the intro-buildoptions.json entry it must change)
    test_setups     : None | {'names': [setup names], 'default': None | [project, name], 'env': {name: {project: {VAR: value}}},
                       'meson_project': {project label: meson project name}}  (variables are named C15S_*)
    dumper_tests    : {test id: {'name', 'bench', 'exe': 'c'|'py', 'project'}}  tests whose program records argv/env/cwd
    features        : sorted feature cells

Every project prints each option it can see with
    message('C15OPT|<project>|<name>|' + <value rendered by format()>)
so that the values get_option() RETURNED are on stdout of the same `meson setup`.

Programs used as tests record what they were started with (tools/dumper.c, tools/dump.py): one file
$C15_DUMPDIR/<pid>.rec with hex lines  A <argv element> / E <NAME=value> / C <cwd> / T <start> <end> (CLOCK_MONOTONIC).
They print a TAP stream whose only test is skipped: protocol tap => result SKIP, protocol exitcode => OK.
"""
from __future__ import annotations

import random
import typing as T

DUMPER_C = r'''#define _POSIX_C_SOURCE 200809L
#include <stdio.h>
#include <stdlib.h>
#include <string.h>
#include <time.h>
#include <unistd.h>
extern char **environ;
static void hex(FILE *f, const char *tag, const char *s) {
    fputs(tag, f);
    for (; *s; s++) fprintf(f, "%02x", (unsigned char)*s);
    fputc('\n', f);
}
static double now(void) {
    struct timespec ts;
    clock_gettime(CLOCK_MONOTONIC, &ts);
    return (double)ts.tv_sec + (double)ts.tv_nsec / 1e9;
}
int main(int argc, char **argv) {
    const char *d = getenv("C15_DUMPDIR");
    double t0 = now();
    struct timespec nap = {0, 40000000L};
    nanosleep(&nap, NULL);
    if (d) {
        char p[4096];
        char cwd[4096];
        FILE *f;
        int i;
        char **e;
        snprintf(p, sizeof p, "%s/%ld.rec", d, (long)getpid());
        f = fopen(p, "w");
        if (f) {
            for (i = 0; i < argc; i++) hex(f, "A ", argv[i]);
            for (e = environ; *e; e++) hex(f, "E ", *e);
            if (getcwd(cwd, sizeof cwd)) hex(f, "C ", cwd);
            fprintf(f, "T %.6f %.6f\n", t0, now());
            fclose(f);
        }
    }
    printf("1..1\nok 1 # SKIP c15 dumper\n");
    return 0;
}
'''

DUMP_PY = r'''import os, sys, time
t0 = time.clock_gettime(time.CLOCK_MONOTONIC)
time.sleep(0.04)
d = os.environ.get('C15_DUMPDIR')
def hx(b):
    return b.hex()
if d:
    with open(os.path.join(d, '%d.rec' % os.getpid()), 'w') as f:
        for a in sys.orig_argv:
            f.write('A ' + hx(os.fsencode(a)) + '\n')
        for k, v in os.environb.items():
            f.write('E ' + hx(k + b'=' + v) + '\n')
        f.write('C ' + hx(os.fsencode(os.getcwd())) + '\n')
        f.write('T %.6f %.6f\n' % (t0, time.clock_gettime(time.CLOCK_MONOTONIC)))
sys.stdout.write('1..1\nok 1 # SKIP c15 dumper\n')
'''

GEN_PY = r'''import os, sys
# gen.py TAG OUT...   writes C sources / headers / text; TAG makes every symbol unique
tag = sys.argv[1]
for o in sys.argv[2:]:
    b = ''.join(c if c.isalnum() else '_' for c in os.path.basename(o))
    with open(o, 'w') as f:
        if o.endswith('.c'):
            f.write('int gen_%s_%s(void) { return 0; }\n' % (tag, b))
        elif o.endswith('.h'):
            f.write('#pragma once\n#define GEN_%s_%s 1\n' % (tag, b))
        else:
            f.write('generated %s %s\n' % (tag, b))
'''

CONV_PY = r'''import os, sys
# conv.py IN OUT : generator() tool
b = ''.join(c if c.isalnum() else '_' for c in os.path.basename(sys.argv[2]))
with open(sys.argv[2], 'w') as f:
    f.write('int conv_%s(void) { return 1; }\n' % b)
'''

CAP_PY = r'''import sys
for a in sys.argv[1:]:
    print('captured', a)
'''

# Builtin options every project prints (install_umask is left out: get_option('install_umask') dies with an
# internal error "Object 0o22 of type OctalInt is neither in self.holder_map" on this tree; names with a dot are
# module options; b_sanitize is documented to be returned as a string although it is stored as an array).
BUILTIN_PRINTED = [
    'prefix', 'bindir', 'libdir', 'datadir', 'includedir', 'mandir', 'libexecdir', 'sbindir', 'sysconfdir',
    'localstatedir', 'sharedstatedir', 'infodir', 'localedir', 'licensedir',
    'buildtype', 'debug', 'optimization', 'warning_level', 'werror', 'default_library', 'default_both_libraries',
    'layout', 'unity', 'unity_size', 'strip', 'wrap_mode', 'prefer_static', 'auto_features', 'backend',
    'errorlogs', 'stdsplit', 'force_fallback_for', 'pkg_config_path', 'cmake_prefix_path', 'vsenv',
    'b_ndebug', 'b_lto', 'b_staticpic', 'b_pie', 'b_asneeded', 'b_lundef', 'b_colorout', 'b_coverage', 'b_pch',
    'b_pgo', 'c_std', 'c_args', 'c_link_args', 'backend_max_links',
]

STR_VALUES = ['plain', 'two words', 'eq=sign', 'co:lon', 'com,ma', 'ümlaut', 'at@sign', 'x/y', '', 'a+b', '-dash', 'tab\tbed'.replace('\t', ' ')]
ARR_ELEMS = ['a', 'bb', 'c c', 'd=e', 'f:g', 'ü', 'h/i']


# ---- wave 7: install directories COMPOSED from option strings.  (expression, feature cell).  The right-hand components
# are get_option() values or literals; whether they are relative or ABSOLUTE depends on the directory options of the
# configuration (DIR_PROFILES), e.g. --prefix=/usr makes meson default sysconfdir to /etc.
COMPOSED_DIRS: T.List[T.Tuple[str, str]] = [
    ("get_option('prefix') / get_option('sysconfdir') / 'c15w7'", 'div:prefix/sysconfdir/lit'),
    ("get_option('prefix') / get_option('datadir') / 'c15w7'", 'div:prefix/datadir/lit'),
    ("get_option('prefix') / get_option('localstatedir')", 'div:prefix/localstatedir'),
    ("get_option('prefix') / get_option('libdir') / 'c15w7'", 'div:prefix/libdir/lit'),
    ("get_option('prefix') / get_option('sharedstatedir') / 'c15w7' / 'deep'", 'div:prefix/sharedstatedir/lit/lit'),
    ("get_option('datadir') / get_option('sysconfdir')", 'div:datadir/sysconfdir'),
    ("get_option('localstatedir') / 'lib' / 'c15w7'", 'div:localstatedir/lit/lit'),
    ("get_option('sharedstatedir') / 'c15w7'", 'div:sharedstatedir/lit'),
    ("get_option('sysconfdir') / 'c15w7.d'", 'div:sysconfdir/lit'),
    ("'share' / get_option('sysconfdir') / 'c15w7'", 'div:lit/sysconfdir/lit'),
    ("get_option('datadir') / '/opt/c15abs'", 'div:datadir/abs-literal'),
    ("get_option('prefix') / 'opt' / get_option('bindir')", 'div:prefix/lit/bindir'),
    ("join_paths(get_option('prefix'), get_option('sysconfdir'), 'c15w7j')", 'join_paths:prefix,sysconfdir,lit'),
    ("join_paths(get_option('datadir'), 'c15w7j')", 'join_paths:datadir,lit'),
    ("join_paths(get_option('localstatedir'), 'c15w7j')", 'join_paths:localstatedir,lit'),
    ("get_option('prefix') / join_paths(get_option('sysconfdir'), 'c15w7k')", 'div:prefix/join_paths'),
]

# directory options of one configuration: (label, {option: value}).  Absolute values outside the prefix are allowed for
# sysconfdir / localstatedir / sharedstatedir only (Builtin-options.md).
DIR_PROFILES: T.List[T.Tuple[str, T.Dict[str, str]]] = [
    ('default', {}),
    ('prefix=/usr', {'prefix': '/usr'}),
    ('prefix+abs-sysconfdir', {'prefix': '/opt/c15x', 'sysconfdir': '/etc/c15x'}),
    ('abs-localstatedir+sharedstatedir', {'localstatedir': '/var', 'sharedstatedir': '/var/lib/c15'}),
    ('abs-sysconfdir+rel-localstatedir', {'sysconfdir': '/etc', 'localstatedir': 'var/rel', 'datadir': 'share/dd7'}),
    ('rel-everything', {'prefix': '/usr', 'sysconfdir': 'etc/rel', 'localstatedir': 'var', 'sharedstatedir': 'com', 'libdir': 'lib7'}),
]

# install functions a composed directory is used with: (kind, files needed below <base>, one statement per use)
COMPOSED_USES = ('install_data', 'install_data:rename', 'install_headers', 'install_man', 'install_subdir', 'custom_target',
                 'custom_target:list', 'configure_file', 'install_symlink', 'install_emptydir')


def composed_use(kind: str, expr: str, base: str, k: int, tag: T.Optional[str]) -> T.Tuple[T.Dict[str, str], T.List[str]]:
    """One install statement of `kind` whose directory is `expr` (files it needs, lines).  `py` and `gen_tool` must be
    defined by the project for the custom_target kinds."""
    files: T.Dict[str, str] = {}
    tg = f", install_tag: {mstr(tag)}" if tag else ''
    if kind == 'install_data':
        files[f'{base}/d{k}.txt'] = f'w7 data {k}\n'
        return files, [f"install_data('{base}/d{k}.txt', install_dir: {expr}{tg})"]
    if kind == 'install_data:rename':
        files[f'{base}/r{k}.txt'] = f'w7 renamed data {k}\n'
        return files, [f"install_data('{base}/r{k}.txt', install_dir: {expr}, rename: 'sub{k}/renamed{k}.txt'{tg})"]
    if kind == 'install_headers':
        files[f'{base}/h{k}.h'] = f'/* w7 header {k} */\n'
        return files, [f"install_headers('{base}/h{k}.h', install_dir: {expr})"]
    if kind == 'install_man':
        files[f'{base}/m{k}.3'] = f'.\\" w7 man {k}\n'
        return files, [f"install_man('{base}/m{k}.3', install_dir: {expr})"]
    if kind == 'install_subdir':
        files[f'{base}/tree{k}/f.txt'] = f'w7 tree {k}\n'
        files[f'{base}/tree{k}/in/g.txt'] = f'w7 tree {k} inner\n'
        return files, [f"install_subdir('{base}/tree{k}', install_dir: {expr}{tg})"]
    if kind == 'custom_target':
        return files, [f"custom_target('w7ct{k}', output: 'w7ct{k}.txt', command: [py, gen_tool, 'w7{k}', '@OUTPUT@'], "
                       f"build_by_default: true, install: true, install_dir: {expr}{tg})"]
    if kind == 'custom_target:list':
        return files, [f"custom_target('w7cl{k}', output: ['w7cl{k}a.txt', 'w7cl{k}b.dat'], command: [py, gen_tool, 'w7l{k}', '@OUTPUT@'], "
                       f"build_by_default: true, install: true, install_dir: [{expr}, 'share/w7lit'])"]
    if kind == 'configure_file':
        return files, [f"configure_file(output: 'w7cf{k}.h', configuration: {{'W7': {k}}}, install: true, install_dir: {expr}{tg})"]
    if kind == 'install_symlink':
        return files, [f"install_symlink('w7link{k}', pointing_to: 'target{k}', install_dir: {expr})"]
    if kind == 'install_emptydir':
        return files, [f"install_emptydir({expr} / 'w7empty{k}')"]
    raise AssertionError(kind)


def mstr(s: str) -> str:
    return "'" + s.replace('\\', '\\\\').replace("'", "\\'") + "'"


def mlist(items: T.Sequence[str]) -> str:
    return '[' + ', '.join(items) + ']'


def mval(v: T.Any) -> str:
    if isinstance(v, bool):
        return 'true' if v else 'false'
    if isinstance(v, int):
        return str(v)
    if isinstance(v, list):
        return mlist([mstr(x) for x in v])
    return mstr(v)


def cmdval(v: T.Any) -> str:
    if isinstance(v, bool):
        return 'true' if v else 'false'
    if isinstance(v, list):
        return ','.join(v)
    return str(v)


class Opt:
    def __init__(self, name: str, typ: str, default: T.Any, choices: T.Optional[T.List[str]] = None,
                 yielding: bool = False, lo: T.Optional[int] = None, hi: T.Optional[int] = None) -> None:
        self.name, self.typ, self.default, self.choices, self.yielding, self.lo, self.hi = name, typ, default, choices, yielding, lo, hi

    def decl(self) -> str:
        kw = [f"type: {mstr(self.typ)}", f"value: {mval(self.default)}"]
        if self.choices is not None:
            kw.append('choices: ' + mlist([mstr(c) for c in self.choices]))
        if self.lo is not None:
            kw.append(f'min: {self.lo}')
        if self.hi is not None:
            kw.append(f'max: {self.hi}')
        if self.yielding:
            kw.append('yield: true')
        kw.append(f"description: {mstr('c15 ' + self.name)}")
        return f"option({mstr(self.name)}, {', '.join(kw)})"

    def other_value(self, r: random.Random) -> T.Any:
        if self.typ == 'string':
            return r.choice([v for v in STR_VALUES if v != self.default and ',' not in v] or ['zz'])
        if self.typ == 'boolean':
            return not self.default
        if self.typ == 'integer':
            return r.choice([v for v in range(self.lo or 0, (self.hi or 9) + 1) if v != self.default])
        if self.typ == 'combo':
            return r.choice([c for c in T.cast('T.List[str]', self.choices) if c != self.default])
        if self.typ == 'feature':
            return r.choice([c for c in ('enabled', 'disabled', 'auto') if c != self.default])
        if self.typ == 'array':
            pool = self.choices if self.choices is not None else [e for e in ARR_ELEMS if ',' not in e]
            return r.sample(pool, r.randint(1, min(3, len(pool))))
        raise AssertionError(self.typ)


def rand_opt(r: random.Random, name: str, yielding: bool = False, typ: T.Optional[str] = None) -> Opt:
    typ = typ or r.choice(['string', 'string', 'boolean', 'integer', 'combo', 'array', 'feature'])
    if typ == 'string':
        return Opt(name, typ, r.choice(STR_VALUES), yielding=yielding)
    if typ == 'boolean':
        return Opt(name, typ, r.random() < 0.5, yielding=yielding)
    if typ == 'integer':
        lo, hi = r.choice([(0, 9), (-5, 5), (1, 100)])
        return Opt(name, typ, r.randint(lo, hi), yielding=yielding, lo=lo, hi=hi)
    if typ == 'combo':
        ch = r.sample(['one', 'two', 'three', 'fo ur', 'five'], r.randint(2, 4))
        return Opt(name, typ, r.choice(ch), choices=ch, yielding=yielding)
    if typ == 'feature':
        return Opt(name, typ, r.choice(['auto', 'enabled', 'disabled']), yielding=yielding)
    if r.random() < 0.4:
        ch = r.sample(['k1', 'k2', 'k3', 'k 4'], r.randint(2, 4))
        return Opt(name, 'array', r.sample(ch, r.randint(0, len(ch))), choices=ch, yielding=yielding)
    return Opt(name, 'array', r.sample(ARR_ELEMS, r.randint(0, 3)), yielding=yielding)


def print_opts(proj: str, user: T.Sequence[Opt], builtin: T.Sequence[str]) -> T.List[str]:
    L: T.List[str] = []
    feats = [o.name for o in user if o.typ == 'feature']
    plain = [o.name for o in user if o.typ != 'feature'] + list(builtin)
    L.append(f"foreach c15n : {mlist([mstr(n) for n in plain])}")
    L.append(f"  message('C15OPT|{proj}|' + c15n + '|@0@'.format(get_option(c15n)))")
    L.append('endforeach')
    for n in feats:
        L += [f"c15f = get_option({mstr(n)})", "c15fs = 'auto'", 'if c15f.enabled()', "  c15fs = 'enabled'",
              'elif c15f.disabled()', "  c15fs = 'disabled'", 'endif',
              f"message('C15OPT|{proj}|{n}|' + c15fs)"]
    return L


class Gen:
    def __init__(self, seed: T.Union[int, str], size: str = 'normal') -> None:
        self.r = random.Random(f'c15:{seed}')
        self.seed = seed
        self.size = size
        self.files: T.Dict[str, str] = {}
        self.features: T.Set[str] = set()
        self.setup_args: T.List[str] = []
        self.dumper_tests: T.Dict[str, dict] = {}
        self.never_read: T.List[str] = []
        self.must_read: T.List[str] = []
        self.printed: T.Dict[str, T.List[str]] = {}
        self.counter = 0
        self.data_n = 0

    def uniq(self, p: str) -> str:
        self.counter += 1
        return f'{p}{self.counter}'

    def data_file(self, path: str) -> None:
        self.data_n += 1
        self.files[path] = f'c15 data file #{self.data_n} {path}\n'

    # ------------------------------------------------------------------ tests
    def gen_test(self, proj: str, exes: T.Dict[str, str], args_pool: T.Sequence[T.Tuple[str, str]],
                 dep_pool: T.Sequence[str], bench: bool, pydump: str) -> str:
        """One test()/benchmark() call of a dumper program.  args_pool: (expression, feature) pairs."""
        r = self.r
        tid = self.uniq('T')
        name = r.choice(['t', 'check', 'unit test', 'a.b', 'tést', 'x+y']) + tid
        kind = r.choice(['c', 'c', 'py']) if 'c' in exes else 'py'
        kw: T.List[str] = []
        args: T.List[str] = []
        if kind == 'c':
            exe = exes['c']
        else:
            exe = 'py'
            args.append(pydump)
        args.append(mstr('ID:' + tid))
        for _ in range(r.randint(0, 4)):
            if args_pool and r.random() < 0.55:
                e, f = r.choice(list(args_pool))
                args.append(e)
                self.features.add('test-arg:' + f)
            else:
                args.append(mstr(r.choice(['--flag', 'two words', '@INPUT@', '$HOME', 'quo"te', "it's", 'back\\slash', 'a=b',
                                            '', '-', '--', '*', '~', 'ü', '%s', '{x}', '#c'])))
        kw.append('args: ' + mlist(args))
        x = r.random()
        if x < 0.3:
            ev = {('C15V_' + self.uniq('K')): r.choice(STR_VALUES + ['$X', '%p', 'a;b', 'q"q']) for _ in range(r.randint(1, 3))}
            kw.append('env: {' + ', '.join(f'{mstr(k)}: {mstr(v)}' for k, v in ev.items()) + '}')
            self.features.add('test-env:dict')
        elif x < 0.5:
            ev2 = [('C15V_' + self.uniq('K')) + '=' + r.choice(['v', 'v w', 'a=b', '']) for _ in range(r.randint(1, 3))]
            kw.append('env: ' + mlist([mstr(e) for e in ev2]))
            self.features.add('test-env:list')
        elif x < 0.8:
            var = self.uniq('env')
            pre = [f'{var} = environment()']
            base = 'C15V_' + self.uniq('K')
            pre.append(f"{var}.set({mstr(base)}, {mstr(r.choice(STR_VALUES))})")
            if r.random() < 0.7:
                sep = r.choice([None, ';', ',', ' '])
                vals = ', '.join(mstr(v) for v in r.sample(['p1', 'p 2', 'p3'], r.randint(1, 3)))
                pre.append(f"{var}.append({mstr(base + 'A')}, {vals}" + (f', separator: {mstr(sep)}' if sep else '') + ')')
                self.features.add('test-env:append')
            if r.random() < 0.5:
                pre.append(f"{var}.prepend({mstr(base)}, 'front')")
                self.features.add('test-env:prepend-after-set')
            if r.random() < 0.3:
                pre.append(f"{var}.set({mstr(base + 'M')}, 'm1', 'm2', separator: '|')")
            self.pre_lines += pre
            kw.append(f'env: {var}')
            self.features.add('test-env:object')
        if r.random() < 0.6:
            suites = r.sample(['s1', 's2', 'slow', 'su ite', 'x:y'.replace(':', '-')], r.randint(1, 3))
            kw.append('suite: ' + (mlist([mstr(s) for s in suites]) if len(suites) > 1 or r.random() < 0.5 else mstr(suites[0])))
            self.features.add('test-suite')
        if dep_pool and r.random() < 0.5:
            ds = r.sample(list(dep_pool), min(len(dep_pool), r.randint(1, 3)))
            kw.append('depends: ' + mlist(ds))
            self.features.add('test-depends')
        x = r.random()
        if x < 0.2:
            kw.append('workdir: meson.current_source_dir()')
            self.features.add('test-workdir:source')
        elif x < 0.4:
            kw.append('workdir: meson.current_build_dir()')
            self.features.add('test-workdir:build')
        elif x < 0.5:
            kw.append("workdir: meson.project_source_root() / 'data'")
            self.features.add('test-workdir:other')
        if not bench and r.random() < 0.35:
            kw.append('is_parallel: false')
            self.features.add('test-serial')
        if r.random() < 0.4:
            kw.append(f'timeout: {r.choice([1000, 77, 300, 45])}')
            self.features.add('test-timeout')
        if r.random() < 0.4:
            kw.append("protocol: 'tap'")
            self.features.add('test-protocol:tap')
        elif r.random() < 0.2:
            kw.append("protocol: 'exitcode'")
        if r.random() < 0.4:
            kw.append(f'priority: {r.choice([-3, 1, 5, 10, 10])}')
            self.features.add('test-priority')
        func = 'benchmark' if bench else 'test'
        self.dumper_tests[tid] = {'name': name, 'bench': bench, 'exe': kind, 'project': proj}
        return f"{func}({mstr(name)}, {exe}, {', '.join(kw)})"

    # ------------------------------------------------------------------ subproject
    def gen_subproject(self, top_opts: T.Sequence[Opt]) -> T.Tuple[T.List[Opt], T.List[str]]:
        r = self.r
        root = 'subprojects/sp/'
        opts: T.List[Opt] = []
        # yielding option with a same-named, same-typed parent; one without parent; one with a type mismatch
        cands = [o for o in top_opts]
        if cands:
            p = r.choice(cands)
            o = rand_opt(r, p.name, yielding=True, typ=p.typ)
            if p.typ == 'combo':
                o.choices = list(T.cast('T.List[str]', p.choices))
                o.default = r.choice(o.choices)
            if p.typ == 'array' and p.choices is not None:
                o.choices = list(p.choices)
                o.default = r.sample(o.choices, r.randint(0, len(o.choices)))
            if p.typ == 'integer':
                o.lo, o.hi = p.lo, p.hi
                o.default = r.randint(T.cast(int, p.lo), T.cast(int, p.hi))
            opts.append(o)
            self.features.add('opt:yield-to-parent:' + p.typ)
        if r.random() < 0.5:
            opts.append(rand_opt(r, 'lonely', yielding=True))
            self.features.add('opt:yield-without-parent')
        if len(cands) > 1 and r.random() < 0.4:
            p2 = r.choice([c for c in cands if c.name != opts[0].name])
            typ = 'string' if p2.typ != 'string' else 'boolean'
            opts.append(rand_opt(r, p2.name, yielding=True, typ=typ))
            self.features.add('opt:yield-type-mismatch')
        for k in range(r.randint(1, 3)):
            opts.append(rand_opt(r, f'spo{k}'))
        optfile = r.choice(['meson.options', 'meson_options.txt'])
        self.files[root + optfile] = '\n'.join(o.decl() for o in opts) + '\n'
        self.must_read.append(root + optfile)
        self.must_read.append(root + 'meson.build')
        dflt: T.List[str] = []
        if r.random() < 0.5:
            dflt.append(r.choice(['c_std=c99', 'warning_level=0', 'optimization=1', 'default_library=static', 'b_ndebug=true']))
            self.features.add('opt:sp-project-default_options')
        L = [f"project('sp', 'c', version: '0.{r.randint(1, 9)}', meson_version: '>=1.10.0'" +
             (f", default_options: {mlist([mstr(d) for d in dflt])}" if dflt else '') + ')']
        builtin = r.sample(BUILTIN_PRINTED, 18) + ['warning_level', 'default_library', 'optimization', 'c_std', 'werror',
                                                    'b_ndebug', 'c_args', 'debug', 'unity', 'strip', 'buildtype']
        builtin = sorted(set(builtin))
        L += print_opts('sp', opts, builtin)
        self.printed['sp'] = [o.name for o in opts] + builtin
        L.append("py = find_program('python3')")
        L.append("sp_inc = include_directories('inc')")
        self.files[root + 'inc/sp.h'] = '#pragma once\nint sp_fn(void);\n'
        self.files[root + 'sp.c'] = '#include "sp.h"\nint sp_fn(void) { return 7; }\n'
        kind = r.choice(['static_library', 'library', 'shared_library', 'both_libraries'])
        inst = r.random() < 0.6
        L.append(f"sp_lib = {kind}('splib', 'sp.c', include_directories: sp_inc, install: {mval(inst)})")
        self.features.add('sp-lib:' + kind)
        self.files[root + 'tools/dump.py'] = DUMP_PY
        self.files[root + 'data/keep.txt'] = 'k\n'
        self.files[root + 'tools/dumper.c'] = DUMPER_C
        L.append("sp_dumper = executable('spdumper', 'tools/dumper.c')")
        if r.random() < 0.6:
            L.append("subdir('inner')")
            self.files[root + 'inner/in.c'] = 'int sp_inner(void) { return 1; }\n'
            self.files[root + 'inner/meson.build'] = "sp_inner = static_library('spinner', 'in.c', build_by_default: false)\n"
            self.must_read.append(root + 'inner/meson.build')
            self.features.add('sp-subdir')
        self.pre_lines = []
        tests = []
        for _ in range(r.randint(1, 2)):
            tests.append(self.gen_test('sp', {'c': 'sp_dumper'}, [("files('sp.c')", 'file'), ('sp_lib', 'library')], ['sp_lib'],
                                       bench=False, pydump="files('tools/dump.py')"))
        if r.random() < 0.3:
            tests.append(self.gen_test('sp', {'c': 'sp_dumper'}, [], [], bench=True, pydump="files('tools/dump.py')"))
        L += self.pre_lines + tests
        if r.random() < 0.6:
            L.append("install_headers('inc/sp.h'" + r.choice(['', ", subdir: 'spinc'", ", install_dir: 'sp/include'"]) + ')')
            self.features.add('sp-install_headers')
        if r.random() < 0.5:
            self.data_file(root + 'spdata.txt')
            L.append("install_data('spdata.txt'" + r.choice(['', ", install_dir: get_option('datadir') / 'spd'",
                                                               ", rename: 'sp-renamed.txt'", ", install_tag: 'sptag'"]) + ')')
            self.features.add('sp-install_data')
        self.files[root + 'meson.build'] = '\n'.join(L) + '\n'
        # command-line / parent overrides for the subproject
        args: T.List[str] = []
        for o in opts:
            if r.random() < 0.3:
                args.append(f'-Dsp:{o.name}={cmdval(o.other_value(r))}')
                self.features.add('opt:cmdline-sp-project-option' + (':yielding' if o.yielding else ''))
        over = [('warning_level', ['0', '1', '2', '3']), ('default_library', ['static', 'shared', 'both']),
                ('optimization', ['1', '2', 's']), ('c_std', ['c99', 'c11', 'gnu11']), ('b_ndebug', ['true', 'false']),
                ('c_args', ['-DSPX=1', '-DSPX=1,-DSPY']), ('debug', ['false']), ('strip', ['true']), ('buildtype', ['release', 'debugoptimized'])]
        for name, vals in r.sample(over, r.choice([0, 1, 1, 2, 3])):
            args.append(f'-Dsp:{name}={r.choice(vals)}')
            self.features.add('opt:cmdline-sp-builtin-override:' + name)
        return opts, args

    # ------------------------------------------------------------------ top project
    def build(self) -> None:
        r = self.r
        small = self.size == 'small'
        top_opts = [rand_opt(r, f'o{k}') for k in range(r.randint(3, 6))]
        top_opts.append(Opt('never', 'boolean', False))
        top_opts.append(Opt('dis', 'feature', 'disabled'))
        optfile = r.choice(['meson.options', 'meson_options.txt'])
        self.files[optfile] = '\n'.join(o.decl() for o in top_opts) + '\n'
        self.must_read += ['meson.build', optfile]
        self.features.add('optfile:' + optfile)
        with_sp = r.random() < 0.8
        sp_args: T.List[str] = []
        sp_opts: T.List[Opt] = []
        if with_sp:
            sp_opts, sp_args = self.gen_subproject([o for o in top_opts if o.name.startswith('o')])
            self.features.add('subproject')
        dflt: T.List[str] = []
        if r.random() < 0.6:
            dflt += r.sample(['warning_level=2', 'b_ndebug=if-release', 'c_std=gnu99', 'default_library=both', 'buildtype=debugoptimized'], r.randint(1, 2))
        if with_sp and r.random() < 0.4:
            dflt.append(r.choice(['sp:warning_level=1', 'sp:optimization=g', 'sp:default_library=shared']))
            self.features.add('opt:top-default_options-for-sp-builtin')
        if with_sp and sp_opts and r.random() < 0.3:
            o = r.choice([o for o in sp_opts if ',' not in cmdval(o.other_value(r))] or sp_opts)
            v = cmdval(o.other_value(r))
            if ',' not in v and "'" not in v:
                dflt.append(f'sp:{o.name}={v}')
                self.features.add('opt:top-default_options-for-sp-project-option')
        L = ["project('c15 top', 'c', version: '1.2', meson_version: '>=1.10.0'" +
             (f", default_options: {mlist([mstr(d) for d in dflt])}" if dflt else '') + ')']
        L += print_opts('top', top_opts, BUILTIN_PRINTED)
        self.printed['top'] = [o.name for o in top_opts] + list(BUILTIN_PRINTED)
        L += ["py = find_program('python3')", "gen_tool = files('tools/gen.py')", "cap_tool = files('tools/cap.py')",
              "conv_tool = meson.project_source_root() / 'tools/conv.py'", "pydump = files('tools/dump.py')"]
        for n, c in (('gen.py', GEN_PY), ('conv.py', CONV_PY), ('cap.py', CAP_PY), ('dump.py', DUMP_PY), ('dumper.c', DUMPER_C)):
            self.files['tools/' + n] = c
        if with_sp:
            spd = []
            if r.random() < 0.5:
                o = r.choice(sp_opts)
                v = cmdval(o.other_value(r))
                if ',' not in v and "'" not in v:
                    spd.append(f'{o.name}={v}')
                    self.features.add('opt:subproject()-default_options-project-option')
            if r.random() < 0.3:
                spd.append(r.choice(['debug=false', 'werror=false', 'warning_level=2']))
                self.features.add('opt:subproject()-default_options-builtin')
            L.append("sp = subproject('sp'" + (f", default_options: {mlist([mstr(d) for d in spd])}" if spd else '') + ')')
            L.append("sp_lib = sp.get_variable('sp_lib')")
            L.append("sp_inc = sp.get_variable('sp_inc')")
            if r.random() < 0.5:
                self.files['subprojects/sp.wrap'] = '[wrap-file]\ndirectory = sp\n'
                self.features.add('wrap-file-for-used-subproject')
        # a subproject that is never configured and one that is disabled
        self.files['subprojects/unused/meson.build'] = "project('unused', 'c')\n"
        self.never_read.append('subprojects/unused/meson.build')
        self.files['subprojects/dis/meson.build'] = "project('dis', 'c')\n"
        self.files['subprojects/dis/meson_options.txt'] = "option('d', type: 'string', value: 'x')\n"
        self.never_read += ['subprojects/dis/meson.build', 'subprojects/dis/meson_options.txt']
        L.append("subproject('dis', required: get_option('dis'))")
        # subdir never entered
        self.files['unvisited/meson.build'] = "error('never evaluated')\n"
        self.never_read.append('unvisited/meson.build')
        L += ["if get_option('never')", "  subdir('unvisited')", 'endif']
        # generator, configure files, source-generating custom target
        L.append("gen_c = generator(py, output: '@BASENAME@.c', arguments: [conv_tool, '@INPUT@', '@OUTPUT@'])")
        L.append("cfg_h = configure_file(output: 'c15cfg.h', configuration: {'C15_A': 1, 'C15_S': '\"s\"'})")
        self.files['cfsrc.c.in'] = 'int cfsrc_fn(void) { return 3; }\n'
        L.append("cfg_c = configure_file(input: 'cfsrc.c.in', output: 'cfsrc.c', copy: true)")
        nout = r.choice([3, 3, 4])
        outs = ['gsrc.c', 'gsrc.h'] + ['gsrc.txt', 'gsrc.dat'][:nout - 2]
        self.files['gsrc.in'] = 'in\n'
        kw = ["input: 'gsrc.in'", 'output: ' + mlist([mstr(o) for o in outs]),
              "command: [py, gen_tool, 'gsrc'] + " + mlist([f"'@OUTPUT{k}@'" for k in range(nout)])]
        if r.random() < 0.5:
            dirs = ['false', 'false'] + [r.choice(["'share/gsrc'", 'false', "get_option('datadir') / 'g'"]) for _ in range(nout - 2)]
            if any(d != 'false' for d in dirs):
                kw.append('install: true, install_dir: ' + mlist(dirs))
                if r.random() < 0.5:
                    kw.append('install_tag: ' + mlist(['false', 'false'] + [r.choice(["'gtag'", "'doc'", 'false']) for _ in range(nout - 2)]))
                self.features.add('custom:install-some-outputs')
        L.append(f"ct_src = custom_target('gsrc', {', '.join(kw)})")
        # ---- lib directory
        LL: T.List[str] = []
        libs: T.List[T.Tuple[str, str]] = []          # (var, kind)
        nlibs = r.randint(1, 2) if small else r.randint(2, 4)
        for i in range(nlibs):
            var = f'lib{i}'
            kind = r.choice(['static_library', 'shared_library', 'both_libraries', 'library'])
            srcs = []
            for k in range(r.randint(1, 2 if small else 3)):
                fn = f'l{i}_{k}.c'
                self.files['lib/' + fn] = f'int l{i}_{k}(void) {{ return {k}; }}\n'
                srcs.append(mstr(fn))
            kw = []
            if r.random() < 0.5:
                ca = r.sample(["'-DL_A=1'", "'-DL_S=\"a b\"'", "'-Iinc rel'", "'-I../include'", "'-DL_Q=\\'q\\''", "'-DL_D=$x'", "'-UL_U'", "'-DL_H=#h'"], r.randint(1, 3))
                kw.append('c_args: ' + mlist(ca))
                self.features.add('c_args')
            if libs and r.random() < 0.6:
                ds = r.sample([v for v, _ in libs], r.randint(1, min(2, len(libs))))
                kw.append('link_with: ' + mlist(ds))
                self.features.add('lib-link_with')
            if r.random() < 0.3:
                srcs.append('ct_src')
                self.features.add('lib-uses-custom-target-sources')
            if r.random() < 0.25:
                fn = f'lg{i}.in'
                self.files['lib/' + fn] = 'x\n'
                srcs.append(f'gen_c.process({mstr(fn)})')
                self.features.add('lib-uses-generator')
            if kind in ('shared_library', 'both_libraries', 'library') and r.random() < 0.4:
                kw.append(r.choice(["version: '1.2.3'", "soversion: '4'", "version: '2.0', soversion: '2'"]))
                self.features.add('shlib-version')
            if r.random() < 0.6:
                kw.append('install: true')
                x = r.random()
                if x < 0.25:
                    kw.append(r.choice(["install_dir: 'custom/lib'", "install_dir: get_option('libdir') / 'c15'"]))
                    self.features.add('target-install_dir')
                if r.random() < 0.3:
                    kw.append("install_tag: 'libtag'")
                    self.features.add('target-install_tag')
            if r.random() < 0.2:
                kw.append('build_by_default: false')
            if r.random() < 0.2:
                kw.append("extra_files: 'notes.txt'")
                self.files['lib/notes.txt'] = 'n\n'
            LL.append(f"{var} = {kind}({mstr('c15l' + str(i))}, {', '.join(srcs + kw)})")
            libs.append((var, kind))
            self.features.add('kind:' + kind)
        self.files['lib/meson.build'] = '\n'.join(LL) + '\n'
        self.must_read.append('lib/meson.build')
        L.append("subdir('lib')")
        # ---- app directory
        AL: T.List[str] = ["dumper = executable('dumper', '../tools/dumper.c')"]
        exes = ['dumper']
        nexe = 1 if small else r.randint(1, 3)
        for i in range(nexe):
            var = f'app{i}'
            self.files[f'app/main{i}.c'] = 'int main(void) { return 0; }\n'
            srcs = [mstr(f'main{i}.c')]
            if r.random() < 0.6:
                srcs.append(r.choice(['ct_src', 'ct_src[0], ct_src[1]']))
                self.features.add('exe-uses-custom-target-sources')
            if r.random() < 0.5:
                ins = []
                for k in range(r.randint(1, 2)):
                    fn = f'ag{i}_{k}.in'
                    self.files['app/' + fn] = 'x\n'
                    ins.append(mstr(fn))
                srcs.append(f"gen_c.process({', '.join(ins)})")
                self.features.add('exe-uses-generator')
            if i == 0 and r.random() < 0.6:
                srcs.append('cfg_c')
                self.features.add('exe-uses-configure_file-source')
            srcs.append('cfg_h')
            kw = []
            lw = r.sample([v for v, _ in libs], r.randint(0, min(3, len(libs))))
            if with_sp and r.random() < 0.6:
                lw.append('sp_lib')
                kw.append('include_directories: sp_inc')
            if lw:
                kw.append('link_with: ' + mlist(lw))
            if r.random() < 0.5:
                kw.append('install: true')
                if r.random() < 0.3:
                    kw.append("install_rpath: '/opt/c15/lib'")
                    self.features.add('install_rpath')
                if r.random() < 0.3:
                    kw.append(r.choice(["install_dir: 'libexec/c15'", "install_dir: get_option('bindir') / 'sub'", "install_tag: 'apptag'"]))
            if r.random() < 0.2:
                kw.append("c_args: ['-DAPP=1', '-I.']")
            AL.append(f"{var} = executable({mstr('c15app' + str(i))}, {', '.join(srcs + kw)})")
            exes.append(var)
        if r.random() < 0.5:
            AL.append("subdir('deep')")
            self.files['app/deep/d.c'] = 'int main(void) { return 0; }\n'
            self.files['app/deep/meson.build'] = "deep_exe = executable('deepexe', 'd.c', install: true, install_dir: 'deep/bin')\n"
            self.must_read.append('app/deep/meson.build')
            exes.append('deep_exe')
            self.features.add('depth2-subdir')
        r3 = random.Random(f'c15-bsd:{self.seed}')
        self.bsd = r3.random() < 0.65
        BA: T.List[str] = []        # build_subdir additions, emitted at the end (not under --layout=flat, see probe flat-build-subdir)
        BL: T.List[str] = []
        if self.bsd and r3.random() < 0.7:
            inst = r3.choice(['', ', install: true', ", install: true, install_dir: 'bsd/bin'"])
            BA.append(f"bsd_app = executable('c15bsdapp', 'bsd_app.c', build_subdir: {mstr(r3.choice(['out/bin', 'stage', 'o']))}{inst})")
            BA.append('#feature build_subdir:executable-in-subdir' + (':installed' if inst else ''))
        self.files['app/meson.build'] = '\n'.join(AL) + '\n'
        self.must_read.append('app/meson.build')
        L.append("subdir('app')")
        # ---- more custom targets, run/alias targets
        cts = ['ct_src']
        if r.random() < 0.7:
            kw = ["output: 'cap.txt'", "command: [py, cap_tool, '@INPUT@']", 'capture: true',
                  'input: ' + r.choice(["'gsrc.in'", 'ct_src[2]', "['gsrc.in', ct_src[1]]"])]
            if r.random() < 0.5:
                kw.append('install: true, install_dir: ' + r.choice(["'share/cap'", "get_option('datadir')"]))
                if r.random() < 0.5:
                    kw.append("install_tag: 'captag'")
            if r.random() < 0.4:
                kw.append(f'depends: {r.choice(exes)}')
            if r.random() < 0.3:
                kw.append('build_by_default: true')
            if r.random() < 0.3:
                kw.append("env: {'C15_CT': 'a b'}")
            L.append(f"ct_cap = custom_target('cap', {', '.join(kw)})")
            cts.append('ct_cap')
            self.features.add('custom:capture')
        if r.random() < 0.3:
            L.append(f"run_target('c15run', command: [py, cap_tool, 'x'], depends: {r.choice(exes)})")
            self.features.add('kind:run_target')
        if r.random() < 0.3:
            L.append(f"alias_target('c15alias', {r.choice(exes)}, {r.choice(cts)})")
            self.features.add('kind:alias_target')
        # ---- tests
        self.pre_lines = []
        for n in ('data/a.txt', 'data/b.txt', 'data/c.txt', 'data/d 4.txt'):
            self.data_file(n)
        args_pool = [("files('data/a.txt')", 'file'), ('ct_src', 'custom-target-multi'), ('ct_src[2]', 'custom-target-index'),
                     ('cfg_h', 'configure_file'), (r.choice(exes), 'executable')] + [(v, 'library:' + k) for v, k in libs[:2]]
        if 'ct_cap' in cts:
            args_pool.append(('ct_cap', 'custom-target'))
        dep_pool = [v for v, _ in libs] + cts + exes[1:]
        tests = []
        for _ in range(r.randint(2, 3) if small else r.randint(3, 6)):
            tests.append(self.gen_test('top', {'c': 'dumper'}, args_pool, dep_pool, bench=False, pydump='pydump'))
        for _ in range(r.randint(0, 2)):
            tests.append(self.gen_test('top', {'c': 'dumper'}, args_pool, dep_pool, bench=True, pydump='pydump'))
            self.features.add('benchmark')
        L += self.pre_lines + tests
        # ---- install rules
        for n in ('include/pub.h', 'include/pub2.h', 'include/nested/deep.h', 'include/private.h'):
            self.data_file(n)
        x = r.random()
        if x < 0.8:
            L.append("install_headers('include/pub.h'" + r.choice(['', ", subdir: 'c15'", ", install_dir: 'custom/inc'",
                                                                   ", install_dir: get_option('includedir') / 'x'"]) + ')')
            self.features.add('install_headers')
        if r.random() < 0.4:
            L.append("install_headers('include/pub2.h', 'include/nested/deep.h', preserve_path: true" + r.choice(['', ", subdir: 'pp'"]) + ')')
            self.features.add('install_headers:preserve_path')
        if r.random() < 0.5:
            for n in ('man/tool.1', 'man/conf.5'):
                self.data_file(n)
            L.append("install_man('man/tool.1', 'man/conf.5'" + r.choice(['', ", install_dir: 'custom/man'", ", locale: 'de'"]) + ')')
            self.features.add('install_man')
        if r.random() < 0.8:
            kw = []
            if r.random() < 0.5:
                kw.append("rename: " + r.choice(["['a-renamed.txt', 'sub/b-renamed.txt']", "['ren/a2.txt', 'b.txt']"]))
                self.features.add('install_data:rename')
            if r.random() < 0.6:
                kw.append('install_dir: ' + r.choice(["'share/c15'", "get_option('datadir') / 'c15d'", "get_option('sysconfdir')"]))
            if r.random() < 0.5:
                kw.append("install_tag: 'datatag'")
                self.features.add('install_data:tag')
            L.append("install_data('data/a.txt', 'data/b.txt'" + ''.join(', ' + k for k in kw) + ')')
            self.features.add('install_data')
        if r.random() < 0.4:
            L.append("install_data(cfg_h, " + r.choice(["install_dir: get_option('includedir')", "install_dir: 'share/cfg', install_tag: 'devel'"]) + ')')
            self.features.add('install_data:built-file')
        if r.random() < 0.3:
            L.append("install_data('data/c.txt')")
            self.features.add('install_data:default-dir')
        if r.random() < 0.6:
            for n in ('tree/f1.txt', 'tree/skip.txt', 'tree/sub/f2.txt', 'tree/skipdir/f3.txt'):
                self.data_file(n)
            kw = ['install_dir: ' + r.choice(["'share/tree'", "get_option('datadir') / 't'"])]
            if r.random() < 0.5:
                kw.append('strip_directory: true')
                self.features.add('install_subdir:strip_directory')
            if r.random() < 0.5:
                kw.append("exclude_files: ['skip.txt']")
                self.features.add('install_subdir:exclude_files')
            if r.random() < 0.4:
                kw.append("exclude_directories: ['skipdir']")
                self.features.add('install_subdir:exclude_directories')
            if r.random() < 0.4:
                kw.append("install_tag: 'treetag'")
            L.append(f"install_subdir('tree', {', '.join(kw)})")
            self.features.add('install_subdir')
        if r.random() < 0.3:
            L.append("install_symlink('c15link', pointing_to: 'a.txt', install_dir: 'share/c15')")
            self.features.add('install_symlink')
        if r.random() < 0.3:
            L.append("install_emptydir('var/c15empty'" + r.choice(['', ", install_tag: 'datatag'"]) + ')')
            self.features.add('install_emptydir')
        if self.bsd:
            # targets placed below the directory of their meson.build with build_subdir: (new in 1.10)
            inst = r3.choice(['', ', install: true', ", install: true, install_tag: 'bsdtag'"])
            BL.append(f"bsd_exe = executable('c15bsdexe', 'bsd_main.c', build_subdir: 'stage/bin'{inst})")
            BL.append('#feature build_subdir:executable' + (':installed' if inst else ''))
            kind = r3.choice(['static_library', 'shared_library', 'both_libraries'])
            inst = r3.choice(['', ', install: true'])
            BL.append(f"bsd_lib = {kind}('c15bsdlib', 'bsd_lib.c', build_subdir: 'stage/lib'{inst})")
            BL.append(f'#feature build_subdir:{kind}' + (':installed' if inst else ''))
            inst = r3.choice(['', ", install: true, install_dir: 'share/bsd'", ", install: true, install_dir: 'share/bsd', install_tag: 'bsdtag'"])
            BL.append("bsd_ct = custom_target('bsdct', output: ['bsd.txt', 'bsd2.txt'], command: [py, gen_tool, 'bsd', '@OUTPUT@'], "
                      f"build_subdir: 'stage/gen', build_by_default: true{inst})")
            BL.append('#feature build_subdir:custom_target' + (':installed' if inst else ''))
            BL.append("bsd_dumper = executable('bsddumper', 'tools/dumper.c', build_subdir: 'stage/t')")
            BL.append('#feature build_subdir:test-exe-and-args')
        self.files['meson.build'] = '\n'.join(L) + '\n'
        # ---- command line
        a: T.List[str] = []
        for o in top_opts:
            if o.name.startswith('o') and r.random() < 0.4:
                a.append(f'-D{o.name}={cmdval(o.other_value(r))}')
                self.features.add('opt:cmdline-top-project-option:' + o.typ)
        for name, vals in r.sample([('prefix', ['/opt/c15', '/usr', '/c15 pfx']), ('libdir', ['lib64', 'lib/x']), ('bindir', ['tools/bin']),
                                    ('datadir', ['share/dd']), ('includedir', ['inc']), ('mandir', ['share/mann']),
                                    ('sysconfdir', ['etc/c15', '/etc/abs']),
                                    ('default_library', ['static', 'shared', 'both']), ('buildtype', ['release', 'plain', 'debugoptimized']),
                                    ('warning_level', ['0', '3', 'everything']), ('c_args', ['-DCMD=1']), ('b_ndebug', ['true']),
                                    ('b_staticpic', ['false']), ('strip', ['true']), ('unity', ['on', 'subprojects'])],
                                   r.randint(0, 5)):
            v = r.choice(vals)
            if name == 'b_staticpic' and any(k != 'static_library' for _, k in libs):
                continue
            a.append(f'-D{name}={v}')
            self.features.add(f'opt:cmdline-builtin:{name}')
        a += sp_args
        if r.random() < 0.06:
            a.append('--layout=flat')
            self.features.add('layout:flat')
        self.setup_args = a
        self.wave4(with_sp)
        self.wave7(with_sp)
        if self.bsd and '--layout=flat' not in a:
            for lines, path in ((BA, 'app/meson.build'), (BL, 'meson.build')):
                for ln in lines:
                    if ln.startswith('#feature '):
                        self.features.add(ln[9:])
                    else:
                        self.files[path] += ln + '\n'
            self.files['app/bsd_app.c'] = 'int main(void) { return 0; }\n'
            self.files['bsd_main.c'] = 'int main(void) { return 0; }\n'
            self.files['bsd_lib.c'] = 'int bsd_lib_fn(void) { return 5; }\n'
            tid = self.uniq('T')
            self.files['meson.build'] += f"test({mstr('bsd' + tid)}, bsd_dumper, args: ['ID:{tid}', bsd_exe, bsd_ct, bsd_lib], depends: [bsd_ct])\n"
            self.dumper_tests[tid] = {'name': 'bsd' + tid, 'bench': False, 'exe': 'c', 'project': 'top'}
        # ---- later invocations on the same build directory (own RNG: the project itself does not depend on it)
        r2 = random.Random(f'c15-life:{self.seed}')
        cur = {x[2:].split('=', 1)[0]: x.split('=', 1)[1] for x in a if x.startswith('-D')}

        def change(prefix: str, o: Opt) -> T.Tuple[str, str, T.Any]:
            v = o.other_value(r2)
            for _ in range(6):
                if cmdval(v) != cur.get(prefix + o.name):
                    break
                v = o.other_value(r2)
            return f'-D{prefix}{o.name}={cmdval(v)}', prefix + o.name, v
        plain = [o for o in top_opts if o.name.startswith('o')]
        first = r2.choice(plain)
        arg, name, val = change('', first)
        self.reconfigure = {'arg': arg, 'name': name, 'value': val}
        cands: T.List[T.Tuple[str, str, T.Any]] = [change('', o) for o in plain if o is not first][:2]
        wl = r2.choice([w for w in ('0', '1', '2', '3') if w != cur.get('warning_level')])
        cands.append((f'-Dwarning_level={wl}', 'warning_level', wl))
        if with_sp:
            cands += [change('sp:', o) for o in sp_opts if not o.yielding][:1]
            swl = r2.choice([w for w in ('0', '1', '2', '3') if w != cur.get('sp:warning_level')])
            cands.append((f'-Dsp:warning_level={swl}', 'sp:warning_level', swl))
        arg, name, val = r2.choice(cands)
        self.configure = {'arg': arg, 'name': name, 'value': val}

    def wave4(self, with_sp: bool) -> None:
        """Two more input classes (own RNG: the rest of the project does not depend on them):
        * preserve_path: true with sources in sub directories x {literal, option-derived, default} install_dir, for
          install_data() and install_headers();
        * tests / benchmarks that share name AND suites (a foreach that only varies args:/env:) - test names are not
          unique in meson; a same-named test in another suite and in the subproject as controls."""
        r4 = random.Random(f'c15-w4:{self.seed}')
        L: T.List[str] = []
        if r4.random() < 0.8:
            for n in ('pp/a/one.txt', 'pp/b/deep/two.txt', 'pp/top.txt', 'pq/x/three.txt', 'pq/four.txt'):
                self.data_file(n)
            kinds = ['literal', 'option', 'default']
            r4.shuffle(kinds)
            groups = [("'pp/a/one.txt', 'pp/b/deep/two.txt', 'pp/top.txt'", kinds[0])]
            if r4.random() < 0.6:
                groups.append(("'pq/x/three.txt', 'pq/four.txt'", kinds[1]))
            for srcs, kind in groups:
                kw = ['preserve_path: true']
                if kind == 'literal':
                    kw.append('install_dir: ' + r4.choice(["'share/ppdemo'", "'ppabs data'", "'/opt/ppabs'"]))
                elif kind == 'option':
                    kw.append('install_dir: ' + r4.choice(["get_option('datadir') / 'ppopt'", "get_option('sysconfdir')", "get_option('localstatedir') / 'pp'"]))
                if r4.random() < 0.4:
                    kw.append("install_tag: 'pptag'")
                L.append(f"install_data({srcs}, {', '.join(kw)})")
                self.features.add('install_data:preserve_path:' + kind)
            if r4.random() < 0.6:
                for n in ('hp/x/h1.h', 'hp/h2.h'):
                    self.data_file(n)
                kind = r4.choice(['literal', 'option', 'subdir'])
                kw = {'literal': "install_dir: 'custom/hp'", 'option': "install_dir: get_option('includedir') / 'hpopt'", 'subdir': "subdir: 'hpsub'"}[kind]
                L.append(f"install_headers('hp/x/h1.h', 'hp/h2.h', preserve_path: true, {kw})")
                self.features.add('install_headers:preserve_path:' + kind)

        def dup(var: str, exe: str, bench: bool, proj: str, name: str, suite: T.Optional[str]) -> T.List[str]:
            n = r4.randint(2, 3)
            rows = []
            for word in r4.sample(['alpha', 'beta', 'gamma', 'two words'], n):
                tid = self.uniq('T')
                self.dumper_tests[tid] = {'name': name, 'bench': bench, 'exe': 'c', 'project': proj}
                rows.append(f"[{mstr(tid)}, {mstr(word)}]")
            kw = [f"args: ['ID:' + {var}[0], {var}[1]]", f"env: {{'C15V_DUP': {var}[1]}}"]
            if suite:
                kw.append(f'suite: {mstr(suite)}')
            func = 'benchmark' if bench else 'test'
            return [f"foreach {var} : {mlist(rows)}", f"  {func}({mstr(name)}, {exe}, {', '.join(kw)})", 'endforeach']
        if r4.random() < 0.75:
            suite = r4.choice([None, 'dups', 's1'])
            L += dup('c15dv', 'dumper', False, 'top', 'c15dup', suite)
            self.features.add('test:same-name-same-suite')
            if r4.random() < 0.5:
                L += dup('c15dw', 'dumper', False, 'top', 'c15dup', 'othersuite' if suite != 'othersuite' else 'x')
                self.features.add('test:same-name-other-suite')
            if r4.random() < 0.5:
                L += dup('c15db', 'dumper', True, 'top', 'c15dupbench', r4.choice([None, 'dups']))
                self.features.add('benchmark:same-name-same-suite')
            if with_sp and r4.random() < 0.5:
                self.files['subprojects/sp/meson.build'] += '\n'.join(dup('c15ds', 'sp_dumper', False, 'sp', 'c15dup', suite)) + '\n'
                self.features.add('test:same-name-in-subproject')
        # wave 5: installed targets that `all` does not build (install entries meson marks optional)
        r5 = random.Random(f'c15-w5:{self.seed}')
        if r5.random() < 0.7:
            nout = r5.choice([1, 2])
            outs = ['ondemand.txt', 'ondemand2.dat'][:nout]
            kw = ['output: ' + mlist([mstr(x) for x in outs]), "command: [py, gen_tool, 'ond', '@OUTPUT@']", 'build_by_default: false',
                  'install: true', 'install_dir: ' + r5.choice(["'share/ondemand'", "get_option('datadir') / 'od'"])]
            if r5.random() < 0.4:
                kw.append("install_tag: 'odtag'")
            L.append(f"ct_ondemand = custom_target('ondemand', {', '.join(kw)})")
            self.features.add('custom:installed-but-not-built-by-default')
        # wave 6: compiler.preprocess() targets (type `compile`) over plain AND generated sources
        r6 = random.Random(f'c15-w6:{self.seed}')
        if r6.random() < 0.6:
            self.files['pp_plain.c'] = 'int pp_plain(void) { return 1; }\n'
            srcs = ["'pp_plain.c'"] + r6.sample(['ct_src[0]', "gen_c.process('pp_g.in')", 'cfg_c'], r6.randint(1, 2))
            if any('pp_g.in' in x for x in srcs):
                self.files['pp_g.in'] = 'x\n'
            L.append("c15cc = meson.get_compiler('c')")
            L.append(f"c15pp = c15cc.preprocess({', '.join(srcs)}, output: {mstr(r6.choice(['@PLAINNAME@.i', 'pre-@BASENAME@.c']))})")
            self.features.add('preprocess-target:generated-sources')
        if L:
            self.files['meson.build'] += '\n'.join(L) + '\n'

    def wave7(self, with_sp: bool) -> None:
        """Two more input classes (own RNGs: the rest of the project does not depend on them):
        * install directories COMPOSED from option strings (COMPOSED_DIRS: `/` chains and join_paths() over get_option()
          values and literals) x the install functions (COMPOSED_USES), under a directory-option profile (DIR_PROFILES) that
          makes right-hand components absolute or relative;
        * test setups: add_test_setup(env:) in the top project and in the subproject (same name, different values), a second
          setup, optionally one of them `is_default: true`.  desc['test_setups'] tells the driver which variables a test of
          which project must see under which setup."""
        r7 = random.Random(f'c15-w7:{self.seed}')
        L: T.List[str] = []
        if r7.random() < 0.85:
            label, prof = r7.choice(DIR_PROFILES[1:] + DIR_PROFILES[1:3] + DIR_PROFILES[:1])
            given = {x[2:].split('=', 1)[0] for x in self.setup_args if x.startswith('-D')}
            for name, val in prof.items():
                if name not in given:
                    self.setup_args.append(f'-D{name}={val}')
            self.features.add('dir-profile:' + label)
            eff = {x[2:].split('=', 1)[0]: x.split('=', 1)[1] for x in self.setup_args if x.startswith('-D')}
            for name in ('sysconfdir', 'localstatedir', 'sharedstatedir'):
                v = eff.get(name)
                self.features.add(f'dir-option:{name}:' + ('abs' if v is not None and v.startswith('/') else 'abs-by-prefix'
                                                          if v is None and eff.get('prefix') == '/usr' else 'rel'))
            uses = r7.sample(list(COMPOSED_USES), r7.randint(3, 6))
            for k, kind in enumerate(uses):
                expr, cell = r7.choice(COMPOSED_DIRS)
                files, lines = composed_use(kind, expr, 'w7', k, r7.choice([None, None, 'w7tag']))
                self.files.update(files)
                L += lines
                self.features.add(f'composed-install-dir:{kind.split(":")[0]}:{cell}')
            if r7.random() < 0.5:
                expr, cell = r7.choice(COMPOSED_DIRS)
                self.files['w7/w7main.c'] = 'int main(void) { return 0; }\n'
                L.append(f"executable('c15w7exe', 'w7/w7main.c', install: true, install_dir: {expr})")
                self.features.add('composed-install-dir:executable:' + cell)
            if with_sp and r7.random() < 0.5:
                expr, cell = r7.choice(COMPOSED_DIRS)
                files, lines = composed_use('install_data', expr, 'w7sp', 0, None)
                for pth, txt in files.items():
                    self.files['subprojects/sp/' + pth] = txt
                self.files['subprojects/sp/meson.build'] += '\n'.join(lines) + '\n'
                self.features.add('composed-install-dir:subproject:' + cell)
        r8 = random.Random(f'c15-w7s:{self.seed}')
        self.test_setups: T.Optional[dict] = None
        if r8.random() < 0.75:
            projs = ['top'] + (['sp'] if with_sp else [])
            names = ['c15s', 'c15other']
            default: T.Optional[T.List[str]] = None
            if r8.random() < 0.4:
                default = [r8.choice(projs), r8.choice(names)]
            env: T.Dict[str, T.Dict[str, T.Dict[str, str]]] = {}
            for proj in projs:
                lines: T.List[str] = []
                for n in names:
                    ev = {'C15S_WHO': f'{proj} {n}', 'C15S_' + n.upper(): r8.choice(['v', 'two words', 'a=b', 'x;y', ''])}
                    if r8.random() < 0.5:
                        ev['C15S_X' + str(r8.randint(0, 3))] = r8.choice(STR_VALUES)
                    env.setdefault(n, {})[proj] = ev
                    form = r8.choice(['dict', 'list', 'object'])
                    kw: T.List[str] = []
                    if form == 'dict':
                        kw.append('env: {' + ', '.join(f'{mstr(k)}: {mstr(v)}' for k, v in ev.items()) + '}')
                    elif form == 'list':
                        kw.append('env: ' + mlist([mstr(k + '=' + v) for k, v in ev.items()]))
                    else:
                        var = f'c15se_{n}'
                        lines.append(f'{var} = environment()')
                        lines += [f'{var}.set({mstr(k)}, {mstr(v)})' for k, v in ev.items()]
                        kw.append(f'env: {var}')
                    self.features.add('test-setup:env-' + form)
                    if default == [proj, n]:
                        kw.append('is_default: true')
                        self.features.add('test-setup:is_default:' + proj)
                    if r8.random() < 0.3:
                        kw.append(f'timeout_multiplier: {r8.choice([2, 3])}')
                    lines.append(f"add_test_setup({mstr(n)}, {', '.join(kw)})")
                if proj == 'top':
                    L += lines
                else:
                    self.files['subprojects/sp/meson.build'] += '\n'.join(lines) + '\n'
            self.test_setups = {'names': names, 'default': default, 'env': env, 'meson_project': {'top': 'c15 top', 'sp': 'sp'}}
            self.features.add('test-setup')
        if L:
            self.files['meson.build'] += '\n'.join(L) + '\n'

    def desc(self) -> dict:
        return {'seed': str(self.seed), 'setup_args': self.setup_args, 'printed': self.printed,
                'never_read': sorted(self.never_read), 'must_read': sorted(set(self.must_read)),
                'dumper_tests': self.dumper_tests, 'features': sorted(self.features),
                'reconfigure': self.reconfigure, 'configure': self.configure,
                'test_setups': self.test_setups}


def generate(seed: T.Union[int, str], size: str = 'normal') -> T.Tuple[T.Dict[str, str], dict]:
    g = Gen(seed, size)
    g.build()
    return g.files, g.desc()
