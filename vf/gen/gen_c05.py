"""C05 workload: seeded generator of small C projects whose build graphs mix every ordering mechanism
of the ninja backend (DESIGN.md C05 "W").  Imports nothing from mesonbuild.

A project is a composition of *blocks*.  Every block is a parametrised shape that exercises one
mechanism (generated header shared by several targets, generator(), custom-target chain, built code
generator, library zoo, subproject exporting a generated header, link_depends on generated / indexed /
source-tree linker scripts and on library targets named only in link_args, precompiled headers including
generated files of every producer kind and suffix, exe run at build time, generated source including a generated header, generator output fed to a
custom target / to another generator, custom-target objects/archives, compiler.preprocess()).  Blocks
export `declare_dependency()` variables; later blocks and the final executables consume a random subset,
so mechanisms get mixed across target boundaries.

Validity rule (docs/markdown/Generating-sources.md, FAQ.md "How do I tell Meson that my sources use
generated headers?"): a target #includes a generated header only if that header is in its `sources:`
directly or through a `declare_dependency(sources:)` it uses.  One deliberate extension, flagged as
feature `rely-link-recursion`: a target includes a generator() header of a library it links, which the
backend orders through NinjaBackend.get_generated_headers()'s recursion (DESIGN.md C05 "M").

Every generated value is an integer known to the generator, tools only add values up, so the stdout of
every executable is known in advance (`exes[i]['stdout']`): an oracle independent of any build.
"""
from __future__ import annotations

import random
import shutil
import typing as T

HAS_CPP = shutil.which('c++') is not None

GEN_PY = r'''#!/usr/bin/env python3
"""gen.py MODE NAME OUT... IN...   tiny deterministic code generator (values are summed over all inputs)."""
import os, re, sys

def vals(path):
    data = open(path, 'rb').read()
    if b'\0' in data or data[:4] == b'\x7fELF' or data[:7] in (b'!<arch>', b'!<thin>'):
        return 1
    tot = 0
    for line in data.decode('utf-8', 'replace').splitlines():
        m = (re.match(r'^(\w+) (-?\d+)$', line) or re.match(r'^#define V_\w+ \((-?\d+)\)$', line)
             or re.match(r'^int f_\w+\(void\) \{ return (-?\d+); \}$', line))
        if m:
            tot += int(m.group(m.lastindex))
    return tot

def put(path, text):
    if path == '-':
        sys.stdout.write(text)
    else:
        with open(path, 'w') as f:
            f.write(text)

def main(a):
    mode, name = a[0], a[1]
    rest = a[2:]
    if mode == 'hdr':
        out, ins = rest[0], rest[1:]
        v = sum(vals(i) for i in ins)
        put(out, '#ifndef H_%s\n#define H_%s\n#define V_%s (%d)\n#endif\n' % (name, name, name, v))
    elif mode == 'src':
        out, ins = rest[0], rest[1:]
        v = sum(vals(i) for i in ins)
        put(out, 'int f_%s(void) { return %d; }\n' % (name, v))
    elif mode == 'srcinc':
        out, hdr, macro, ins = rest[0], rest[1], rest[2], rest[3:]
        v = sum(vals(i) for i in ins)
        put(out, '#include "%s"\nint f_%s(void) { return %d + %s; }\n' % (hdr, name, v, macro))
    elif mode == 'both':
        outh, outc, ins = rest[0], rest[1], rest[2:]
        v = sum(vals(i) for i in ins)
        put(outh, '#ifndef H_%s\n#define H_%s\n#define V_%s (%d)\nint f_%s(void);\n#endif\n' % (name, name, name, v, name))
        put(outc, '#include "%s"\nint f_%s(void) { return V_%s; }\n' % (os.path.basename(outh), name, name))
    elif mode == 'txt':
        out, ins = rest[0], rest[1:]
        v = sum(vals(i) for i in ins)
        put(out, '%s %d\n' % (name, v))
    elif mode == 'map':
        out, ins = rest[0], rest[1:]
        v = sum(vals(i) for i in ins)
        put(out, '# %s %d\n{ global: f_*; local: *; };\n' % (name, v))
    elif mode == 'tmpl':
        # C source template for compiler.preprocess(): includes a header and uses its macro
        out, hdr, macro, ins = rest[0], rest[1], rest[2], rest[3:]
        v = sum(vals(i) for i in ins)
        put(out, '#include "%s"\nint f_%s(void) { return %d + %s; }\n' % (hdr, name, v, macro))
    else:
        sys.exit('unknown mode ' + mode)

if __name__ == '__main__':
    main(sys.argv[1:])
'''

# A code generator written in C: `tool NAME OUT IN...` == gen.py hdr (text inputs `NAME VALUE` only), plus a bias
CTOOL_C = r'''#include <stdio.h>
#include <stdlib.h>
#include <string.h>
%(bias_decl)s
int main(int argc, char **argv) {
    long tot = %(bias_expr)s;
    if (argc < 4) { fprintf(stderr, "usage: tool NAME OUT IN...\n"); return 2; }
    for (int i = 3; i < argc; i++) {
        FILE *f = fopen(argv[i], "r");
        char name[256]; long v;
        if (!f) { perror(argv[i]); return 1; }
        while (fscanf(f, "%%255s %%ld", name, &v) == 2) tot += v;
        fclose(f);
    }
    FILE *o = fopen(argv[2], "w");
    if (!o) { perror(argv[2]); return 1; }
    fprintf(o, "#ifndef H_%%s\n#define H_%%s\n#define V_%%s (%%ld)\n#endif\n", argv[1], argv[1], argv[1], tot);
    fclose(o);
    return 0;
}
'''


# wrapper script: `run.py PROGRAM ARGS...` - the program reaches the command line as a path string only
RUN_PY = r'''#!/usr/bin/env python3
import os, sys
try:
    os.execv(sys.argv[1], sys.argv[1:])
except OSError as e:
    sys.exit('run.py: %s: %s' % (sys.argv[1], e.strerror))
'''


class Export:
    """What a block offers to later consumers: a declare_dependency variable, the functions reachable by
    linking it, the (header, macro) pairs usable by a target that lists it in dependencies:."""

    def __init__(self, var: str, fns: T.Sequence[str] = (), macros: T.Sequence[T.Tuple[str, str]] = (),
                 shared: bool = False) -> None:
        self.var = var
        self.fns = list(fns)
        self.macros = list(macros)
        self.shared = shared   # links a shared library somewhere (irrelevant to C, informative)


class Proj:
    def __init__(self, rng: random.Random, top: bool = True) -> None:
        self.rng = rng
        self.files: T.Dict[str, str] = {}
        self.lines: T.Dict[str, T.List[str]] = {'': []}   # dir -> meson.build body lines
        self.features: T.Set[str] = set()
        self.val: T.Dict[str, int] = {}     # 'V_x' / 'f_x' / text item 'x' -> integer value
        self.exports: T.List[Export] = []
        self.exes: T.List[dict] = []
        self.ntargets = 0
        self.soft_used = False
        self.setup_args: T.List[str] = []
        self.subprojects: T.List[str] = []
        self.force: T.Dict[str, T.Any] = {}
        self.has_cpp = HAS_CPP
        self.cur = ''              # prefix of the block being generated (b0, b1, ...)
        # second stream for choices added in later waves: the projects of earlier waves keep their shape
        self.rng2: random.Random = rng

    def pick(self, name: str, choices: T.Sequence[T.Any], aux: bool = False) -> T.Any:
        """Seeded choice that a directed project can pin (the rng is consumed either way)."""
        v = (self.rng2 if aux else self.rng).choice(list(choices))
        base = name.rsplit('.', 1)[0] if name.rsplit('.', 1)[-1].isdigit() else name   # 'libs.kind.2' falls back to 'libs.kind'
        # 'b1:pch.lang' pins the choice for the block with prefix b1 only (two blocks of one kind in a project)
        for key in (f'{self.cur}:{name}', f'{self.cur}:{base}', name, base):
            if key in self.force and self.force[key] in choices:
                return self.force[key]
        return v

    def inc_suffix(self, name: str) -> str:
        """Suffix of a generated include file: a header suffix, or one of the X-macro / table idioms that are
        #included but are neither header nor source by suffix (.inc, .tbl)."""
        sfx = self.pick(name, ['h', 'h', 'inc', 'tbl'])
        if sfx != 'h':
            self.feat('include-file-suffix:' + sfx)
        return sfx

    def flip(self, name: str, prob: float, aux: bool = False) -> bool:
        v = (self.rng2 if aux else self.rng).random() < prob
        return bool(self.force.get(f'{self.cur}:{name}', self.force.get(name, v)))

    # ---- helpers -----------------------------------------------------------------
    def feat(self, *names: str) -> None:
        self.features.update(names)

    def emit(self, d: str, text: str) -> None:
        if d not in self.lines:
            self.lines[d] = []
            self.lines[''].append(f"subdir('{d}')")
        self.lines[d].extend(text.rstrip('\n').split('\n'))

    def path(self, d: str, name: str) -> str:
        return f'{d}/{name}' if d else name

    def deffile(self, d: str, name: str) -> int:
        v = self.rng.randint(1, 97)
        self.files[self.path(d, name + '.def')] = f'{name} {v}\n'
        self.val[name] = v
        return v

    def csrc(self, d: str, fname: str, fn: str, macros: T.Sequence[T.Tuple[str, str]] = (),
             calls: T.Sequence[str] = (), allow_soft: bool = True) -> int:
        """Write a C file defining `int f_<fn>(void)`; returns its value.  macros = (header, macro)."""
        k = self.rng.randint(1, 9)
        out = []
        total = k
        for hdr, macro in macros:
            if self.flip('soft', 0.08) and allow_soft and not self.soft_used:
                # soft include: a missing header silently changes the artifact instead of failing the compile
                self.soft_used = True
                self.feat('soft-include')
                out.append(f'#if __has_include("{hdr}")\n#include "{hdr}"\n#else\n#define {macro} (-100000)\n#endif')
            else:
                out.append(f'#include "{hdr}"')
            total += self.val[macro]
        for c in calls:
            out.append(f'int {c}(void);')
            total += self.val[c]
        expr = ' + '.join([str(k)] + [m for _, m in macros] + [f'{c}()' for c in calls])
        out.append(f'int f_{fn}(void) {{ return {expr}; }}')
        self.files[self.path(d, fname)] = '\n'.join(out) + '\n'
        self.val['f_' + fn] = total
        return total

    def take(self, kmax: int = 1, p: float = 0.6) -> T.List[Export]:
        """Pick up to kmax earlier exports to consume."""
        if not self.exports or self.rng.random() > p:
            return []
        k = self.rng.randint(1, min(kmax, len(self.exports)))
        return self.rng.sample(self.exports, k)

    @staticmethod
    def use_of(exps: T.Sequence[Export], rng: random.Random) -> T.Tuple[T.List[T.Tuple[str, str]], T.List[str]]:
        macros: T.List[T.Tuple[str, str]] = []
        calls: T.List[str] = []
        for e in exps:
            if e.macros and (not e.fns or rng.random() < 0.8):
                macros.append(rng.choice(e.macros))
            if e.fns and (not e.macros or rng.random() < 0.8):
                calls.append(rng.choice(e.fns))
        return macros, calls

    @staticmethod
    def deps_kw(exps: T.Sequence[Export]) -> str:
        return ', dependencies: [' + ', '.join(e.var for e in exps) + ']' if exps else ''


def _libfn(rng: random.Random, shared_ok: bool = True) -> str:
    return rng.choice(['static_library', 'static_library', 'shared_library', 'library'] if shared_ok
                      else ['static_library'])


def _private_dir(kind: str, name: str, default_library: str) -> str:
    if kind == 'library':
        kind = 'shared_library' if default_library in ('shared', 'both') else 'static_library'
    return f'lib{name}.so.p' if kind == 'shared_library' else f'lib{name}.a.p'


# ------------------------------------------------------------------------ blocks
def blk_ct_header(P: Proj, p: str, d: str) -> None:
    """One custom_target header consumed by several targets; capture / depend_files / two-output index variants."""
    rng = P.rng
    v = P.deffile(d, p)
    variant = P.pick('ct_header.variant', ['plain', 'capture', 'capture-pair', 'depend_files', 'index'])
    P.feat('ct-header', 'ct-header:' + variant)
    used = P.take(1)
    fns: T.List[str] = []
    hsfx = P.inc_suffix('ct_header.suffix') if variant in ('plain', 'capture') else 'h'
    if variant == 'plain':
        P.emit(d, f"{p}_h = custom_target('{p}_h', input: '{p}.def', output: '{p}.{hsfx}',\n"
                  f"  command: [py, gen, 'hdr', '{p}', '@OUTPUT@', '@INPUT@'])")
        hdr_src, lib_extra = f'{p}_h', f'{p}_h'
    elif variant == 'capture':
        P.emit(d, f"{p}_h = custom_target('{p}_h', input: '{p}.def', output: '{p}.{hsfx}', capture: true,\n"
                  f"  command: [py, gen, 'hdr', '{p}', '-', '@INPUT@'])")
        hdr_src, lib_extra = f'{p}_h', f'{p}_h'
    elif variant == 'capture-pair':
        # two captured outputs with the same stem in one directory (<p>.h / <p>.c), no edge between the two steps
        P.emit(d, f"{p}_h = custom_target('{p}_h', input: '{p}.def', output: '{p}.h', capture: true,\n"
                  f"  command: [py, gen, 'hdr', '{p}', '-', '@INPUT@'])")
        P.val['f_' + p] = P.deffile(d, p + 'cs')
        P.emit(d, f"{p}_cs = custom_target('{p}_cs', input: '{p}cs.def', output: '{p}.c', capture: true,\n"
                  f"  command: [py, gen, 'src', '{p}', '-', '@INPUT@'])")
        hdr_src, lib_extra = f'{p}_h', f'{p}_h, {p}_cs'
        fns.append('f_' + p)
        P.feat('capture-same-stem-pair')
        P.ntargets += 1
    elif variant == 'depend_files':
        v += P.deffile(d, p + 'x')
        P.emit(d, f"{p}_h = custom_target('{p}_h', input: '{p}.def', output: '{p}.h',\n"
                  f"  command: [py, gen, 'hdr', '{p}', '@OUTPUT@', '@INPUT@', meson.current_source_dir() / '{p}x.def'],\n"
                  f"  depend_files: files('{p}x.def'))")
        hdr_src, lib_extra = f'{p}_h', f'{p}_h'
        P.feat('depend_files')
    else:
        P.emit(d, f"{p}_hc = custom_target('{p}_hc', input: '{p}.def', output: ['{p}.h', '{p}.c'],\n"
                  f"  command: [py, gen, 'both', '{p}', '@OUTPUT0@', '@OUTPUT1@', '@INPUT@'])")
        hdr_src, lib_extra = f'{p}_hc[0]', f'{p}_hc'
        P.val['f_' + p] = v
        fns.append('f_' + p)
        P.feat('ct-multi-output', 'ct-index')
    P.val['V_' + p] = v
    hm = (f'{p}.{hsfx}', 'V_' + p)
    um, uc = P.use_of(used, rng)
    P.csrc(d, f'{p}_a.c', p + '_a', [hm] + um, uc)
    P.csrc(d, f'{p}_b.c', p + '_b', [hm] if rng.random() < 0.5 else [], [])
    fns += [f'f_{p}_a', f'f_{p}_b']
    kind = _libfn(rng)
    P.emit(d, f"{p}_lib = {kind}('{p}l', '{p}_a.c', '{p}_b.c', {lib_extra}{P.deps_kw(used)})")
    P.ntargets += 2
    libs = [f'{p}_lib']
    if P.flip('ct_header.second', 0.5):
        # a second target using the same header
        P.csrc(d, f'{p}_s.c', p + '_s', [hm], [f'f_{p}_a'])
        k2 = rng.choice(['shared_library', 'static_library'])
        P.emit(d, f"{p}_lib2 = {k2}('{p}s', '{p}_s.c', {hdr_src}, link_with: {p}_lib)")
        fns.append(f'f_{p}_s')
        libs.append(f'{p}_lib2')
        P.ntargets += 1
        P.feat('header-shared-by-targets')
    P.emit(d, f"{p}_dep = declare_dependency(link_with: [{', '.join(libs)}], sources: {hdr_src})")
    P.feat('declare_dependency-sources')
    P.exports.append(Export(f'{p}_dep', fns, [hm]))


def blk_generator(P: Proj, p: str, d: str, default_library: str) -> None:
    """generator() headers and sources in a library; optionally a consumer relies on link recursion."""
    rng = P.rng
    P.feat('generator')
    two = P.flip('generator.two', 0.35)
    names_h = [p + 'x', p + 'y'][:rng.randint(1, 2)]
    # process(preserve_path_from:): inputs live in sub-directories of a tree whose layout is kept below the
    # consumer's private directory (the outputs are then <sub>/<name>.h for producer AND consumers)
    preserve = P.flip('generator.preserve', 0.3)
    sub: T.Dict[str, str] = {}
    for k, n in enumerate(names_h):
        sub[n] = f's{k}/' if preserve else ''
        P.val['V_' + n] = P.deffile(P.path(d, f'{p}in/s{k}') if preserve else d, n)
    in_of = {n: (f'{p}in/{sub[n]}{n}.def' if preserve else f'{n}.def') for n in names_h}
    pkw = f", preserve_path_from: meson.current_source_dir() / '{p}in'" if preserve else ''
    if preserve:
        P.feat('generator-preserve_path_from')
    gdep = P.pick('generator.depends', ['none', 'none', 'generator', 'process'])
    if gdep == 'none':
        P.emit(d, f"{p}_g = generator(py, arguments: [gen_path, 'hdr', '@BASENAME@', '@OUTPUT@', '@INPUT@'], output: '@BASENAME@.h')")
        srcs = [f"{p}_g.process({', '.join(repr(in_of[n]) for n in names_h)}{pkw})"]
    else:
        # the generator's tool also reads a file made by a custom target: generator(depends:) / process(depends:)
        aux = P.deffile(d, p + 'aux')
        for n in names_h:
            P.val['V_' + n] += aux
        P.emit(d, f"{p}_aux = custom_target('{p}_aux', input: '{p}aux.def', output: '{p}_aux.txt',\n"
                  f"  command: [py, gen, 'txt', '{p}_aux', '@OUTPUT@', '@INPUT@'])")
        P.ntargets += 1
        P.feat('generator-depends:' + gdep)
        ins = ', '.join(repr(in_of[n]) for n in names_h) + pkw
        if gdep == 'generator':
            P.emit(d, f"{p}_g = generator(py, arguments: [gen_path, 'hdr', '@BASENAME@', '@OUTPUT@', '@INPUT@', {p}_aux.full_path()],\n"
                      f"  output: '@BASENAME@.h', depends: {p}_aux)")
            srcs = [f"{p}_g.process({ins})"]
        else:
            P.emit(d, f"{p}_g = generator(py, arguments: [gen_path, 'hdr', '@BASENAME@', '@OUTPUT@', '@INPUT@', '@EXTRA_ARGS@'],\n"
                      f"  output: '@BASENAME@.h')")
            srcs = [f"{p}_g.process({ins}, extra_args: [{p}_aux.full_path()], depends: {p}_aux)"]
    fns: T.List[str] = []
    if two:
        n = p + 'w'
        v = P.deffile(d, n)
        P.val['V_' + n] = v
        P.val['f_' + n] = v
        # the include file may carry a suffix that is neither a header nor a source suffix (.inc/.tbl/.def idiom):
        # the backend then has to treat "anything that is not a source" of the target as an order dependency
        sfx = P.pick('generator.two_suffix', ['h', 'inc', 'inc', 'tbl'])
        P.emit(d, f"{p}_g2 = generator(py, arguments: [gen_path, 'both', '@BASENAME@', '@OUTPUT0@', '@OUTPUT1@', '@INPUT@'],\n"
                  f"  output: ['@BASENAME@.{sfx}', '@BASENAME@.c'])")
        srcs.append(f"{p}_g2.process('{n}.def')")
        fns.append('f_' + n)
        two_hm = (f'{n}.{sfx}', 'V_' + n)
        P.feat('generator-multi-output', 'generator-include-suffix:' + sfx)
    if P.flip('generator.source', 0.6):
        n = p + 'z'
        P.val['f_' + n] = P.deffile(d, n)
        P.emit(d, f"{p}_gs = generator(py, arguments: [gen_path, 'src', '@BASENAME@', '@OUTPUT@', '@INPUT@'], output: '@BASENAME@.c')")
        srcs.append(f"{p}_gs.process('{n}.def')")
        fns.append('f_' + n)
        P.feat('generator-source')
    used = P.take(1)
    um, uc = P.use_of(used, rng)
    hms = [(sub[n] + n + '.h', 'V_' + n) for n in names_h]
    P.csrc(d, f'{p}_a.c', p + '_a', hms + ([two_hm] if two else []) + um, uc)
    fns.append(f'f_{p}_a')
    kind = P.pick('generator.libkind', ['static_library', 'static_library', 'shared_library', 'library'])
    name = p + 'l'
    P.emit(d, f"{p}_lib = {kind}('{name}', '{p}_a.c', {', '.join(srcs)}{P.deps_kw(used)})")
    P.ntargets += 1
    macros: T.List[T.Tuple[str, str]] = []
    inc = ''
    if P.flip('generator.rely', 0.45):
        # consumer includes the library's generator() header from its private dir: ordered only by the
        # recursion over link_targets in get_generated_headers (flagged; see module docstring)
        pd = _private_dir(kind, name, default_library)
        pdir = f'{d}/{pd}' if d else pd
        macros = [(f'{pdir}/{sub[n]}{n}.h', 'V_' + n) for n in names_h]
        inc = ', include_directories: root_inc'
        P.feat('rely-link-recursion')
    src_kw = ''
    if not macros and P.flip('generator.dep_sources', 0.3):
        # the processed list itself travels in declare_dependency(sources:): every consumer gets its own rules
        n = p + 'v'
        P.val['V_' + n] = P.deffile(d, n)
        P.emit(d, f"{p}_gd = generator(py, arguments: [gen_path, 'hdr', '@BASENAME@', '@OUTPUT@', '@INPUT@'], output: '@BASENAME@.h')")
        src_kw = f", sources: {p}_gd.process('{n}.def')"
        macros = [(n + '.h', 'V_' + n)]
        P.feat('generator-in-dep-sources')
    P.emit(d, f"{p}_dep = declare_dependency(link_with: {p}_lib{inc}{src_kw})")
    P.exports.append(Export(f'{p}_dep', fns, macros))


def blk_ct_chain(P: Proj, p: str, d: str) -> None:
    """custom-target chain: each step consumes the previous via @INPUT@ / depends: / target-in-command / index."""
    rng = P.rng
    n = rng.randint(2, 4)
    csfx = P.inc_suffix('ct_chain.suffix')
    P.feat('ct-chain', f'ct-chain:len{n}')
    acc = 0
    prev = None
    prev_multi = False
    for i in range(n):
        nm = f'{p}c{i}'
        acc += P.deffile(d, nm)
        last = i == n - 1
        mode = 'hdr' if last else 'txt'
        out = f'{p}.{csfx}' if last else f'{nm}.txt'
        oname = p if last else nm
        multi = P.flip('ct_chain.multi', 0.3) and not last
        outs = f"['{out}', '{nm}_aux.txt']" if multi else f"'{out}'"
        tool = f"[py, gen2, '@OUTPUT1@', '{mode}', '{oname}', '@OUTPUT0@', '@INPUT@'" if multi else \
            f"[py, gen, '{mode}', '{oname}', '@OUTPUT@', '@INPUT@'"
        if prev is None:
            body = f"input: '{nm}.def', output: {outs},\n  command: {tool}]"
        else:
            how = P.pick('ct_chain.how', ['input', 'depends', 'command-target'])
            pref = f'{prev}[0]' if prev_multi else prev
            if prev_multi:
                P.feat('ct-index')
            if how == 'input':
                body = f"input: [{pref}, '{nm}.def'], output: {outs},\n  command: {tool}]"
            elif how == 'depends':
                # depends: accepts an indexed custom target (ct[i]) as well as the whole target
                dep_obj = pref if P.flip('ct_chain.depends_index', 0.6) else prev
                if dep_obj != prev:
                    P.feat('ct-chain:depends-on-index')
                body = (f"input: '{nm}.def', output: {outs}, depends: {dep_obj},\n"
                        f"  command: {tool}, {pref}.full_path()]")
            else:
                body = f"input: '{nm}.def', output: {outs},\n  command: {tool}, {pref}]"
            P.feat('ct-chain:' + how)
        if multi:
            P.feat('ct-multi-output')
        var = f'{p}_c{i}' if not last else f'{p}_h'
        P.emit(d, f"{var} = custom_target('{var}', {body})")
        P.val[oname] = acc
        prev = var
        prev_multi = multi
    P.val['V_' + p] = acc
    hm = (f'{p}.{csfx}', 'V_' + p)
    if rng.random() < 0.5:
        P.emit(d, f"{p}_dep = declare_dependency(sources: {p}_h)")
        P.feat('declare_dependency-sources', 'header-only-dep')
        P.exports.append(Export(f'{p}_dep', [], [hm]))
    else:
        P.csrc(d, f'{p}_a.c', p + '_a', [hm], [])
        P.emit(d, f"{p}_lib = {_libfn(rng)}('{p}l', ['{p}_a.c', {p}_h])")
        P.emit(d, f"{p}_dep = declare_dependency(link_with: {p}_lib, sources: {p}_h)")
        P.ntargets += 1
        P.feat('declare_dependency-sources')
        P.exports.append(Export(f'{p}_dep', [f'f_{p}_a'], [hm]))
    P.ntargets += n


GEN2_PY = r'''#!/usr/bin/env python3
"""gen2.py AUX MODE NAME OUT IN...   like gen.py, and also writes AUX (a second output)."""
import os, subprocess, sys
aux = sys.argv[1]
rc = subprocess.call([sys.executable, os.path.join(os.path.dirname(os.path.abspath(__file__)), 'gen.py')] + sys.argv[2:])
if rc == 0:
    with open(aux, 'w') as f:
        f.write('aux of %s\n' % sys.argv[3])
sys.exit(rc)
'''


def blk_built_tool(P: Proj, p: str, d: str) -> None:
    """A code generator written in C, built by the project, used as custom_target command and as generator exe."""
    rng = P.rng
    P.feat('built-tool')
    bias = 0
    link = ''
    if rng.random() < 0.5:
        bias = rng.randint(1, 9)
        P.files[P.path(d, f'{p}tu.c')] = f'int {p}_bias(void) {{ return {bias}; }}\n'
        kind = rng.choice(['shared_library', 'static_library'])
        ver = ", version: '1.2.3'" if kind == 'shared_library' and rng.random() < 0.5 else ''
        if ver:
            P.feat('shared-lib-versioned')
        P.emit(d, f"{p}_tu = {kind}('{p}tu', '{p}tu.c'{ver})")
        link = f', link_with: {p}_tu'
        P.ntargets += 1
        P.feat('built-tool-links-' + ('shared' if kind == 'shared_library' else 'static'))
        P.files[P.path(d, f'{p}tool.c')] = CTOOL_C % {'bias_decl': f'int {p}_bias(void);', 'bias_expr': f'{p}_bias()'}
    else:
        P.files[P.path(d, f'{p}tool.c')] = CTOOL_C % {'bias_decl': '', 'bias_expr': '0'}
    P.emit(d, f"{p}_tool_exe = executable('{p}tool', '{p}tool.c'{link})")
    if P.flip('built_tool.override', 0.35):
        # the tool is looked up with find_program() after meson.override_find_program(): a LocalProgram
        P.emit(d, f"meson.override_find_program('{p}tool', {p}_tool_exe)")
        P.emit(d, f"{p}_tool = find_program('{p}tool')")
        P.feat('built-tool-override_find_program')
    else:
        P.emit(d, f"{p}_tool = {p}_tool_exe")
    P.ntargets += 1
    hms = []
    srcs = []
    if P.flip('built_tool.ct', 0.7):
        n = p + 'k'
        P.val['V_' + n] = P.deffile(d, n) + bias
        # how the step reaches its program: as an object of the command line (the command carries the edge), or only
        # as a PATH STRING (prog.full_path() handed to a wrapper script) - a string carries no edge, so the program is
        # named in depends:, which accepts build targets as well as program objects (find_program() results)
        ct_how = P.pick('built_tool.ct_how', ['command', 'command', 'depends-path'], aux=True)
        if ct_how == 'command':
            P.emit(d, f"{p}_hk = custom_target('{p}_hk', input: '{n}.def', output: '{n}.h',\n"
                      f"  command: [{p}_tool, '{n}', '@OUTPUT@', '@INPUT@'])")
        else:
            extp = P.flip('built_tool.depends_external', 0.4, aux=True)
            deps = f'[{p}_tool, py]' if extp else f'{p}_tool'
            P.emit(d, f"{p}_hk = custom_target('{p}_hk', input: '{n}.def', output: '{n}.h', depends: {deps},\n"
                      f"  command: [py, runw, {p}_tool.full_path(), '{n}', '@OUTPUT@', '@INPUT@'])")
            P.feat('depends-holds-program-path-in-command',
                   'depends-holds:' + ('local-program' if 'built-tool-override_find_program' in P.features else 'executable'))
            if extp:
                P.feat('depends-holds:external-program')
        hms.append((n + '.h', 'V_' + n))
        srcs.append(f'{p}_hk')
        P.ntargets += 1
        P.feat('built-tool-custom_target')
    if P.flip('built_tool.generator', 0.6) or not hms:
        ns = [p + 'm', p + 'n'][:rng.randint(1, 2)]
        for n in ns:
            P.val['V_' + n] = P.deffile(d, n) + bias
            hms.append((n + '.h', 'V_' + n))
        ins = ', '.join(repr(n + '.def') for n in ns)
        tdep = P.pick('built_tool.gen_depends', ['none', 'none', 'process', 'generator'])
        if tdep == 'none':
            P.emit(d, f"{p}_tg = generator({p}_tool, arguments: ['@BASENAME@', '@OUTPUT@', '@INPUT@'], output: '@BASENAME@.h')")
            srcs.append(f"{p}_tg.process({ins})")
        else:
            # the built generator program additionally reads a file made by a custom target, named through
            # generator(depends:) or per call through process(depends:): the rule needs BOTH the program and the file
            aux = P.deffile(d, p + 'taux')
            for n in ns:
                P.val['V_' + n] += aux
            P.emit(d, f"{p}_taux = custom_target('{p}_taux', input: '{p}taux.def', output: '{p}_taux.txt',\n"
                      f"  command: [py, gen, 'txt', '{p}_taux', '@OUTPUT@', '@INPUT@'])")
            P.ntargets += 1
            if tdep == 'generator':
                P.emit(d, f"{p}_tg = generator({p}_tool, arguments: ['@BASENAME@', '@OUTPUT@', '@INPUT@', {p}_taux.full_path()],\n"
                          f"  output: '@BASENAME@.h', depends: {p}_taux)")
                srcs.append(f"{p}_tg.process({ins})")
            else:
                P.emit(d, f"{p}_tg = generator({p}_tool, arguments: ['@BASENAME@', '@OUTPUT@', '@INPUT@', '@EXTRA_ARGS@'],\n"
                          f"  output: '@BASENAME@.h')")
                srcs.append(f"{p}_tg.process({ins}, extra_args: [{p}_taux.full_path()], depends: {p}_taux)")
            P.feat('built-tool-generator-depends:' + tdep)
        P.feat('built-tool-generator')
    P.csrc(d, f'{p}_a.c', p + '_a', hms, [])
    P.emit(d, f"{p}_lib = {_libfn(rng)}('{p}l', '{p}_a.c', {', '.join(srcs)})")
    P.ntargets += 1
    exp_macros: T.List[T.Tuple[str, str]] = []
    src_kw = ''
    if f'{p}_hk' in srcs:
        exp_macros = [hms[0]]
        src_kw = f', sources: {p}_hk'
        P.feat('declare_dependency-sources')
    P.emit(d, f"{p}_dep = declare_dependency(link_with: {p}_lib{src_kw})")
    P.exports.append(Export(f'{p}_dep', [f'f_{p}_a'], exp_macros))


def blk_libs(P: Proj, p: str, d: str) -> None:
    """Library zoo: static/shared/both, link_with / link_whole / via declare_dependency, extract_objects."""
    rng = P.rng
    P.feat('libs')
    n = rng.randint(2, 4)
    # a header shared by all of them
    P.val['V_' + p] = P.deffile(d, p)
    P.emit(d, f"{p}_h = custom_target('{p}_h', input: '{p}.def', output: '{p}.h',\n"
              f"  command: [py, gen, 'hdr', '{p}', '@OUTPUT@', '@INPUT@'])")
    hm = (f'{p}.h', 'V_' + p)
    P.ntargets += 1
    kinds: T.List[str] = []
    for i in range(n):
        kind = P.pick(f'libs.kind.{i}', ['static_library', 'static_library', 'shared_library', 'both_libraries'])
        kinds.append(kind)
        nm = f'{p}l{i}'
        calls = []
        link = ''
        used: T.List[Export] = []
        if i > 0:
            j = rng.randrange(i)
            calls = [f'f_{p}l{j}']
            tgt = f'{p}_l{j}'
            static_j = kinds[j] == 'static_library'
            how = P.pick('libs.how', ['link_with', 'link_whole', 'dep', 'dep-whole'] if static_j else ['link_with', 'dep'])
            if kinds[j] == 'both_libraries' and rng.random() < 0.5:
                tgt = f'{p}_l{j}.get_' + rng.choice(['static', 'shared']) + '_lib()'
                P.feat('both_libraries-get_lib')
                how = 'link_with'
            if how == 'dep':
                link = f', dependencies: declare_dependency(link_with: {tgt})'
            elif how == 'dep-whole':
                link = f', dependencies: declare_dependency(link_whole: {tgt})'
            else:
                link = f', {how}: {tgt}'
            P.feat('libs:' + how)
            if how in ('link_whole', 'dep-whole') and kind != 'static_library':
                P.feat('shared-link_whole-static')
        elif rng.random() < 0.5:
            used = P.take(1, 1.0)
        um, uc = P.use_of(used, rng)
        inc_h = rng.random() < 0.7
        P.csrc(d, f'{nm}.c', nm, ([hm] if inc_h else []) + um, calls + uc)
        srcs = f"'{nm}.c'" + (f', {p}_h' if inc_h else '')
        if i == 0:
            P.emit(d, f"{p}_l0_deps = [" + ', '.join(e.var for e in used) + ']')
            link += f', dependencies: {p}_l0_deps'
        P.emit(d, f"{p}_l{i} = {kind}('{nm}', {srcs}{link})")
        P.feat('libs:' + kind)
        P.ntargets += 1
    top = f'{p}_l{n - 1}'
    fns = [f'f_{p}l{n - 1}']
    if rng.random() < 0.35:
        # an executable made of the extracted objects of library 0 (plus its own main) run nowhere; only built
        j = 0
        if kinds[j] != 'both_libraries':
            P.files[P.path(d, f'{p}xo.c')] = (f'#include <stdio.h>\nint f_{p}l0(void);\n'
                                              f'int main(void) {{ printf("{p}xo %d\\n", f_{p}l0()); return 0; }}\n')
            # library 0 has no internal link deps (i == 0) but may use an external export
            P.emit(d, f"{p}_xo = executable('{p}xo', '{p}xo.c', objects: {p}_l0.extract_all_objects(recursive: false),\n"
                      f"  dependencies: {p}_l0_deps)")
            P.feat('extract_objects')
            P.ntargets += 1
            P.exes.append({'name': f'{p}xo', 'path': P.path(d, f'{p}xo'), 'stdout': f'{p}xo {P.val["f_" + p + "l0"]}\n'})
    statics = [i for i in range(n) if kinds[i] == 'static_library']
    if P.flip('libs.exe_whole', 0.35) and statics:
        # an executable that whole-links a static library (plugins idiom): its link step needs the archive itself
        j = P.rng.choice(statics)
        P.files[P.path(d, f'{p}wx.c')] = (f'#include <stdio.h>\nint f_{p}l{j}(void);\n'
                                          f'int main(void) {{ printf("{p}wx %d\\n", f_{p}l{j}()); return 0; }}\n')
        P.emit(d, f"{p}_wx = executable('{p}wx', '{p}wx.c', link_whole: {p}_l{j})")
        P.feat('exe-link_whole')
        P.ntargets += 1
        P.exes.append({'name': f'{p}wx', 'path': P.path(d, f'{p}wx'), 'stdout': f'{p}wx {P.val["f_" + p + "l" + str(j)]}\n'})
    macros = [hm]
    extra_src = ''
    cand = [i for i in range(n) if kinds[i] != 'both_libraries']
    if cand and rng.random() < 0.5:
        # a custom target whose input is a built library (binary input counts 1 in gen.py)
        j = rng.choice(cand)
        P.emit(d, f"{p}_insp = custom_target('{p}_insp', input: {p}_l{j}, output: '{p}i.h',\n"
                  f"  command: [py, gen, 'hdr', '{p}i', '@OUTPUT@', '@INPUT@'])")
        P.val[f'V_{p}i'] = 1
        macros.append((f'{p}i.h', f'V_{p}i'))
        extra_src = f', {p}_insp'
        P.feat('ct-input-build-target')
        P.ntargets += 1
    P.emit(d, f"{p}_dep = declare_dependency(link_with: {top}, sources: [{p}_h{extra_src}])")
    P.exports.append(Export(f'{p}_dep', fns, macros))


def blk_subproject(P: Proj, p: str) -> None:
    """A subproject with a library and a generated header exported through declare_dependency(sources:)."""
    rng = P.rng
    P.feat('subproject')
    S = Proj(rng, top=False)
    S.deffile('', p)
    v = S.val[p]
    P.val['V_' + p] = v
    S.val['V_' + p] = v
    hm = (f'{p}.h', 'V_' + p)
    kind = rng.choice(['static_library', 'shared_library', 'library'])
    S.csrc('', f'{p}_a.c', p + '_a', [hm], [], allow_soft=False)
    P.val[f'f_{p}_a'] = S.val[f'f_{p}_a']
    hdr_kind = rng.choice(['ct', 'generator'])
    body = [f"project('{p}', 'c')", "py = find_program('python3')", "gen = files('tools/gen.py')"]
    macros = [hm]
    if hdr_kind == 'ct':
        sub = rng.random() < 0.5
        if sub:
            # header generated in a subdir of the subproject
            S.files[f'inc/{p}.def'] = S.files.pop(f'{p}.def')
            S.files['inc/meson.build'] = (f"{p}_h = custom_target('{p}_h', input: '{p}.def', output: '{p}.h',\n"
                                          f"  command: [py, gen, 'hdr', '{p}', '@OUTPUT@', '@INPUT@'])\n")
            body.append("subdir('inc')")
            P.feat('subproject-subdir-header')
        else:
            body.append(f"{p}_h = custom_target('{p}_h', input: '{p}.def', output: '{p}.h',\n"
                        f"  command: [py, gen, 'hdr', '{p}', '@OUTPUT@', '@INPUT@'])")
        body.append(f"{p}_lib = {kind}('{p}l', '{p}_a.c', {p}_h)")
        body.append(f"{p}_dep = declare_dependency(link_with: {p}_lib, sources: {p}_h)")
        P.feat('declare_dependency-sources', 'subproject-ct-header')
    else:
        body.append("gen_path = meson.current_source_dir() / 'tools' / 'gen.py'")
        body.append(f"{p}_g = generator(py, arguments: [gen_path, 'hdr', '@BASENAME@', '@OUTPUT@', '@INPUT@'], output: '@BASENAME@.h')")
        body.append(f"{p}_lib = {kind}('{p}l', '{p}_a.c', {p}_g.process('{p}.def'))")
        body.append(f"{p}_dep = declare_dependency(link_with: {p}_lib)")
        macros = []
        P.feat('subproject-generator-header')
    how = rng.choice(['get_variable', 'override'])
    if how == 'override':
        body.append(f"meson.override_dependency('{p}', {p}_dep)")
    S.files['meson.build'] = '\n'.join(body) + '\n'
    S.files['tools/gen.py'] = GEN_PY
    for k, t in S.files.items():
        P.files[f'subprojects/{p}/{k}'] = t
    if how == 'override':
        P.emit('', f"{p}_dep = dependency('{p}', fallback: ['{p}', '{p}_dep'])")
    else:
        P.emit('', f"{p}_dep = subproject('{p}').get_variable('{p}_dep')")
    P.feat('subproject:' + how)
    P.ntargets += 2
    P.subprojects.append(p)
    P.exports.append(Export(f'{p}_dep', [f'f_{p}_a'], macros))


def blk_link_depends(P: Proj, p: str, d: str) -> None:
    """link_depends: entries of every kind the keyword accepts, each of them read by the link step: a generated linker
    version script (custom target / indexed output of a two-output custom target), a version script of the source tree
    (files() object / plain string), and LIBRARY targets that the link line names only through link_args:
    (-Wl,--whole-archive <lib.full_path()>, the bare archive path, a shared library by path) - for the link step of a
    shared library and of an executable."""
    rng = P.rng
    P.feat('link_depends')
    P.deffile(d, p)
    mapk = P.pick('link_depends.map', ['ct', 'ct', 'index', 'file', 'str'])
    P.feat('link_depends:map-' + mapk)
    if mapk == 'ct':
        P.emit(d, f"{p}_map = custom_target('{p}_map', input: '{p}.def', output: '{p}.map',\n"
                  f"  command: [py, gen, 'map', '{p}', '@OUTPUT@', '@INPUT@'])")
        map_ref, map_path = f'{p}_map', f'{p}_map.full_path()'
        P.ntargets += 1
    elif mapk == 'index':
        P.emit(d, f"{p}_map = custom_target('{p}_map', input: '{p}.def', output: ['{p}.map', '{p}_map_aux.txt'],\n"
                  f"  command: [py, gen2, '@OUTPUT1@', 'map', '{p}', '@OUTPUT0@', '@INPUT@'])")
        map_ref, map_path = f'{p}_map[0]', f'{p}_map[0].full_path()'
        P.feat('ct-multi-output', 'ct-index')
        P.ntargets += 1
    else:
        P.files[P.path(d, f'{p}.map')] = f'# {p}\n{{ global: f_*; local: *; }};\n'
        map_ref = f"files('{p}.map')" if mapk == 'file' else f"'{p}.map'"
        map_path = f"meson.current_source_dir() / '{p}.map'"
    # a helper library that the link line of the shared library names only through link_args:
    helper = P.pick('link_depends.helper', ['none', 'whole-archive', 'whole-archive', 'archive', 'shared'])
    P.feat('link_depends:lib-' + helper)
    ldeps = [map_ref]
    largs = f"['-Wl,--version-script,' + {map_path}]"
    extra_kw = ''
    calls: T.List[str] = []
    if helper != 'none':
        k = rng.randint(1, 40)
        P.files[P.path(d, f'{p}h.c')] = f'int f_{p}h(void) {{ return {k}; }}\n'
        P.val[f'f_{p}h'] = k
        calls.append(f'f_{p}h')
        if helper == 'shared':
            P.emit(d, f"{p}_hl = shared_library('{p}h', '{p}h.c')")
            largs += f" + [{p}_hl.full_path()]"
            extra_kw = ', build_rpath: meson.current_build_dir()'
        else:
            P.emit(d, f"{p}_hl = static_library('{p}h', '{p}h.c', pic: true)")
            if helper == 'whole-archive':
                largs += f" + ['-Wl,--whole-archive', {p}_hl.full_path(), '-Wl,--no-whole-archive']"
            else:
                largs += f" + [{p}_hl.full_path()]"
        ldeps.append(f'{p}_hl')
        P.ntargets += 1
    used = P.take(1)
    um, uc = P.use_of(used, rng)
    P.csrc(d, f'{p}_a.c', p + '_a', um, calls + uc)
    P.emit(d, f"{p}_lib = shared_library('{p}s', '{p}_a.c', link_depends: [{', '.join(ldeps)}],\n"
              f"  link_args: {largs}{extra_kw}{P.deps_kw(used)})")
    P.emit(d, f"{p}_dep = declare_dependency(link_with: {p}_lib)")
    P.ntargets += 1
    if P.flip('link_depends.exe', 0.5):
        # the plugins idiom that predates link_whole: an executable whose link line names a library of the project
        # only through link_args; link_depends: is the one thing that orders its link step after that library
        xh = P.pick('link_depends.exe_helper', ['whole-archive', 'whole-archive', 'archive', 'shared'])
        P.feat('link_depends:exe-lib-' + xh)
        k = rng.randint(1, 40)
        P.files[P.path(d, f'{p}pl.c')] = f'int f_{p}pl(void) {{ return {k}; }}\n'
        P.files[P.path(d, f'{p}x.c')] = (f'#include <stdio.h>\nint f_{p}pl(void);\n'
                                          f'int main(void) {{ printf("{p}x %d\\n", f_{p}pl()); return 0; }}\n')
        xkw = ''
        if xh == 'shared':
            P.emit(d, f"{p}_pl = shared_library('{p}pl', '{p}pl.c')")
            xargs = f"[{p}_pl.full_path()]"
            xkw = ', build_rpath: meson.current_build_dir()'
        else:
            P.emit(d, f"{p}_pl = static_library('{p}pl', '{p}pl.c')")
            xargs = (f"['-Wl,--whole-archive', {p}_pl.full_path(), '-Wl,--no-whole-archive']" if xh == 'whole-archive'
                     else f"[{p}_pl.full_path()]")
        P.emit(d, f"{p}_x = executable('{p}x', '{p}x.c', link_args: {xargs}, link_depends: {p}_pl{xkw})")
        P.exes.append({'name': f'{p}x', 'path': P.path(d, f'{p}x'), 'stdout': f'{p}x {k}\n'})
        P.ntargets += 2
    P.exports.append(Export(f'{p}_dep', [f'f_{p}_a'], [], shared=True))


def blk_exe_capture(P: Proj, p: str, d: str) -> None:
    """An executable built by the project is run at build time (capture) and its output becomes a header."""
    rng = P.rng
    P.feat('exe-run-capture')
    used = P.take(1)
    um, uc = P.use_of(used, rng)
    k = rng.randint(1, 50)
    tot = k + sum(P.val[m] for _, m in um) + sum(P.val[c] for c in uc)
    src = ['#include <stdio.h>'] + [f'#include "{h}"' for h, _ in um] + [f'int {c}(void);' for c in uc]
    expr = ' + '.join([str(k)] + [m for _, m in um] + [f'{c}()' for c in uc])
    src.append(f'int main(void) {{ printf("{p}pr %d\\n", {expr}); return 0; }}')
    P.files[P.path(d, f'{p}pr.c')] = '\n'.join(src) + '\n'
    link = ''
    if rng.random() < 0.5:
        # the printer needs a shared library at run time
        b = rng.randint(1, 9)
        P.files[P.path(d, f'{p}ps.c')] = f'int {p}_ps(void) {{ return {b}; }}\n'
        ver = ", version: '2.0.1', soversion: '2'" if rng.random() < 0.5 else ''
        if ver:
            P.feat('shared-lib-versioned')
        P.emit(d, f"{p}_ps = shared_library('{p}ps', '{p}ps.c'{ver})")
        link = f', link_with: {p}_ps'
        P.files[P.path(d, f'{p}pr.c')] = '\n'.join(src[:-1] + [
            f'int {p}_ps(void);',
            f'int main(void) {{ printf("{p}pr %d\\n", {expr} + {p}_ps()); return 0; }}']) + '\n'
        tot += b
        P.ntargets += 1
        P.feat('exe-run-needs-shared-lib')
    P.emit(d, f"{p}_pr = executable('{p}pr', '{p}pr.c'{link}{P.deps_kw(used)})")
    P.exes.append({'name': f'{p}pr', 'path': P.path(d, f'{p}pr'), 'stdout': f'{p}pr {tot}\n'})
    P.emit(d, f"{p}_out = custom_target('{p}_out', output: '{p}_out.txt', command: [{p}_pr], capture: true)")
    P.emit(d, f"{p}_h = custom_target('{p}_h', input: {p}_out, output: '{p}.h',\n"
              f"  command: [py, gen, 'hdr', '{p}', '@OUTPUT@', '@INPUT@'])")
    P.val['V_' + p] = tot
    P.emit(d, f"{p}_dep = declare_dependency(sources: {p}_h)")
    P.feat('declare_dependency-sources', 'header-only-dep')
    P.ntargets += 3
    P.exports.append(Export(f'{p}_dep', [], [(f'{p}.h', 'V_' + p)]))


def blk_gensrc_inc(P: Proj, p: str, d: str) -> None:
    """A generated source that #includes a generated header; both in the same target."""
    rng = P.rng
    P.feat('gensrc-includes-genhdr')
    P.val['V_' + p] = P.deffile(d, p)
    P.emit(d, f"{p}_h = custom_target('{p}_h', input: '{p}.def', output: '{p}.h',\n"
              f"  command: [py, gen, 'hdr', '{p}', '@OUTPUT@', '@INPUT@'])")
    n = p + 'c'
    v = P.deffile(d, n)
    P.val['f_' + n] = v + P.val['V_' + p]
    via_gen = P.flip('gensrc_inc.generator', 0.5)
    if via_gen:
        P.emit(d, f"{p}_gc = generator(py, arguments: [gen_path, 'srcinc', '@BASENAME@', '@OUTPUT@', '{p}.h', 'V_{p}', '@INPUT@'],\n"
                  f"  output: '@BASENAME@.c')")
        csrc = f"{p}_gc.process('{n}.def')"
        P.feat('gensrc-includes-genhdr:generator')
    else:
        P.emit(d, f"{p}_c = custom_target('{p}_c', input: '{n}.def', output: '{n}.c',\n"
                  f"  command: [py, gen, 'srcinc', '{n}', '@OUTPUT@', '{p}.h', 'V_{p}', '@INPUT@'])")
        csrc = f'{p}_c'
        P.feat('gensrc-includes-genhdr:custom_target')
    P.csrc(d, f'{p}_a.c', p + '_a', [], ['f_' + n])
    P.emit(d, f"{p}_lib = {_libfn(rng)}('{p}l', '{p}_a.c', {csrc}, {p}_h)")
    P.emit(d, f"{p}_dep = declare_dependency(link_with: {p}_lib)")
    P.ntargets += 3
    P.exports.append(Export(f'{p}_dep', [f'f_{p}_a', 'f_' + n], []))


def blk_genlist_chain(P: Proj, p: str, d: str) -> None:
    """generator output as custom_target input; generator fed with another generator's output."""
    rng = P.rng
    P.emit(d, f"{p}_g1 = generator(py, arguments: [gen_path, 'txt', '@BASENAME@', '@OUTPUT@', '@INPUT@'], output: '@BASENAME@.txt')")
    srcs: T.List[str] = []
    hms: T.List[T.Tuple[str, str]] = []
    exp_src = ''
    if P.flip('genlist_chain.ct', 0.6):
        a, b = p + 'a', p + 'b'
        v = P.deffile(d, a) + P.deffile(d, b)
        P.val['V_' + p] = v
        P.emit(d, f"{p}_h = custom_target('{p}_h', input: {p}_g1.process('{a}.def', '{b}.def'), output: '{p}.h',\n"
                  f"  command: [py, gen, 'hdr', '{p}', '@OUTPUT@', '@INPUT@'])")
        srcs.append(f'{p}_h')
        hms.append((f'{p}.h', 'V_' + p))
        exp_src = f', sources: {p}_h'
        P.feat('genlist-into-custom_target')
        P.ntargets += 1
    if P.flip('genlist_chain.nested', 0.6) or not srcs:
        c = p + 'q'
        P.val['V_' + c] = P.deffile(d, c)
        P.emit(d, f"{p}_g2 = generator(py, arguments: [gen_path, 'hdr', '@BASENAME@', '@OUTPUT@', '@INPUT@'], output: '@BASENAME@.h')")
        srcs.append(f"{p}_g2.process({p}_g1.process('{c}.def'))")
        hms.append((f'{c}.h', 'V_' + c))
        P.feat('generator-nested')
    P.csrc(d, f'{p}_a.c', p + '_a', hms, [])
    P.emit(d, f"{p}_lib = {_libfn(rng)}('{p}l', '{p}_a.c', {', '.join(srcs)})")
    P.emit(d, f"{p}_dep = declare_dependency(link_with: {p}_lib{exp_src})")
    P.ntargets += 1
    P.exports.append(Export(f'{p}_dep', [f'f_{p}_a'], hms[:1] if exp_src else []))


def blk_ct_object(P: Proj, p: str, d: str) -> None:
    """custom targets that compile an object / build an archive, linked through objects: / link_with:."""
    rng = P.rng
    P.feat('ct-object')
    k = rng.randint(1, 60)
    P.files[P.path(d, f'{p}o.c')] = f'int f_{p}o(void) {{ return {k}; }}\n'
    P.val[f'f_{p}o'] = k
    P.emit(d, f"{p}_o = custom_target('{p}_o', input: '{p}o.c', output: '{p}o.o',\n"
              f"  command: cc.cmd_array() + ['-fPIC', '-c', '@INPUT@', '-o', '@OUTPUT@'])")
    P.ntargets += 1
    how = P.pick('ct_object.how', ['objects', 'archive', 'archive-in-sources'])
    P.csrc(d, f'{p}_a.c', p + '_a', [], [f'f_{p}o'])
    if how == 'objects':
        P.emit(d, f"{p}_lib = {_libfn(rng)}('{p}l', '{p}_a.c', objects: {p}_o)")
        P.feat('ct-object:objects')
    elif how == 'archive-in-sources':
        # a custom target whose output is an archive, listed among the sources: linked as a library
        P.emit(d, f"{p}_ar = custom_target('{p}_ar', input: {p}_o, output: 'lib{p}ar.a',\n"
                  f"  command: [ar, 'csrD', '@OUTPUT@', '@INPUT@'])")
        P.emit(d, f"{p}_lib = shared_library('{p}l', '{p}_a.c', {p}_ar)")
        P.ntargets += 1
        P.feat('ct-object:archive-in-sources')
    else:
        P.emit(d, f"{p}_ar = custom_target('{p}_ar', input: {p}_o, output: 'lib{p}ar.a',\n"
                  f"  command: [ar, 'csrD', '@OUTPUT@', '@INPUT@'])")
        P.emit(d, f"{p}_lib = {_libfn(rng)}('{p}l', '{p}_a.c', link_with: {p}_ar)")
        P.ntargets += 1
        P.feat('ct-object:archive-link_with')
    P.emit(d, f"{p}_dep = declare_dependency(link_with: {p}_lib)")
    P.ntargets += 1
    P.exports.append(Export(f'{p}_dep', [f'f_{p}_a'], []))


def blk_preprocess(P: Proj, p: str, d: str) -> None:
    """compiler.preprocess() of a template that includes a generated header (ordered by the documented depends:)."""
    rng = P.rng
    P.feat('preprocess')
    P.val['V_' + p] = P.deffile(d, p)
    sfx = P.inc_suffix('preprocess.suffix')
    P.emit(d, f"{p}_h = custom_target('{p}_h', input: '{p}.def', output: '{p}.{sfx}',\n"
              f"  command: [py, gen, 'hdr', '{p}', '@OUTPUT@', '@INPUT@'])")
    k = rng.randint(1, 30)
    n = p + 't'
    P.files[P.path(d, f'{n}.c.in')] = f'#include "{p}.{sfx}"\nint f_{n}(void) {{ return {k} + V_{p}; }}\n'
    P.val['f_' + n] = k + P.val['V_' + p]
    P.emit(d, f"{p}_pp = cc.preprocess('{n}.c.in', output: '@BASENAME@', depends: {p}_h)")
    P.csrc(d, f'{p}_a.c', p + '_a', [], ['f_' + n])
    P.emit(d, f"{p}_lib = {_libfn(rng)}('{p}l', '{p}_a.c', {p}_pp)")
    P.emit(d, f"{p}_dep = declare_dependency(link_with: {p}_lib)")
    P.ntargets += 3
    P.exports.append(Export(f'{p}_dep', [f'f_{p}_a'], []))


def blk_configure_mix(P: Proj, p: str, d: str) -> None:
    """configure_file() header that #includes a build-time generated header; consumers declare the latter."""
    rng = P.rng
    P.feat('configure_file')
    P.val['V_' + p] = P.deffile(d, p)
    P.emit(d, f"{p}_h = custom_target('{p}_h', input: '{p}.def', output: '{p}.h',\n"
              f"  command: [py, gen, 'hdr', '{p}', '@OUTPUT@', '@INPUT@'])")
    k = rng.randint(1, 40)
    P.files[P.path(d, f'{p}cfg.h.in')] = f'#include "{p}.h"\n#define V_{p}cfg (@K@ + V_{p})\n'
    P.emit(d, f"{p}_cfg = configure_file(input: '{p}cfg.h.in', output: '{p}cfg.h', configuration: {{'K': {k}}})")
    P.val[f'V_{p}cfg'] = k + P.val['V_' + p]
    hm = (f'{p}cfg.h', f'V_{p}cfg')
    P.csrc(d, f'{p}_a.c', p + '_a', [hm], [])
    P.emit(d, f"{p}_inc = include_directories('.')")
    P.emit(d, f"{p}_lib = {_libfn(rng)}('{p}l', '{p}_a.c', {p}_h, {p}_cfg, include_directories: {p}_inc)")
    P.emit(d, f"{p}_dep = declare_dependency(link_with: {p}_lib, sources: {p}_h, include_directories: {p}_inc)")
    P.feat('declare_dependency-sources')
    P.ntargets += 2
    P.exports.append(Export(f'{p}_dep', [f'f_{p}_a'], [hm]))


def blk_pch(P: Proj, p: str, d: str) -> None:
    """A precompiled header (c_pch: / cpp_pch:) that #includes GENERATED files: the precompile step is a build step
    like any other and needs every one of them first.  The included files come from each producer kind a target can
    name (custom_target in sources, indexed output of a two-output custom_target, generator() output in the target's
    private directory, custom_target reaching the target only through declare_dependency(sources:)) and carry header
    suffixes as well as the include-file idioms that are neither header nor source by suffix (.inc / .def / .tbl)."""
    rng = P.rng
    P.feat('pch')
    lang = P.pick('pch.lang', ['c', 'c', 'c', 'cpp'])
    if not P.has_cpp:
        lang = 'c'
    P.feat('pch:' + lang)
    ninc = P.pick('pch.n', [1, 2, 2, 3])
    srcs: T.List[str] = []
    dep_srcs: T.List[str] = []
    incs: T.List[T.Tuple[str, str]] = []
    for k in range(ninc):
        n = f'{p}i{k}'
        kind = P.pick(f'pch.inc.{k}', ['ct', 'ct', 'gen', 'dep', 'ct-index'])
        sfx = P.pick(f'pch.sfx.{k}', ['h', 'inc', 'def', 'tbl'])
        P.val['V_' + n] = P.deffile(d, n)
        out = f'{n}g.{sfx}'        # never the name of a file of the source tree (the inputs are <name>.def)
        if kind in ('ct', 'dep'):
            P.emit(d, f"{n}_t = custom_target('{n}_t', input: '{n}.def', output: '{out}',\n"
                      f"  command: [py, gen, 'hdr', '{n}', '@OUTPUT@', '@INPUT@'])")
            (srcs if kind == 'ct' else dep_srcs).append(f'{n}_t')
            P.ntargets += 1
        elif kind == 'ct-index':
            # two-output custom target (include file + C source); only the indexed include file is a source of the target
            P.emit(d, f"{n}_t = custom_target('{n}_t', input: '{n}.def', output: ['{out}', '{n}g_unused.c'],\n"
                      f"  command: [py, gen, 'both', '{n}', '@OUTPUT0@', '@OUTPUT1@', '@INPUT@'])")
            srcs.append(f'{n}_t[0]')
            P.feat('ct-multi-output', 'ct-index')
            P.ntargets += 1
        else:
            P.emit(d, f"{n}_g = generator(py, arguments: [gen_path, 'hdr', '{n}', '@OUTPUT@', '@INPUT@'], output: '@BASENAME@g.{sfx}')")
            srcs.append(f"{n}_g.process('{n}.def')")
        incs.append((out, 'V_' + n))
        P.feat(f'pch-includes:{kind}', f'pch-includes:{kind}.{sfx}')
    pch_text = ''.join(f'#include "{o}"\n' for o, _ in incs)
    pch_text += f"#define V_{p}pch ({' + '.join(m for _, m in incs)} + 1)\n"
    P.files[P.path(d, f'pch/{p}_pch.h')] = pch_text
    P.val[f'V_{p}pch'] = sum(P.val[m] for _, m in incs) + 1
    k = rng.randint(1, 9)
    # the source relies on the precompiled header being force-included (-include) by the backend
    if lang == 'c':
        P.files[P.path(d, f'{p}_a.c')] = f'int f_{p}_a(void) {{ return {k} + V_{p}pch; }}\n'
        src = f'{p}_a.c'
    else:
        P.files[P.path(d, f'{p}_a.cpp')] = f'extern "C" int f_{p}_a(void) {{ return {k} + V_{p}pch; }}\n'
        src = f'{p}_a.cpp'
    P.val[f'f_{p}_a'] = k + P.val[f'V_{p}pch']
    depkw = ''
    if dep_srcs:
        P.emit(d, f"{p}_hdrs = declare_dependency(sources: [{', '.join(dep_srcs)}])")
        depkw = f', dependencies: {p}_hdrs'
        P.feat('declare_dependency-sources')
    P.emit(d, f"{p}_lib = {_libfn(rng)}('{p}l', '{src}'{''.join(', ' + s for s in srcs)}{depkw}, {lang}_pch: 'pch/{p}_pch.h')")
    P.emit(d, f"{p}_dep = declare_dependency(link_with: {p}_lib)")
    P.ntargets += 1
    P.exports.append(Export(f'{p}_dep', [f'f_{p}_a'], []))


def blk_same_name(P: Proj, p: str, d: str) -> None:
    """Two custom targets in different directories produce equally NAMED outputs; one consumer needs both, through
    depends: / as target objects in its command / through generator(depends:)."""
    rng = P.rng
    P.feat('same-name-outputs')
    tot = 0
    for sub in ('a', 'b'):
        nm = f'{p}{sub}'
        dd = nm                     # directories <p>a/ and <p>b/ directly under the source root
        tot += P.deffile(dd, nm)
        P.emit(dd, f"{nm}_ver = custom_target('{nm}_ver', input: '{nm}.def', output: 'version.h',\n"
                   f"  command: [py, gen, 'hdr', '{nm}', '@OUTPUT@', '@INPUT@'])")
    how = P.pick('same_name.how', ['depends', 'command', 'generator-depends'])
    P.feat('same-name-outputs:' + how)
    own = P.deffile(d, p)
    P.val['V_' + p] = tot + own
    hm = (f'{p}.h', 'V_' + p)
    order = [f'{p}a_ver', f'{p}b_ver']
    if rng.random() < 0.5:
        order.reverse()
    srcs = f'{p}_h'
    if how == 'depends':
        P.emit(d, f"{p}_h = custom_target('{p}_h', input: '{p}.def', output: '{p}.h', depends: [{order[0]}, {order[1]}],\n"
                  f"  command: [py, gen, 'hdr', '{p}', '@OUTPUT@', '@INPUT@', {order[0]}.full_path(), {order[1]}.full_path()])")
    elif how == 'command':
        P.emit(d, f"{p}_h = custom_target('{p}_h', input: '{p}.def', output: '{p}.h',\n"
                  f"  command: [py, gen, 'hdr', '{p}', '@OUTPUT@', '@INPUT@', {order[0]}, {order[1]}])")
    else:
        P.emit(d, f"{p}_g = generator(py, arguments: [gen_path, 'hdr', '@BASENAME@', '@OUTPUT@', '@INPUT@',\n"
                  f"    {order[0]}.full_path(), {order[1]}.full_path()],\n"
                  f"  output: '@BASENAME@.h', depends: [{order[0]}, {order[1]}])")
        srcs = f"{p}_g.process('{p}.def')"
    P.csrc(d, f'{p}_a.c', p + '_a', [hm], [])
    P.emit(d, f"{p}_lib = {_libfn(rng)}('{p}l', '{p}_a.c', {srcs})")
    if how == 'generator-depends':
        P.emit(d, f"{p}_dep = declare_dependency(link_with: {p}_lib)")
        P.exports.append(Export(f'{p}_dep', [f'f_{p}_a'], []))
    else:
        P.emit(d, f"{p}_dep = declare_dependency(link_with: {p}_lib, sources: {p}_h)")
        P.feat('declare_dependency-sources')
        P.exports.append(Export(f'{p}_dep', [f'f_{p}_a'], [hm]))
    P.ntargets += 4


def blk_bootstrap(P: Proj, p: str, d: str) -> None:
    """Bootstrap layout: a checked-in STUB header in the source tree and a GENERATED header with the same relative
    path in the build tree (made by a tool that is itself compiled against the stub).  The stub is known to meson as
    a file of the source tree (listed in the sources of the earlier bootstrap tool / as files() object / as
    depend_files:); the generated twin reaches its consumers through declare_dependency(sources:) or directly in
    sources.  Consumers live in other directories and find the header through include_directories('.') of the twin's
    directory (build dir first, then source dir): a consumer compiled before the generating step silently gets the
    stub, so its edges must name the GENERATED file."""
    rng = P.rng2
    P.feat('bootstrap-twin')
    vd = f'{p}v'                   # directory of the twins, directly under the root; holds no consumer
    n = f'{p}ver'
    k = rng.randint(1, 9)
    stubv = -100000 - rng.randint(1, 999)
    P.files[P.path(vd, f'{n}.h')] = (f'/* checked-in stub, only good enough to bootstrap {p}mk */\n'
                                     f'#ifndef H_{n}\n#define H_{n}\n#define V_{n} ({stubv})\n#define K_{n} ({k})\n#endif\n')
    P.files[P.path(vd, f'{p}mk.c')] = CTOOL_C % {'bias_decl': f'#include "{n}.h"', 'bias_expr': f'K_{n}'}
    stub_in = P.pick('bootstrap.stub_in', ['tool-sources', 'tool-sources', 'tool-files', 'depend_files'], aux=True)
    native = ', native: true' if P.flip('bootstrap.native', 0.5, aux=True) else ''
    P.feat('bootstrap-twin:stub-in-' + stub_in)
    extra = {'tool-sources': f", '{n}.h'", 'tool-files': f", files('{n}.h')", 'depend_files': ''}[stub_in]
    P.emit(vd, f"{p}_mk = executable('{p}mk', '{p}mk.c'{extra}{native})")
    v = P.deffile(vd, n) + k
    P.val['V_' + n] = v
    dkw = f", depend_files: files('{n}.h')" if stub_in == 'depend_files' else ''
    if P.flip('bootstrap.by_default', 0.6, aux=True):
        # part of `all` whether or not a consumer pulls it in (generated headers that are also installed / shipped)
        dkw += ', build_by_default: true'
        P.feat('bootstrap-twin:build_by_default')
    P.emit(vd, f"{p}_verh = custom_target('{p}_verh', input: '{n}.def', output: '{n}.h',\n"
               f"  command: [{p}_mk, '{n}', '@OUTPUT@', '@INPUT@']{dkw})")
    P.emit(vd, f"{p}_vinc = include_directories('.')")
    via = P.pick('bootstrap.via', ['dep-sources', 'dep-sources', 'direct'], aux=True)
    P.feat('bootstrap-twin:via-' + via, 'declare_dependency-sources', 'built-tool')
    hm = (f'{n}.h', 'V_' + n)
    P.csrc(d, f'{p}_a.c', p + '_a', [hm], [], allow_soft=False)
    if via == 'dep-sources':
        P.emit(vd, f"{p}_hdep = declare_dependency(sources: {p}_verh, include_directories: {p}_vinc)")
        P.emit(d, f"{p}_lib = {_libfn(P.rng2)}('{p}l', '{p}_a.c', dependencies: {p}_hdep)")
        P.emit(d, f"{p}_dep = declare_dependency(link_with: {p}_lib, dependencies: {p}_hdep)")
    else:
        P.emit(d, f"{p}_lib = {_libfn(P.rng2)}('{p}l', '{p}_a.c', {p}_verh, include_directories: {p}_vinc)")
        P.emit(d, f"{p}_dep = declare_dependency(link_with: {p}_lib, sources: {p}_verh, include_directories: {p}_vinc)")
    P.ntargets += 3
    P.exports.append(Export(f'{p}_dep', [f'f_{p}_a'], [hm]))


BLOCKS = ['ct_header', 'generator', 'ct_chain', 'built_tool', 'libs', 'subproject', 'link_depends',
          'exe_capture', 'gensrc_inc', 'genlist_chain', 'ct_object', 'preprocess', 'configure_mix', 'pch', 'same_name']


def generate(seed: T.Any, index: int = 0, force_blocks: T.Optional[T.Sequence[str]] = None,
             force: T.Optional[T.Dict[str, T.Any]] = None) -> dict:
    """Returns {'files': {relpath: text}, 'setup_args': [...], 'features': [...], 'exes': [{name,path,stdout}],
    'blocks': [...], 'ntargets': n, 'key': structural key}."""
    rng = random.Random(f'c05:{seed}:{index}')
    P = Proj(rng)
    P.rng2 = random.Random(f'c05x:{seed}:{index}')
    P.force = dict(force or {})
    default_library = P.pick('default_library', ['static', 'static', 'shared', 'both'])
    buildtype = rng.choice(['plain', 'plain', 'debug', 'release'])
    unity = P.flip('unity', 0.15)
    P.setup_args = [f'-Ddefault_library={default_library}', f'-Dbuildtype={buildtype}']
    if unity:
        P.setup_args += ['-Dunity=on', f'-Dunity_size={rng.choice([2, 4])}']
        P.feat('unity')
    P.feat('default_library:' + default_library)
    head = ["project('c05p', 'c', default_options: ['warning_level=0'])",
            "py = find_program('python3')",
            "cc = meson.get_compiler('c')",
            "ar = find_program('ar')",
            "gen = files('tools/gen.py')",
            "gen2 = files('tools/gen2.py')",
            "runw = files('tools/run.py')",
            "gen_path = meson.project_source_root() / 'tools' / 'gen.py'",
            "root_inc = include_directories('.')"]
    P.files['tools/gen.py'] = GEN_PY
    P.files['tools/gen2.py'] = GEN2_PY
    P.files['tools/run.py'] = RUN_PY
    if force_blocks is not None:
        chosen = list(force_blocks)
    else:
        nblocks = rng.choice([1, 2, 2, 3, 3, 4])
        chosen = [rng.choice(BLOCKS) for _ in range(nblocks)]
        # blocks added in later waves replace a drawn block now and then (second stream: earlier shapes are kept)
        chosen = [('bootstrap' if P.rng2.random() < 0.08 else b) for b in chosen]
    for bi, b in enumerate(chosen):
        if P.ntargets >= 10 and bi > 0:
            chosen = chosen[:bi]
            break
        p = f'b{bi}'
        P.cur = p
        d = f'd{bi}' if P.flip('subdir', 0.5) else ''
        if b == 'ct_header':
            blk_ct_header(P, p, d)
        elif b == 'generator':
            blk_generator(P, p, d, default_library)
        elif b == 'ct_chain':
            blk_ct_chain(P, p, d)
        elif b == 'built_tool':
            blk_built_tool(P, p, d)
        elif b == 'libs':
            blk_libs(P, p, d)
        elif b == 'subproject':
            blk_subproject(P, p)
            d = ''
        elif b == 'link_depends':
            blk_link_depends(P, p, d)
        elif b == 'exe_capture':
            blk_exe_capture(P, p, d)
        elif b == 'gensrc_inc':
            blk_gensrc_inc(P, p, d)
        elif b == 'genlist_chain':
            blk_genlist_chain(P, p, d)
        elif b == 'ct_object':
            blk_ct_object(P, p, d)
        elif b == 'preprocess':
            blk_preprocess(P, p, d)
        elif b == 'configure_mix':
            blk_configure_mix(P, p, d)
        elif b == 'pch':
            blk_pch(P, p, d)
        elif b == 'same_name':
            blk_same_name(P, p, d)
        elif b == 'bootstrap':
            blk_bootstrap(P, p, d)
        else:
            raise ValueError(b)
        if d:
            P.feat('subdir')
    P.cur = ''
    # final executables
    nexe = 1 if rng.random() < 0.7 else 2
    for xi in range(nexe):
        nm = 'app' if xi == 0 else f'app{xi}'
        d = 'apps' if rng.random() < 0.4 else ''
        k = rng.randint(1, len(P.exports))
        used = rng.sample(P.exports, k) if xi == 0 and rng.random() < 0.5 else rng.sample(P.exports, min(k, 2))
        um, uc = P.use_of(used, rng)
        extra = ''
        calls = list(uc)
        if rng.random() < 0.5:
            # a second source in the executable using the generated headers too
            m2, c2 = P.use_of(used, rng)
            P.csrc(d, f'{nm}_x.c', nm + '_x', m2, c2)
            calls.append(f'f_{nm}_x')
            extra = f", '{nm}_x.c'"
        tot = sum(P.val[m] for _, m in um) + sum(P.val[c] for c in calls)
        src = ['#include <stdio.h>'] + [f'#include "{h}"' for h, _ in um] + [f'int {c}(void);' for c in calls]
        expr = ' + '.join(['0'] + [m for _, m in um] + [f'{c}()' for c in calls])
        src.append(f'int main(void) {{ printf("{nm} %d\\n", {expr}); return 0; }}')
        P.files[P.path(d, f'{nm}_main.c')] = '\n'.join(src) + '\n'
        if used and P.flip('app.partial', 0.25):
            # compile side and link side of an umbrella dependency taken apart with partial_dependency(): the generated
            # headers live in dependencies NESTED in the umbrella and must survive sources: true
            P.emit(d, f"{nm}_umb = declare_dependency(dependencies: [{', '.join(e.var for e in used)}])")
            P.emit(d, f"{nm}_cdep = {nm}_umb.partial_dependency(compile_args: true, includes: true, sources: true)")
            P.emit(d, f"{nm}_ldep = {nm}_umb.partial_dependency(link_args: true, links: true)")
            P.emit(d, f"executable('{nm}', '{nm}_main.c'{extra}, dependencies: [{nm}_cdep, {nm}_ldep])")
            P.feat('partial_dependency-sources-nested')
        elif used and P.flip('app.nested_dep', 0.3):
            # the generated headers travel through a dependency of a dependency
            P.emit(d, f"{nm}_deps = declare_dependency(dependencies: [{', '.join(e.var for e in used)}])")
            P.emit(d, f"executable('{nm}', '{nm}_main.c'{extra}, dependencies: {nm}_deps)")
            P.feat('nested-declare_dependency')
        else:
            P.emit(d, f"executable('{nm}', '{nm}_main.c'{extra}{P.deps_kw(used)})")
        P.ntargets += 1
        P.exes.append({'name': nm, 'path': P.path(d, nm), 'stdout': f'{nm} {tot}\n'})
    if 'pch:cpp' in P.features:
        head[0] = "project('c05p', 'c', 'cpp', default_options: ['warning_level=0'])"
    root = head + P.lines['']
    for d, lines in P.lines.items():
        text = '\n'.join(root if d == '' else lines) + '\n'
        P.files[P.path(d, 'meson.build')] = text
    files = dict(sorted(P.files.items()))
    feats = sorted(P.features)
    return {'files': files, 'setup_args': P.setup_args, 'features': feats, 'exes': P.exes,
            'blocks': chosen, 'ntargets': P.ntargets, 'seed': str(seed), 'index': index, 'force': P.force,
            'key': '|'.join(feats)}


if __name__ == '__main__':
    import os
    import sys
    seed = sys.argv[1] if len(sys.argv) > 1 else '0'
    idx = int(sys.argv[2]) if len(sys.argv) > 2 else 0
    out = sys.argv[3] if len(sys.argv) > 3 else None
    pr = generate(seed, idx, sys.argv[4].split(',') if len(sys.argv) > 4 else None)
    if out:
        for rel, text in pr['files'].items():
            p = os.path.join(out, rel)
            os.makedirs(os.path.dirname(p), exist_ok=True)
            with open(p, 'w') as f:
                f.write(text)
    print(pr['blocks'], pr['features'], pr['setup_args'], pr['exes'])
