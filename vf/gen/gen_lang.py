"""gen_lang -- seeded, type-directed generator of Meson core-language programs (C01; reusable by C16/C17).

Everything is driven by a random.Random; nothing here imports mesonbuild.  The generator keeps a concrete
variable environment by evaluating every chunk it emits with the reference interpreter (vf.ref.refmeson), so
* valid programs are valid *according to the documents* (a chunk the reference rejects, or whose outcome the
  documents leave open -- RefUnspecified -- is thrown away and regenerated);
* faulty programs contain exactly one fault at a known (file, line).

API
  HOSTILE_STRINGS, HOSTILE_STRING_SOURCES, INTS, KEYS      literal pools
  ProgramGen(rng, depth=3).program(n_chunks=14, multi_file=True) -> Program(files, kind='valid', n_statements)
  fault_catalog() -> [(op, variant)]; faulty_program(rng, op, variant) -> Program(files, kind='faulty', fault={'op','variant','stmt'})
  matrix_cells(rng) -> list of (label, expression_text)   every binary operator x type x type, every method
  FAULT_OPS                                               names of the single-fault mutation operators
  expression(rng, typ, env, depth) -> str                 one expression of the given type over env (for C17)
  shape_expr(rng, depth) / shape_statement(rng, depth)    type-agnostic operator soups (parse-only workloads)
  argpass_cases(rng, n_shapes) -> [(label, text)]         every method/function called with aliased variables as arguments
"""
from __future__ import annotations

import random
import typing as T

from vf.ref import refmeson as R

PROJECT_LINE = "project('p', meson_version: '>=1.10')"

# values; the generator chooses a spelling ('...' with escapes or '''...''')
HOSTILE_STRINGS = [
    '', ' ', 'a', 'abc', 'Hello World', "it's", 'back\\slash', 'tab\there', 'two\nlines', '@0@', '@x@', '@v1@',
    '@1@@0@', 'é', '漢字', '😀 ok', 'a/b', '/abs/path', 'trail/', '  padded  ', 'MiXeD', '100', '-5', '0x1f',
    '007', 'a,b,,c', 'a b  c', 'x=y', '#notcomment', "''", 'per%cent', '{braces}', '[1, 2]', 'true', '\\n', '\\',
    "\\'", '$HOME', '"dq"', 'Ünï', 'ß', 'x' * 40, 'line1\nline2\n', '\n', 'a\\', "q'", 'foo.bar-baz_1', '..',
    'A', 'Z', 'aa', 'ab', 'B', '0', '9', '10', '@', '@@', 'a@b',
]
# literal *source texts* exercising escape decoding (single quoted) and raw multiline strings
HOSTILE_STRING_SOURCES = [
    r"'\x41\101é'", r"'\U0001F600\N{BULLET}'", r"'\q\8\xZZ\u12'", r"'a\\nb'", r"'''a\nb\x41'''", r"'\''",
    r"'\\'", "'''it's'''", r"'\1234'", r"'\t|\a|\b|\f|\v|\r'", r"'\\\''", r"'''\\'''", r"'''\''''", r"'\x4'",
    r"'\N{DIGIT ONE}\61\x31'", "'''multi\nline'''", r"'é\xe9'", r"'\\x41'", r"'''@0@\t'''", r"'\7\07\007'",
]
INTS = [0, 1, 2, 3, 4, 5, 7, 8, 10, 13, 42, 100, 255, 256, 1000, 65535, 2**31 - 1, 2**31, 2**32, 2**63, 2**64, 10**18,
        10**30]
INT_SOURCES = ['0x1F', '0xff', '0o17', '0b101', '0x0', '0o0', '0b0', '0xDEADbeef', '0o777', '0b11111111']
KEYS = ['a', 'b', 'c', 'key', '', ' ', 'k k', 'é', '@0@', 'Z', 'a.b', '10', '9', 'B', "q'"]

TYPES = ['int', 'bool', 'str', 'array', 'dict']


def spell_string(rng: random.Random, v: str) -> str:
    """A literal for v: usually '...' with escapes, sometimes the raw ''' form when it can express v."""
    if rng.random() < 0.2 and "'''" not in v and not v.endswith("'") and '\r' not in v:
        return "'''" + v + "'''"
    return R.literal(v)


def lit(rng: random.Random, v: T.Any) -> str:
    t = type(v)
    if t is str:
        return spell_string(rng, v)
    if t is list:
        return '[' + ', '.join(lit(rng, x) for x in v) + (',' if v and rng.random() < 0.1 else '') + ']'
    if t is dict:
        return '{' + ', '.join(f'{lit(rng, k)}: {lit(rng, x)}' for k, x in v.items()) + '}'
    return R.literal(v)


def near(rng: random.Random, v: T.Any) -> T.Any:
    """v itself or a value differing from it in one small way (never bool<->int: that cell has its own probes)."""
    t = type(v)
    r = rng.random()
    if r < 0.25:
        return v
    if t is int:
        return v + rng.choice([1, -1])
    if t is str:
        if not v:
            return rng.choice([' ', '\n'])
        k = rng.choice(['case', 'space', 'drop', 'dup', 'lead'])
        if k == 'case' and v.swapcase() != v:
            return v.swapcase()
        if k == 'space':
            return v + ' '
        if k == 'drop':
            return v[:-1]
        if k == 'lead':
            return ' ' + v
        return v + v[-1]
    if t is list:
        if not v:
            return [[]]
        k = rng.choice(['drop', 'rev', 'dup', 'inner', 'nest'])
        if k == 'drop':
            return v[:-1]
        if k == 'rev' and len(v) > 1:
            return list(reversed(v))
        if k == 'dup':
            return v + [v[-1]]
        if k == 'nest':
            return [v]
        i = rng.randrange(len(v))
        if type(v[i]) is not bool:
            return v[:i] + [near(rng, v[i])] + v[i + 1:]
        return v + [0]
    if t is dict:
        if not v:
            return {'': {}}
        k = rng.choice(['order', 'drop', 'value', 'key'])
        keys = list(v)
        if k == 'order':
            return {x: v[x] for x in reversed(keys)}        # equal: order does not matter for ==
        if k == 'drop':
            return {x: v[x] for x in keys[:-1]}
        if k == 'key':
            return {(x + ' ' if i == 0 else x): v[x] for i, x in enumerate(keys)}
        x = rng.choice(keys)
        if type(v[x]) is not bool:
            return {**v, x: near(rng, v[x])}
        return {**v, 'extra key': 0}
    return v


class E(T.NamedTuple):
    """Expression text with its syntactic level: 9 postfix/primary, 7 unary, 6 mul, 5 add, 4 cmp, 3 and, 2 or, 1 ternary."""
    s: str
    lvl: int


def need(e: E, lvl: int) -> str:
    return e.s if e.lvl >= lvl else f'({e.s})'


class ExprGen:
    def __init__(self, rng: random.Random, env: T.Dict[str, T.Any], depth: int = 3, allow_ternary: bool = True) -> None:
        self.rng = rng
        self.env = env
        self.depth = depth
        self.in_ternary = not allow_ternary

    # ---- helpers -------------------------------------------------------------------------------
    def vars_of(self, typ: str, pred: T.Optional[T.Callable[[T.Any], bool]] = None) -> T.List[str]:
        return [k for k, v in self.env.items() if R.tname(v) == typ and (pred is None or pred(v))]

    def value(self, typ: str, d: int = 2) -> T.Any:
        """A random concrete value of the type (for literals)."""
        rng = self.rng
        if typ == 'int':
            return rng.choice(INTS) if rng.random() < 0.5 else rng.randint(0, 12)
        if typ == 'bool':
            return rng.random() < 0.5
        if typ == 'str':
            return rng.choice(HOSTILE_STRINGS)
        if typ == 'array':
            n = rng.choice([0, 0, 1, 2, 3, 4]) if d > 0 else 0
            return [self.value(rng.choice(TYPES if d > 1 else ['int', 'bool', 'str']), d - 1) for _ in range(n)]
        if typ == 'dict':
            n = rng.choice([0, 1, 2, 3]) if d > 0 else 0
            keys = rng.sample(KEYS, n)
            return {k: self.value(rng.choice(TYPES if d > 1 else ['int', 'bool', 'str']), d - 1) for k in keys}
        raise ValueError(typ)

    EMPTY = {'int': 0, 'bool': False, 'str': '', 'array': [], 'dict': {}}

    def fallback(self, typ: str) -> str:
        """Literal for a fallback argument (array.get, dict.get, get_variable, subproject.get_variable): often the
        "empty" value of the type -- 0, false, '', [], {} -- which an implementation must not confuse with
        "no fallback given"."""
        if typ == 'any':
            typ = self.rng.choice(TYPES)
        if self.rng.random() < 0.45:
            return lit(self.rng, self.EMPTY[typ])
        return lit(self.rng, self.value(typ, 1))

    def literal(self, typ: str) -> E:
        rng = self.rng
        if typ == 'int' and rng.random() < 0.15:
            return E(rng.choice(INT_SOURCES), 9)
        if typ == 'str' and rng.random() < 0.15:
            return E(rng.choice(HOSTILE_STRING_SOURCES), 9)
        v = self.value(typ)
        if typ == 'int' and rng.random() < 0.2:
            return E('-' + lit(rng, v), 7)
        return E(lit(rng, v), 9)

    def var_or_literal(self, typ: str) -> E:
        names = self.vars_of(typ)
        if names and self.rng.random() < 0.6:
            return E(self.rng.choice(names), 9)
        return self.literal(typ)

    @staticmethod
    def leaf(d: int) -> float:
        """Scale of the probability of stopping at a leaf: deeper budgets really give deeper expressions."""
        return 1.0 if d <= 3 else 0.5 if d <= 4 else 0.2

    def paren_noise(self, e: E) -> E:
        if self.rng.random() < 0.08:
            return E(f'({e.s})', 9)
        return e

    # ---- dispatcher ----------------------------------------------------------------------------
    def expr(self, typ: str, d: T.Optional[int] = None) -> E:
        d = self.depth if d is None else d
        if typ == 'any':
            typ = self.rng.choice(TYPES)
        if d <= 0:
            return self.var_or_literal(typ)
        e = getattr(self, 'g_' + typ)(d)
        return self.paren_noise(e)

    def ternary(self, typ: str, d: int) -> E:
        # never inside a ternary branch/condition (forbidden); the flag is lexical, like the rule
        self.in_ternary = True
        try:
            c = self.expr('bool', d - 1)
            a = self.expr(typ, d - 1)
            b = self.expr(typ, d - 1)
        finally:
            self.in_ternary = False
        return E(f'{need(c, 2)} ? {need(a, 2)} : {need(b, 2)}', 1)

    def maybe_ternary(self, typ: str, d: int) -> T.Optional[E]:
        if not self.in_ternary and self.rng.random() < 0.08:
            return self.ternary(typ, d)
        return None

    def element_access(self, typ: str) -> T.Optional[E]:
        """arr[i] / dict['k'] / .get() yielding a value of the wanted type, from variables in env."""
        rng = self.rng
        cands: T.List[str] = []
        for name, v in self.env.items():
            if type(v) is list:
                for i, x in enumerate(v):
                    if R.tname(x) == typ:
                        idx = i if rng.random() < 0.6 else i - len(v)
                        cands.append(f'{name}[{idx}]')
                        cands.append(f'{name}.get({idx})')
                        cands.append(f'{name}.get({idx}, {self.fallback(typ)})')
            elif type(v) is dict:
                for k, x in v.items():
                    if R.tname(x) == typ:
                        cands.append(f'{name}[{lit(rng, k)}]')
                        cands.append(f'{name}.get({lit(rng, k)})')
                        cands.append(f'{name}.get({lit(rng, k)}, {self.fallback(typ)})')
        if rng.random() < 0.3:
            # fallback paths: index out of range / missing key with a fallback value
            arrs = self.vars_of('array')
            dicts = self.vars_of('dict')
            fb = self.fallback(typ)
            if arrs:
                a = rng.choice(arrs)
                cands.append(f'{a}.get({len(self.env[a]) + rng.randint(0, 3)}, {fb})')
                cands.append(f'{a}.get({-len(self.env[a]) - 1}, {fb})')
            if dicts:
                cands.append(f"{rng.choice(dicts)}.get('missing key', {fb})")
        if not cands:
            return None
        return E(rng.choice(cands), 9)

    def get_variable(self, typ: str) -> T.Optional[E]:
        names = self.vars_of(typ)
        if names and self.rng.random() < 0.5:
            return E(f"get_variable('{self.rng.choice(names)}')", 9)
        if self.rng.random() < 0.5:
            return E(f"get_variable('no_such_var', {self.fallback(typ)})", 9)
        return None

    def common(self, typ: str, d: int) -> T.Optional[E]:
        r = self.rng.random()
        if r < 0.08:
            return self.maybe_ternary(typ, d)
        if r < 0.16:
            return self.element_access(typ)
        if r < 0.20:
            return self.get_variable(typ)
        if r < 0.20 + 0.10 * self.leaf(d):
            return self.var_or_literal(typ)
        return None

    # ---- int -----------------------------------------------------------------------------------
    def int_operand(self, d: int) -> E:
        """unary level or tighter"""
        rng = self.rng
        r = rng.random()
        if d <= 0 or r < 0.4 * self.leaf(d):
            return self.var_or_literal('int')
        if r < 0.5:
            x = self.expr('int', d - 1)
            return E('-' + need(x, 9), 7)
        if r < 0.6:
            return E('(' + self.int_chain(d - 1).s + ')', 9)
        if r < 0.7:
            return E(need(self.expr('array', d - 1), 9) + '.length()', 9)
        if r < 0.75:
            return E(need(self.expr('bool', d - 1), 9) + '.to_int()', 9)
        if r < 0.82:
            return E(lit(rng, str(rng.choice([0, 7, 42, -3, 100, 2**40]))) + '.to_int()', 9)
        if r < 0.88:
            lo = rng.randint(0, 5)
            hi = lo + rng.randint(1, 9)
            step = rng.randint(1, 3)
            n = len(range(lo, hi, step))
            i = rng.randint(-n, n - 1)
            return E(f'range({lo}, {hi}, {step})[{i}]', 9)
        e = self.element_access('int')
        return e if e is not None else self.var_or_literal('int')

    def int_chain(self, d: int) -> E:
        rng = self.rng
        n = rng.randint(2, 4)
        parts = [self.int_operand(d) for _ in range(n)]
        ops = [rng.choice(['+', '-', '*', '/', '%', '+', '-', '*']) for _ in range(n - 1)]
        # optional grouping of a contiguous sub-range with parentheses
        toks = [need(parts[0], 7)]
        for op, p in zip(ops, parts[1:]):
            toks += [op, need(p, 7)]
        if n >= 3 and rng.random() < 0.4:
            i = 2 * rng.randint(0, n - 2)
            toks[i] = '(' + toks[i]
            toks[i + 2] = toks[i + 2] + ')'
        lvl = 5 if any(o in '+-' for o in ops) else 6
        return E(' '.join(toks), lvl)

    def g_int(self, d: int) -> E:
        c = self.common('int', d)
        if c is not None:
            return c
        if self.rng.random() < 0.7:
            return self.int_chain(d)
        return self.int_operand(d)

    # ---- bool ----------------------------------------------------------------------------------
    def comparison(self, d: int) -> E:
        rng = self.rng
        r = rng.random()
        if r < 0.35:
            op = rng.choice(['<', '<=', '>', '>=', '==', '!='])
            a, b = self.expr('int', d - 1), self.expr('int', d - 1)
            return E(f'{need(a, 5)} {op} {need(b, 5)}', 4)
        if r < 0.6:
            typ = rng.choice(['str', 'bool', 'array', 'dict', 'str', 'int'])
            op = rng.choice(['==', '!='])
            if rng.random() < 0.35 and typ != 'bool':
                # near miss: the right operand is the left value, or that value changed in one small way
                v = self.value(typ)
                w = near(rng, v)
                a = E(lit(rng, v), 9 if not (typ == 'int' and v < 0) else 7)
                b = E(lit(rng, w), 9 if not (typ == 'int' and w < 0) else 7)
                return E(f'{need(a, 5)} {op} {need(b, 5)}', 4)
            a = self.expr(typ, d - 1)
            b = a if rng.random() < 0.3 else self.expr(typ, d - 1)
            return E(f'{need(a, 5)} {op} {need(b, 5)}', 4)
        op = rng.choice(['in', 'not in'])
        r = rng.random()
        if r < 0.5:
            arrs = self.vars_of('array', lambda v: len(v) > 0)
            if arrs and rng.random() < 0.6:
                name = rng.choice(arrs)
                x = rng.choice(self.env[name])
                item = E(lit(rng, x), 9) if not (type(x) is int and x < 0) else E(lit(rng, x), 7)
                return E(f'{need(item, 5)} {op} {name}', 4)
            t = rng.choice(TYPES)
            return E(f'{need(self.expr(t, d - 1), 5)} {op} {need(self.expr("array", d - 1), 5)}', 4)
        if r < 0.75:
            dicts = self.vars_of('dict', lambda v: len(v) > 0)
            if dicts and rng.random() < 0.6:
                name = rng.choice(dicts)
                return E(f'{lit(rng, rng.choice(list(self.env[name])))} {op} {name}', 4)
            return E(f'{need(self.expr("str", d - 1), 5)} {op} {need(self.expr("dict", d - 1), 5)}', 4)
        return E(f'{need(self.expr("str", d - 1), 5)} {op} {need(self.expr("str", d - 1), 5)}', 4)

    def bool_atom(self, d: int) -> E:
        """cmp level or tighter"""
        rng = self.rng
        r = rng.random()
        if d <= 0 or r < 0.25 * self.leaf(d):
            return self.var_or_literal('bool')
        if r < 0.55:
            return self.comparison(d)
        if r < 0.65:
            x = self.bool_postfix(d - 1)
            return E('not ' + x.s, 7)
        if r < 0.72:
            return E('(' + self.bool_chain(d - 1).s + ')', 9)
        return self.bool_postfix(d)

    def bool_postfix(self, d: int) -> E:
        rng = self.rng
        r = rng.random()
        if d <= 0 or r < 0.2:
            names = self.vars_of('bool')
            if names:
                return E(rng.choice(names), 9)
            return E(rng.choice(['true', 'false']), 9)
        if r < 0.3:
            return E(need(self.expr('int', d - 1), 9) + rng.choice(['.is_even()', '.is_odd()']), 9)
        if r < 0.5:
            s = self.expr('str', d - 1)
            m = rng.choice(['contains', 'startswith', 'endswith'])
            return E(f'{need(s, 9)}.{m}({self.expr("str", d - 1).s})', 9)
        if r < 0.62:
            a = self.expr('array', d - 1)
            return E(f'{need(a, 9)}.contains({self.expr("any", d - 1).s})', 9)
        if r < 0.74:
            dd = self.expr('dict', d - 1)
            return E(f'{need(dd, 9)}.has_key({self.expr("str", d - 1).s})', 9)
        if r < 0.86:
            name = rng.choice(list(self.env) + ['no_such_var']) if self.env else 'no_such_var'
            return E(f"is_variable('{name}')", 9)
        return E('(' + self.bool_chain(d - 1).s + ')', 9)

    def bool_chain(self, d: int) -> E:
        rng = self.rng
        n = rng.randint(2, 4)
        parts = [self.bool_atom(d) for _ in range(n)]
        ops = [rng.choice(['and', 'or']) for _ in range(n - 1)]
        toks = [need(parts[0], 4)]
        for op, p in zip(ops, parts[1:]):
            toks += [op, need(p, 4)]
        if n >= 3 and rng.random() < 0.3:
            i = 2 * rng.randint(0, n - 2)
            toks[i] = '(' + toks[i]
            toks[i + 2] = toks[i + 2] + ')'
        return E(' '.join(toks), 2 if 'or' in ops else 3)

    def g_bool(self, d: int) -> E:
        c = self.common('bool', d)
        if c is not None:
            return c
        r = self.rng.random()
        if r < 0.5:
            return self.bool_chain(d)
        return self.bool_atom(d)

    # ---- str -----------------------------------------------------------------------------------
    def str_method(self, d: int) -> E:
        rng = self.rng
        s = self.expr('str', d - 1)
        recv = need(s, 9)
        m = rng.choice(['to_upper', 'to_lower', 'strip', 'strip1', 'replace', 'substring', 'underscorify', 'join',
                        'joinv', 'format', 'index', 'int_to_string', 'bool_to_string', 'fill'])
        if m in ('to_upper', 'to_lower', 'underscorify', 'strip'):
            return E(f'{recv}.{m}()', 9)
        if m == 'strip1':
            return E(f'{recv}.strip({lit(rng, rng.choice(["a", "xy", " ", "ab ", "/", "@", "l", "0"]))})', 9)
        if m == 'replace':
            old = rng.choice(['a', 'b', ' ', 'l', '@0@', '/', 'ab', "'", '\\', 'é', '0'])
            return E(f'{recv}.replace({lit(rng, old)}, {self.expr("str", d - 1).s})', 9)
        if m == 'substring':
            args = [str(rng.randint(-6, 8)) for _ in range(rng.randint(0, 2))]
            return E(f'{recv}.substring({", ".join(args)})', 9)
        if m == 'join':
            arrs = self.vars_of('array', lambda v: all(type(x) is str for x in v))
            if arrs and rng.random() < 0.5:
                return E(f'{recv}.join({rng.choice(arrs)})', 9)
            items = [self.expr('str', d - 1).s for _ in range(rng.randint(0, 3))]
            return E(f'{recv}.join([{", ".join(items)}])', 9)
        if m == 'joinv':
            items = [self.expr('str', d - 1).s for _ in range(rng.randint(2, 3))]
            return E(f'{recv}.join({", ".join(items)})', 9)
        if m == 'format':
            n = rng.randint(1, 3)
            tmpl = ''.join(rng.choice(['@0@', '@1@', '@2@', ' ', 'x', '@', '@x@', '-', '@0@'])
                           for _ in range(rng.randint(1, 5)))
            tmpl = tmpl.replace('@1@', '@0@') if n < 2 else tmpl
            tmpl = tmpl.replace('@2@', '@0@') if n < 3 else tmpl
            args = [self.expr(rng.choice(TYPES), d - 1).s for _ in range(n)]
            return E(f'{lit(rng, tmpl)}.format({", ".join(args)})', 9)
        if m == 'index':
            names = self.vars_of('str', lambda v: len(v) > 0)
            if names:
                name = rng.choice(names)
                n = len(self.env[name])
                return E(f'{name}[{rng.randint(-n, n - 1)}]', 9)
            return E("'hostile'[" + str(rng.randint(-7, 6)) + ']', 9)
        if m == 'int_to_string':
            return E(need(self.expr('int', d - 1), 9) + '.to_string()', 9)
        if m == 'fill':
            v = rng.choice([0, 5, 42, 123456, -5, -42])
            src = f'({R.literal(v)})' if v < 0 else str(v)
            if v >= 0 and rng.random() < 0.3:
                return E(f"{src}.to_string(format: '{rng.choice(['hex', 'oct', 'bin', 'dec'])}')", 9)
            return E(f'{src}.to_string(fill: {rng.randint(0, 8)})', 9)
        b = need(self.expr('bool', d - 1), 9)
        if rng.random() < 0.5:
            return E(b + '.to_string()', 9)
        yes, no = rng.choice(['yes', 'Y', 'on', 'true', '1']), rng.choice(['no', 'N', 'off', 'false', '0'])
        return E(f"{b}.to_string('{yes}', '{no}')", 9)

    def fstring(self) -> T.Optional[E]:
        rng = self.rng
        names = [k for k, v in self.env.items() if R.tname(v) in TYPES]
        if not names:
            return None
        parts = []
        for _ in range(rng.randint(1, 4)):
            r = rng.random()
            if r < 0.55:
                parts.append('@' + rng.choice(names) + '@')
            elif r < 0.7:
                parts.append(rng.choice(['@ ', '@0@', '@@', ' @', '@ x@', '@1x@']))
            else:
                parts.append(rng.choice(['a', ' ', '-', 'é', 'x=', ': ', '\\n', '\\t', "\\'"]))
        body = ''.join(parts)
        if rng.random() < 0.3:
            # f'''...''' is a raw string too: backslash sequences stay, only @name@ is replaced
            raw = body.replace("\\'", "'") + rng.choice(['', '\\n', '\\t\\x41', '\\\\', '\n', "\\'q", '\\101\\u00e9'])
            if "'''" not in raw and not raw.endswith("'"):
                return E(f"f'''{raw}'''", 9)
        return E(f"f'{body}'", 9)

    def g_str(self, d: int) -> E:
        c = self.common('str', d)
        if c is not None:
            return c
        rng = self.rng
        r = rng.random()
        if r < 0.3:
            n = rng.randint(2, 3)
            parts = [need(self.expr('str', d - 1), 6) for _ in range(n)]
            return E(' + '.join(parts), 5)
        if r < 0.4:
            segs = [rng.choice(['usr', 'lib', 'a b', 'é', 'share/doc', 'x.y', '/opt', '/', 'inc/', 'b']) for _ in range(rng.randint(2, 3))]
            return E(' / '.join(lit(rng, s) for s in segs), 6)
        if r < 0.5:
            f = self.fstring()
            if f is not None:
                return f
        if r < 0.9:
            return self.str_method(d)
        return self.var_or_literal('str')

    # ---- array ---------------------------------------------------------------------------------
    def g_array(self, d: int) -> E:
        c = self.common('array', d)
        if c is not None:
            return c
        rng = self.rng
        r = rng.random()
        if r < 0.3:
            items = [self.expr('any', d - 1) for _ in range(rng.choice([0, 1, 2, 3]))]
            return E('[' + ', '.join(x.s for x in items) + ']', 9)
        if r < 0.5:
            parts = [need(self.expr('array', d - 1), 6) for _ in range(rng.randint(2, 3))]
            return E(' + '.join(parts), 5)
        if r < 0.6:
            s = need(self.expr('str', d - 1), 9)
            if rng.random() < 0.5:
                return E(f'{s}.split({lit(rng, rng.choice([" ", ",", "a", "/", "ab", "@", "l", "\n"]))})', 9)
            return E(rng.choice([lit(rng, 'a b   c d '), lit(rng, ' x\ny  z'), s]) + '.split()', 9)
        if r < 0.66:
            return E(lit(rng, rng.choice(['a\nb\n', '', 'one', 'a\r\nb\rc\n', '\n\n', 'x\n\ny'])) + '.splitlines()', 9)
        if r < 0.76:
            dd = need(self.expr('dict', d - 1), 9)
            return E(dd + rng.choice(['.keys()', '.values()']), 9)
        if r < 0.88:
            a = need(self.expr('array', d - 1), 9)
            k = rng.random()
            if k < 0.3:
                return E(f'{a}.slice()', 9)
            if k < 0.6:
                return E(f'{a}.slice({rng.randint(-4, 4)}, {rng.randint(-4, 5)})', 9)
            if k < 0.8:
                return E(f'{a}.slice(step: {rng.choice([1, 2, -1, -2, 3])})', 9)
            return E(f'{a}.slice({rng.randint(-4, 4)}, {rng.randint(-4, 5)}, step: {rng.choice([1, 2, -1, -2])})', 9)
        if r < 0.95:
            return E(need(self.expr('array', d - 1), 9) + '.flatten()', 9)
        return self.var_or_literal('array')

    # ---- dict ----------------------------------------------------------------------------------
    def g_dict(self, d: int) -> E:
        c = self.common('dict', d)
        if c is not None:
            return c
        rng = self.rng
        r = rng.random()
        if r < 0.45:
            n = rng.choice([0, 1, 2, 3])
            keys = rng.sample(KEYS, n)
            ents = []
            for k in keys:
                ks = lit(rng, k)
                if rng.random() < 0.2 and len(k) > 0:
                    ks = f'{lit(rng, k[:1])} + {lit(rng, k[1:])}'   # keys can be any expression giving a string
                ents.append(f'{ks}: {self.expr("any", d - 1).s}')
            return E('{' + ', '.join(ents) + '}', 9)
        if r < 0.85:
            parts = [need(self.expr('dict', d - 1), 6) for _ in range(rng.randint(2, 3))]
            return E(' + '.join(parts), 5)
        return self.var_or_literal('dict')


def expression(rng: random.Random, typ: str, env: T.Dict[str, T.Any], depth: int = 3) -> str:
    return ExprGen(rng, env, depth).expr(typ).s


# ------------------------------------------------------------------------------------------------------
# type-agnostic expression shapes (parse-only workloads: precedence, associativity, grouping)

_SHAPE_BIN = ['or', 'and', '==', '!=', '<', '<=', '>', '>=', 'in', 'not in', '+', '-', '*', '/', '%']
_SHAPE_ATOMS = ['a', 'b', 'c', '1', '2', '0x1F', '0o17', '0b101', 'true', 'false', "'s'", "'''m'''", "f'@a@'", '[]', '{}',
                r"'e\t\x41\101\\\''", r"'''r\t\x41\\'''", r"f'@a@\t\x41'", r"f'''@a@\t\x41\\'''", "f'''two\nlines @a@'''"]


def shape_expr(rng: random.Random, d: int) -> str:
    """A random expression text built without regard to types; operators are written WITHOUT protective
    parentheses, so the text may also be one the grammar rejects (chained comparison, stacked unary,
    nested ternary) -- the caller asks the reference."""
    r = rng.random()
    if d <= 0 or r < 0.22:
        return rng.choice(_SHAPE_ATOMS)
    if r < 0.62:
        return f'{shape_expr(rng, d - 1)} {rng.choice(_SHAPE_BIN)} {shape_expr(rng, d - 1)}'
    if r < 0.70:
        return f'{rng.choice(["not ", "-", "- "])}{shape_expr(rng, d - 1)}'
    if r < 0.78:
        return f'({shape_expr(rng, d - 1)})'
    if r < 0.83:
        return f'{shape_expr(rng, d - 1)} ? {shape_expr(rng, d - 1)} : {shape_expr(rng, d - 1)}'
    if r < 0.88:
        return f'{shape_expr(rng, d - 1)}.m({", ".join(shape_expr(rng, d - 2) for _ in range(rng.randint(0, 2)))})'
    if r < 0.92:
        return f'{shape_expr(rng, d - 1)}[{shape_expr(rng, d - 1)}]'
    if r < 0.95:
        kw = f', k: {shape_expr(rng, d - 2)}' if rng.random() < 0.4 else ''
        return f'f({shape_expr(rng, d - 1)}{kw})'
    if r < 0.98:
        return '[' + ', '.join(shape_expr(rng, d - 1) for _ in range(rng.randint(1, 3))) + ']'
    return "{'k': " + shape_expr(rng, d - 1) + '}'


def shape_statement(rng: random.Random, d: int = 4) -> str:
    e = shape_expr(rng, d)
    r = rng.random()
    if r < 0.5:
        return f'x = {e}\n'
    if r < 0.6:
        return f'x += {e}\n'
    if r < 0.75:
        return f'if {e}\n  y = {shape_expr(rng, 2)}\nelif {shape_expr(rng, 2)}\nelse\n  z = 1\nendif\n'
    if r < 0.85:
        return f'foreach i : {e}\n  continue\nendforeach\n'
    return e + '\n'


# ------------------------------------------------------------------------------------------------------
# programs

def break_line(rng: random.Random, expr: str, tok: str, repl: str) -> str:
    """Replace one occurrence of the operator token `tok` (never text inside a string) by `repl`; ',' only when
    it is inside brackets (a newline there is not a statement end)."""
    try:
        toks = R.tokenize(expr, trivia=True)
    except R.RefError:
        return expr
    depth = 0
    cands = []
    for t in toks:
        if t.kind in ('(', '[', '{'):
            depth += 1
        elif t.kind in (')', ']', '}'):
            depth -= 1
        elif t.kind == tok and (tok != ',' or depth > 0):
            cands.append(t)
    if not cands:
        return expr
    t = rng.choice(cands)
    return expr[:t.pos] + repl + expr[t.pos + len(t.text):].lstrip(' ')


class Program(T.NamedTuple):
    files: T.Dict[str, str]
    kind: str                 # 'valid' | 'faulty' | 'consistency'
    n_statements: int
    fault: T.Optional[dict]
    label: str


MAX_VALUE_TEXT = 3000      # generated programs keep every value small (no exponential growth through loops)


def _size(v: T.Any) -> int:
    t = type(v)
    if t is str:
        return len(v) + 2
    if t is list:
        return 2 + sum(_size(x) for x in v)
    if t is dict:
        return 2 + sum(len(k) + 4 + _size(x) for k, x in v.items())
    if t is int:
        return len(str(v)) if abs(v) < 10 ** 400 else 10 ** 6
    return 8


def ref_exec(chunk: str, env: T.Dict[str, T.Any], extra_files: T.Optional[T.Dict[str, str]] = None) -> R.Outcome:
    files = {'meson.build': "project('x')\n" + chunk}
    if extra_files:
        files.update(extra_files)
    ev = R.Evaluator(files, env=dict(env))
    ev.max_steps = 20000
    ev.max_value_len = 4 * MAX_VALUE_TEXT
    out = ev.run()
    if out.ok and (any(_size(v) > MAX_VALUE_TEXT for v in out.variables.values())
                   or sum(len(m) for _, m in out.messages) > 20000):
        out.error = R.RefUnspecified('generated values too large (generator limit)')
    return out


class ProgramGen:
    def __init__(self, rng: random.Random, depth: int = 3) -> None:
        self.rng = rng
        self.depth = depth
        self.env: T.Dict[str, T.Any] = {}
        self.counter = 0
        self.n_statements = 0
        self.reuse_names = True       # an assignment may overwrite an existing variable (with any type)
        # optional veto of an accepted chunk: extra_check(files_of_the_chunk_as_a_program, env) -> bool
        self.extra_check: T.Optional[T.Callable[[T.Dict[str, str], T.Dict[str, T.Any]], bool]] = None

    def fresh(self, prefix: str = 'v') -> str:
        self.counter += 1
        return f'{prefix}{self.counter}'

    def eg(self, env: T.Optional[T.Dict[str, T.Any]] = None) -> ExprGen:
        return ExprGen(self.rng, self.env if env is None else env, self.depth)

    # Each chunk_* returns (main_text, extra_files) -- text appended to the current file.
    def chunk_assign(self) -> T.Tuple[str, T.Dict[str, str]]:
        rng = self.rng
        typ = rng.choice(TYPES)
        name = self.fresh() if (rng.random() < 0.8 or not self.env or not self.reuse_names) else rng.choice(list(self.env))
        e = self.eg().expr(typ).s
        r = rng.random()
        if r < 0.06:
            e = break_line(rng, e, ',', ',\n    ')         # a statement running over several lines inside brackets
        elif r < 0.10:
            e = break_line(rng, e, '+', '+ \\\n    ')       # explicit line continuation
        elif r < 0.13:
            e = break_line(rng, e, ',', ', # note\n    ')   # a comment inside a bracketed expression
        return f'{name} = {e}\n' + self.observe(name), {}

    def observe(self, name: str, rng_alt: bool = True) -> str:
        """message + in-language assert of a variable (the assert literal is filled by finalize())."""
        trail = self.rng.choice(['', '', '', '', " # trailing 'comment'", '  #x'])
        return f"message('{name}', {name}){trail}\n##ASSERT {name}\n"

    def chunk_plusassign(self) -> T.Tuple[str, T.Dict[str, str]]:
        rng = self.rng
        cands = [k for k, v in self.env.items() if R.tname(v) in ('int', 'str', 'array', 'dict')]
        if not cands:
            return self.chunk_assign()
        name = rng.choice(cands)
        t = R.tname(self.env[name])
        if t == 'array' and rng.random() < 0.5:
            e = self.eg().expr(rng.choice(['int', 'bool', 'str', 'dict'])).s   # single item appended
        else:
            e = self.eg().expr(t).s
        return f'{name} += {e}\n' + self.observe(name), {}

    def chunk_alias(self) -> T.Tuple[str, T.Dict[str, str]]:
        """y = x; change y; x must be unchanged (immutability)."""
        rng = self.rng
        cands = [k for k, v in self.env.items() if R.tname(v) in ('array', 'dict', 'str', 'int')]
        if not cands:
            return self.chunk_assign()
        x = rng.choice(cands)
        t = R.tname(self.env[x])
        y = self.fresh('al')
        how = rng.choice(['assign', 'set_variable', 'array', 'dict', 'get_variable'])
        if how == 'assign':
            first = f'{y} = {x}\n'
        elif how == 'set_variable':
            first = f"set_variable('{y}', {x})\n"
        elif how == 'get_variable':
            first = f"{y} = get_variable('{x}')\n"
        elif how == 'array':
            first = f'{y} = [{x}, {x}]\n'
            t = 'array'
        else:
            first = f"{y} = {{'p': {x}, 'q': {x}}}\n"
            t = 'dict'
        if t == 'array':
            e = rng.choice(['[]', '[1]', "'s'", '[[2]]', 'true', x if R.tname(self.env[x]) == 'array' else '[0]'])
        elif t == 'dict':
            e = rng.choice(['{}', "{'p': 0}", "{'zz': [1]}"])
        else:
            e = self.eg().expr(t, 1).s
        return (first + f'{y} += {e}\n' + f"message('{x}', {x}, '{y}', {y})\n##ASSERT {x}\n##ASSERT {y}\n"), {}

    def body(self, n: int, indent: str, loopvars: T.Dict[str, T.Any], in_loop: bool, nest: int = 2) -> str:
        """Statements for an if/foreach body; loop variables are visible with sample values."""
        rng = self.rng
        env = dict(self.env)
        env.update(loopvars)
        out = []
        for _ in range(n):
            r = rng.random()
            eg = ExprGen(rng, env, max(1, self.depth - 1))
            if nest > 0 and rng.random() < 0.18:
                # nested control flow: if inside foreach, foreach inside if, ...
                if rng.random() < 0.5:
                    blk = f'{indent}if {eg.expr("bool", 2).s}\n' + self.body(rng.randint(1, 2), indent + '  ', loopvars, in_loop, nest - 1)
                    if rng.random() < 0.5:
                        blk += f'{indent}else\n' + self.body(1, indent + '  ', loopvars, in_loop, nest - 1)
                    out.append(blk + f'{indent}endif\n')
                else:
                    v = self.fresh('n')
                    src = rng.choice([f'range({rng.randint(0, 3)})', eg.expr('array', 1).s, '[1, 2, 3]'])
                    lv = dict(loopvars)
                    lv[v] = 0
                    out.append(f'{indent}foreach {v} : {src}\n' + self.body(rng.randint(1, 2), indent + '  ', lv, True, nest - 1)
                               + f'{indent}endforeach\n')
                continue
            if r < 0.35:
                out.append(f"{indent}message({', '.join(eg.expr('any', 1).s for _ in range(rng.randint(1, 3)))})\n")
            elif r < 0.7 or not in_loop:
                accs = [k for k, v in self.env.items() if R.tname(v) in ('array', 'str', 'int', 'dict')]
                if accs and rng.random() < 0.7:
                    a = rng.choice(accs)
                    t = R.tname(self.env[a])
                    if t == 'array':
                        lv = [k for k in loopvars]
                        e = rng.choice(lv) if lv and rng.random() < 0.7 else eg.expr('any', 1).s
                        if lv and R.tname(loopvars[lv[0]]) == 'array' and rng.random() < 0.5:
                            e = f'[{e}]'
                        out.append(f'{indent}{a} += {e}\n')
                    else:
                        out.append(f'{indent}{a} += {eg.expr(t, 1).s}\n')
                else:
                    nm = self.fresh('w')
                    out.append(f'{indent}{nm} = {eg.expr("any", 2).s}\n')
            elif r < 0.85:
                c = eg.expr('bool', 2).s
                out.append(f'{indent}if {c}\n{indent}  {rng.choice(["continue", "break"])}\n{indent}endif\n')
            else:
                out.append(f"{indent}message(f'{''.join('@' + k + '@ ' for k in loopvars)}')\n")
        return ''.join(out)

    def chunk_if(self) -> T.Tuple[str, T.Dict[str, str]]:
        rng = self.rng
        eg = self.eg()
        s = f'if {eg.expr("bool").s}\n' + self.body(rng.randint(1, 2), '  ', {}, False)
        for _ in range(rng.choice([0, 0, 1, 2])):
            s += f'elif {eg.expr("bool").s}\n' + self.body(rng.randint(1, 2), '  ', {}, False)
        if rng.random() < 0.6:
            s += 'else\n' + self.body(rng.randint(1, 2), '  ', {}, False)
        s += 'endif\n'
        return s, {}

    def chunk_foreach(self) -> T.Tuple[str, T.Dict[str, str]]:
        rng = self.rng
        eg = self.eg()
        kind = rng.choice(['array', 'dict', 'range', 'array', 'dict'])
        if kind == 'array':
            it = eg.expr('array', 2).s
            v = self.fresh('it')
            try:
                val = R.evaluate_expression(it, self.env)
            except R.RefError:
                val = []
            sample = {v: (val[0] if val else 0)}
            head = f'foreach {v} : {it}\n'
        elif kind == 'dict':
            it = eg.expr('dict', 2).s
            k, v = self.fresh('k'), self.fresh('it')
            try:
                val = R.evaluate_expression(it, self.env)
            except R.RefError:
                val = {}
            sample = {k: 'k', v: (next(iter(val.values())) if val else 0)}
            head = f'foreach {k}, {v} : {it}\n'
        else:
            v = self.fresh('i')
            lo = rng.randint(0, 3)
            args = rng.choice([f'{rng.randint(0, 6)}', f'{lo}, {lo + rng.randint(0, 6)}',
                               f'{lo}, {lo + rng.randint(0, 12)}, {rng.randint(1, 4)}'])
            sample = {v: 0}
            head = f'foreach {v} : range({args})\n'
        acc = self.fresh('acc')
        pre = f'{acc} = []\n'
        self.env[acc] = []
        body = self.body(rng.randint(1, 3), '  ', sample, True)
        lv = list(sample)
        body += f'  {acc} += [{lv[-1]}]\n' if rng.random() < 0.7 else f'  {acc} += [[{", ".join(lv)}]]\n'
        del self.env[acc]
        return pre + head + body + 'endforeach\n' + self.observe(acc), {}

    def chunk_variables(self) -> T.Tuple[str, T.Dict[str, str]]:
        rng = self.rng
        name = self.fresh('sv')
        e = self.eg().expr('any').s
        spelled = f"'{name}'" if rng.random() < 0.6 else f"'{name[:1]}' + '{name[1:]}'"
        s = f"set_variable({spelled}, {e})\n" + self.observe(name)
        s += (f"message(is_variable('{name}'), get_variable('{name}', {self.eg().fallback('any')}), "
              f"get_variable('un' + 'set_{name}', {self.eg().fallback('any')}))\n")
        if rng.random() < 0.6:
            s += f"unset_variable('{name}')\nmessage(is_variable('{name}'), get_variable('{name}', 'gone'))\n"
            if rng.random() < 0.5:
                s += f"{name} = {self.eg().expr('any', 1).s}\n" + self.observe(name)
        return s, {}

    def chunk_exprstmt(self) -> T.Tuple[str, T.Dict[str, str]]:
        """A bare expression as a statement (its value is dropped), then something observable."""
        e = self.eg().expr('any', 2).s
        return f'{e}\n' + self.chunk_message()[0], {}

    def chunk_torture(self) -> T.Tuple[str, T.Dict[str, str]]:
        """Immutability under a random sequence of +=, captures (plain, get_variable, set_variable, inside
        containers) and self-modifying loops on a few container variables; everything is observed only at the
        end, so that no read in between hides a shared object."""
        rng = self.rng
        names = [self.fresh('t') for _ in range(3)]
        first = rng.choice(["[]", "[1]", "['a', 'b']", "[[1], [2]]", "{}", "{'a': 1}", "{'a': [1], 'b': {}}"])
        lines = [f'{names[0]} = {first}']
        env = ref_exec(lines[0] + '\n', self.env).variables
        for _ in range(rng.randint(4, 9)):
            defined = [n for n in names if n in env]
            b = rng.choice(defined)
            kind = R.tname(env[b])
            op = rng.choice(['pluseq', 'pluseq', 'capture', 'capture', 'loop'])
            if op == 'pluseq' and kind == 'array':
                new = f"{b} += {rng.choice(['[9]', '[]', 'true', chr(39) + 's' + chr(39), '[[8]]', b, '[' + b + ']', '{}'])}"
            elif op == 'pluseq' and kind == 'dict':
                new = f"{b} += {rng.choice(['{}', '{' + chr(39) + 'z' + chr(39) + ': 0}', '{' + chr(39) + 'a' + chr(39) + ': [7]}', b])}"
            elif op == 'loop' and kind == 'array' and len(env[b]) <= 4:
                new = f'foreach q : {b}\n  {b} += [q]\nendforeach'
            elif op == 'loop' and kind == 'dict' and len(env[b]) <= 4:
                new = f"foreach k, q : {b}\n  {b} += {{k + k: q}}\nendforeach"
            else:
                a = rng.choice(names)
                new = rng.choice([
                    f'{a} = {b}', f"{a} = get_variable('{b}')", f"set_variable('{a}', {b})",
                    f"set_variable('{a}', get_variable('{b}'))", f'{a} = [{b}][0]', f"{a} = {{'k': {b}}}['k']",
                    f'{a} = true ? {b} : {b}', f"{a} = [{b}, get_variable('{b}')]", f"{a} = {{'k': get_variable('{b}')}}",
                    f"{a} = get_variable('no_such_var', {b})", f"{a} = [get_variable('{b}')]"])
            o = ref_exec('\n'.join(lines + [new]) + '\n', self.env)
            if o.ok:
                lines.append(new)
                env = o.variables
        defined = [n for n in names if n in env]
        tail = 'message(' + ', '.join(f"'{n}', {n}" for n in defined) + ')\n' + ''.join(f'##ASSERT {n}\n' for n in defined)
        return '\n'.join(lines) + '\n' + tail, {}

    def chunk_nearmiss(self) -> T.Tuple[str, T.Dict[str, str]]:
        """Equality / membership between a value and a near miss of it (one element changed, reordered,
        other case, one blank more ...): where sloppy comparison semantics show."""
        rng = self.rng
        eg = self.eg()
        typ = rng.choice(['int', 'str', 'array', 'dict', 'array', 'dict'])
        v = eg.value(typ)
        for _ in range(6):
            if typ in ('array', 'dict') and len(v) < 2:
                v = eg.value(typ)
        w = near(rng, v)
        a, b = lit(rng, v), lit(rng, w)
        if typ == 'int':
            a, b = (f'({a})' if v < 0 else a), (f'({b})' if w < 0 else b)
        forms = [f'{a} == {b}', f'{a} != {b}', f'{b} == {a}', f'{a} in [{b}]', f'{a} not in [{b}, {b}]', f'[{b}].contains({a})',
                 f'[{a}] == [{b}]', f"{{'k': {a}}} == {{'k': {b}}}"]
        if typ == 'str':
            forms += [f'{a} in {b}', f'{b}.contains({a})', f'{b}.startswith({a})', f'{a}.endswith({b})',
                      f"{a} in {{{b}: 1}}", f"{{{b}: 1}}.has_key({a})"]
        name = self.fresh('nm')
        picks = rng.sample(forms, 3)
        return f"{name} = [{', '.join(picks)}]\n" + self.observe(name), {}

    LOOKALIKES = ['@0@', '@1@', '@2@', '@3@', '@9@', '@00@', '@01@', '@x@', '@@', '@', '0@', '@1', 'a@0@b', '@1@@0@', '@2@1@',
                  '@0', '1@ @0@', '@-1@', '@ 0@']

    def chunk_placeholders(self) -> T.Tuple[str, T.Dict[str, str]]:
        """.format() and f-strings replace in one pass: placeholders repeated, out of order, zero padded, next to
        stray '@'; ARGUMENT / VARIABLE values that themselves look like placeholders (of smaller, larger, own and
        out-of-range index, or naming other variables) must come out untouched."""
        rng = self.rng
        name = self.fresh('ph')
        if rng.random() < 0.7:
            n = rng.randint(1, 4)
            args = []
            for i in range(n):
                r = rng.random()
                la = rng.choice(self.LOOKALIKES)
                if r < 0.55:
                    args.append(lit(rng, la))
                elif r < 0.7:
                    args.append(lit(rng, rng.choice(['pre ', '']) + la + rng.choice(['', ' post', la])))
                elif r < 0.8:
                    args.append(lit(rng, [la, rng.choice(self.LOOKALIKES)]))
                elif r < 0.87:
                    args.append(lit(rng, {la: rng.choice(self.LOOKALIKES)}))
                elif r < 0.94:
                    args.append(str(rng.choice([0, 1, 2, 10])))
                else:
                    args.append(rng.choice(['true', 'false']))
            parts = []
            for _ in range(rng.randint(1, 6)):
                r = rng.random()
                if r < 0.6:
                    i = rng.randrange(n)
                    parts.append(f'@{i}@' if rng.random() < 0.85 else f'@0{i}@')
                elif r < 0.8:
                    parts.append(rng.choice([' ', ' then ', '-', 'x', '', '|']))
                else:
                    parts.append(rng.choice(['@', '@@', '@x@', '@-1@', '@ 0@', '@0 @', '@a1@', '@1x@', '0@', '@0']))
            tmpl = ''.join(parts)
            stmt = f'{name} = {lit(rng, tmpl)}.format({", ".join(args)})\n'
            return stmt + self.observe(name), {}
        # f-strings: the values of the named variables contain @name@ of each other, of themselves, and @N@
        a, b, c = self.fresh('fa'), self.fresh('fb'), self.fresh('fc')
        vals = [f'@{b}@', f'@{a}@ @{c}@', f'<@{a}@>', '@0@', f'@{c}@', f'@{a}', f'{b}@', '@@', f'x@{b}@y@{a}@']
        pre = f'{a} = {lit(rng, rng.choice(vals))}\n{b} = {lit(rng, rng.choice(vals))}\n{c} = {rng.choice([lit(rng, rng.choice(vals)), "[" + lit(rng, rng.choice(vals)) + "]", "7"])}\n'
        body = ''.join(rng.choice([f'@{a}@', f'@{b}@', f'@{c}@', ' ', '-', '@', '@@', f'@{a}@{b}@', '@0@', f'@{a} @'])
                       for _ in range(rng.randint(2, 6)))
        tail = f".format({lit(rng, rng.choice(vals))})" if rng.random() < 0.4 else ''
        quote = "'''" if rng.random() < 0.25 else "'"
        stmt = f"{name} = f{quote}{body}{quote}{tail}\n"
        return pre + stmt + self.observe(name), {}

    def chunk_reiterate(self) -> T.Tuple[str, T.Dict[str, str]]:
        """An iterable VALUE (array, dict or the object returned by range()) is stored, reaches other names through
        assignment / set_variable / get_variable, and is then walked several times: twice in a row, nested in itself
        (also through the other name), again after a loop that was left with break, with indexing in between.  A
        value has no iteration state: every foreach starts at the first element."""
        rng = self.rng
        kind = rng.choice(['range', 'range', 'array', 'dict'])
        r = self.fresh('itv')
        if kind == 'range':
            lo = rng.randint(0, 3)
            src = rng.choice([f'range({rng.randint(1, 5)})', f'range({lo}, {lo + rng.randint(1, 6)})',
                              f'range({lo}, {lo + rng.randint(2, 9)}, {rng.randint(1, 3)})'])
        elif kind == 'array':
            src = lit(rng, [self.eg().value(rng.choice(['int', 'str', 'bool']), 1) for _ in range(rng.randint(2, 4))])
        else:
            src = lit(rng, {k: self.eg().value(rng.choice(['int', 'str']), 1) for k in rng.sample(KEYS, rng.randint(2, 3))})
        first = rng.choice([f'{r} = {src}', f"set_variable('{r}', {src})"])
        other = self.fresh('itw')
        alias = rng.choice([f'{other} = {r}', f"{other} = get_variable('{r}')", f"set_variable('{other}', {r})",
                            f'{other} = true ? {r} : {r}', f'{other} = [{r}][0]'])
        lines = [first, alias]
        two = kind == 'dict'
        accs: T.List[str] = []

        def head(v: str, it: str) -> str:
            return f'foreach k{v}, {v} : {it}' if two else f'foreach {v} : {it}'

        def item(v: str) -> str:
            return f'[k{v}, {v}]' if two else v
        for _ in range(rng.randint(2, 4)):
            acc = self.fresh('acc')
            accs.append(acc)
            lines.append(f'{acc} = []')
            a, b = rng.choice([r, other]), rng.choice([r, other])
            x, y = self.fresh('x'), self.fresh('y')
            form = rng.choice(['plain', 'plain', 'break', 'continue', 'nested', 'nested-break', 'index'])
            if form == 'plain':
                lines += [head(x, a), f'  {acc} += [{item(x)}]', 'endforeach']
            elif form == 'break':
                lines += [head(x, a), f'  if {acc}.length() >= {rng.randint(0, 2)}', '    break', '  endif', f'  {acc} += [{item(x)}]', 'endforeach']
            elif form == 'continue':
                lines += [head(x, a), f'  if {acc}.length().is_odd()', f'    {acc} += [0]', '    continue', '  endif', f'  {acc} += [{item(x)}]', 'endforeach']
            elif form == 'nested':
                lines += [head(x, a), '  ' + head(y, b), f'    {acc} += [[{item(x)}, {item(y)}]]', '  endforeach', 'endforeach']
            elif form == 'nested-break':
                lines += [head(x, a), '  ' + head(y, b), f'    if {acc}.length().is_odd()', '      break', '    endif',
                          f'    {acc} += [[{item(x)}, {item(y)}]]', '  endforeach', f'  {acc} += [{item(x)}]', 'endforeach']
            elif kind == 'dict':
                lines += [f'{acc} += [{a}.keys(), {b}.values()]']
            else:
                lines += [f'{acc} += [{a}[0], {b}[-1]]']
        text = '\n'.join(lines) + '\n'
        text += 'message(' + ', '.join(f"'{a}', {a}" for a in accs) + ')\n' + ''.join(f'##ASSERT {a}\n' for a in accs)
        return text, {}

    def chunk_message(self) -> T.Tuple[str, T.Dict[str, str]]:
        eg = self.eg()
        args = [eg.expr('any', 2).s for _ in range(self.rng.randint(1, 4))]
        return f"message({', '.join(args)})\n", {}

    def chunk_shortcircuit(self) -> T.Tuple[str, T.Dict[str, str]]:
        rng = self.rng
        name = self.fresh('sc')
        bomb = rng.choice(['1 / 0 == 0', 'no_such_variable', "[][0] == 1", "{}['k'] == 1", "'x'.to_int() == 1",
                           "'a' == 1", '1'])
        if rng.random() < 0.35:
            # the branch not taken is never evaluated: ternary arms, elif conditions after a taken branch
            k = rng.choice(['ternary-t', 'ternary-f', 'elif', 'else-if'])
            if k == 'ternary-t':
                return f'{name} = true ? 1 : ({bomb})\n' + self.observe(name), {}
            if k == 'ternary-f':
                return f'{name} = 1 > 2 ? ({bomb}) : 2\n' + self.observe(name), {}
            if k == 'elif':
                return (f"{name} = 0\nif true\n  {name} = 1\nelif {bomb}\n  {name} = 2\nelse\n  {name} = 3\nendif\n"
                        + self.observe(name)), {}
            return (f"{name} = 0\nif false\n  {name} = 1\nelif true\n  {name} = 2\nelif {bomb}\n  {name} = 3\nendif\n"
                    + self.observe(name)), {}
        form = rng.choice(['false and ({b})', 'true or ({b})', 'false and {b}', 'true or {b}',
                           'not true and ({b})', '1 > 2 and ({b})', "'a' in ['a'] or ({b})"])
        if bomb == '1' or ('==' in bomb and '(' not in form and False):
            form = form.replace('({b})', '{b}')
        return f'{name} = {form.format(b=bomb)}\n' + self.observe(name), {}

    def chunk_subdir(self, depth: int = 0) -> T.Tuple[str, T.Dict[str, str]]:
        rng = self.rng
        d = self.fresh('dir')
        sub = ProgramGen(rng, self.depth)
        sub.env = dict(self.env)
        sub.counter = self.counter + 1000 * (depth + 1) + rng.randint(0, 99) * 10000
        text, files = '', {}
        for _ in range(rng.randint(2, 4)):
            kind = rng.choice(['assign', 'plusassign', 'message', 'alias', 'if'])
            for _try in range(20):
                t, f = getattr(sub, 'chunk_' + kind)()
                o = ref_exec(strip_markers(t), sub.env, f)
                if o.ok:
                    sub.env = dict(o.variables)
                    text += t
                    files.update(f)
                    break
        if depth == 0 and rng.random() < 0.3:
            sub.counter += 500
            t, f = sub.chunk_subdir(depth + 1)
            text += t
            files.update({d + '/' + k: v for k, v in f.items()})
        after = ''
        made = [k for k in sub.env if k not in self.env]
        if made:
            nm = rng.choice(made)
            after = f"message('from {d}', {nm})\n##ASSERT {nm}\n"
        self.counter = max(self.counter, sub.counter) + 1
        out_files = {d + '/meson.build': text}
        out_files.update({k if k.startswith(d + '/') else k: v for k, v in files.items()})
        return f"subdir('{d}')\n" + after, out_files

    def chunk_subproject(self) -> T.Tuple[str, T.Dict[str, str]]:
        rng = self.rng
        sp = self.fresh('sp')
        sub = ProgramGen(rng, self.depth)
        sub.counter = 0
        text = f"project('{sp}', meson_version: '>=1.10')\n"
        # the subproject sees none of the parent's variables
        probe = rng.choice(list(self.env)) if self.env else 'v1'
        text += f"message('isolated', is_variable('{probe}'), get_variable('{probe}', 'nope'))\n"
        for _ in range(rng.randint(2, 4)):
            for _try in range(20):
                t, f = sub.chunk_assign()
                o = ref_exec(strip_markers(t), sub.env, f)
                if o.ok:
                    sub.env = dict(o.variables)
                    text += t.replace("message('", f"message('{sp}.")
                    break
        # variables holding the "empty" value of each type: present, so a fallback must be ignored for them
        eg = self.eg({})
        for typ in rng.sample(TYPES, rng.randint(1, 3)):
            nm = sub.fresh('e')
            text += f'{nm} = {lit(rng, ExprGen.EMPTY[typ])}\n'
            sub.env[nm] = ExprGen.EMPTY[typ]
        names = list(sub.env)
        rng.shuffle(names)
        s = f"{sp}_obj = subproject('{sp}')\n"
        for nm in names[:4]:
            tmp = self.fresh('fromsp')
            how = rng.random()
            if how < 0.5:
                s += f"{tmp} = {sp}_obj.get_variable('{nm}')\n" + self.observe(tmp)
            else:
                s += f"{tmp} = {sp}_obj.get_variable('{nm}', {eg.fallback('any')})\n" + self.observe(tmp)
        # missing variables: the fallback -- of any type, empty or not, literal or expression -- is the value
        for _ in range(rng.randint(2, 4)):
            tmp = self.fresh('fbsp')
            fb = eg.fallback('any') if rng.random() < 0.8 else self.eg().expr('any', 1).s
            s += f"{tmp} = {sp}_obj.get_variable('no_such_{tmp}', {fb})\n" + self.observe(tmp)
        s += f"message({sp}_obj.get_variable('no_such', 'fallback'), {sp}_obj.found())\n"
        # a subproject variable name is not a variable of the parent
        hidden = [n for n in names if n not in self.env]
        if hidden:
            s += f"message('hidden', is_variable('{hidden[0]}'))\n"
        return s, {f'subprojects/{sp}/meson.build': text}

    CHUNKS = [('assign', 30), ('plusassign', 8), ('alias', 6), ('torture', 7), ('nearmiss', 7), ('placeholders', 7), ('reiterate', 7), ('if', 8), ('foreach', 10), ('variables', 5),
              ('message', 5), ('shortcircuit', 4), ('exprstmt', 2)]
    COMMENTS = ["# plain comment", "# it's \"quoted\" \\ @x@ '''", "", "\t# indented", "#", "# endif foreach x : y"]

    def program(self, n_chunks: int = 14, multi_file: bool = True, label: str = '') -> Program:
        rng = self.rng
        text = PROJECT_LINE + "\nmessage('BEGIN')\n"
        files: T.Dict[str, str] = {}
        kinds = [k for k, w in self.CHUNKS for _ in range(w)]
        plan = [rng.choice(kinds) for _ in range(n_chunks)]
        if multi_file:
            if rng.random() < 0.5:
                plan.insert(rng.randint(3, max(3, len(plan))), 'subdir')
                if rng.random() < 0.4:
                    plan.insert(rng.randint(3, max(3, len(plan))), 'subdir')
            if rng.random() < 0.3:
                plan.insert(rng.randint(3, max(3, len(plan))), 'subproject')
        for kind in plan:
            for _try in range(25):
                saved_counter = self.counter
                t, f = getattr(self, 'chunk_' + kind)()
                o = ref_exec(strip_markers(t), self.env, f)
                if o.ok and self.extra_check is not None:
                    cf = {'meson.build': "project('x')\n" + strip_markers(t)}
                    cf.update(f)
                    if not self.extra_check(cf, self.env):
                        o.error = R.RefUnspecified('chunk vetoed by extra_check')
                if o.ok:
                    self.env = dict(o.variables)
                    text += t
                    files.update(f)
                    if rng.random() < 0.2:
                        text += rng.choice(self.COMMENTS) + '\n'
                    break
                self.counter = saved_counter + 1
        text += "message('END')\n"
        files['meson.build'] = text
        files = finalize(files)
        n = sum(v.count('\n') for v in files.values())
        return Program(files, 'valid', n, None, label)


def strip_markers(text: str) -> str:
    return '\n'.join(l for l in text.split('\n') if not l.startswith('##ASSERT'))


def finalize(files: T.Dict[str, str]) -> T.Dict[str, str]:
    """Replace every '##ASSERT name' marker by assert(name == <literal of the reference value at that point>)."""
    # Evaluate with markers turned into a recording call understood only by this helper: we run the reference on
    # the program where each marker became  message('##ASSERT', name)  and read the rendered values back is lossy,
    # so instead the markers become set_variable('__assert_<n>', name) and the values are taken from the tables.
    counter = [0]
    marked: T.Dict[str, str] = {}
    for path, text in files.items():
        lines = []
        for l in text.split('\n'):
            if l.startswith('##ASSERT '):
                counter[0] += 1
                lines.append(f"set_variable('assert__{counter[0]}', {l[9:].strip()})")
            else:
                lines.append(l)
        marked[path] = '\n'.join(lines)
    ev = R.Evaluator(marked)
    out = ev.run()
    tables = [out.variables] + [sp.variables for sp in ev.subprojects.values()]
    values: T.Dict[str, T.Any] = {}
    for t in tables:
        for k, v in t.items():
            if k.startswith('assert__'):
                values[k] = v
    counter = [0]
    done: T.Dict[str, str] = {}
    for path, text in files.items():
        lines = []
        for l in text.split('\n'):
            if l.startswith('##ASSERT '):
                counter[0] += 1
                name = l[9:].strip()
                key = f'assert__{counter[0]}'
                if key in values and R.tname(values[key]) in TYPES:
                    msg = f", '{name} differs'" if counter[0] % 5 == 0 else ''
                    lines.append(f'assert({name} == {R.literal(values[key])}{msg})')
                else:
                    lines.append(f"# (no assert for {name})")
            else:
                lines.append(l)
        done[path] = '\n'.join(lines)
    return done


# ------------------------------------------------------------------------------------------------------
# operator x type x type and method matrices

SAMPLES: T.Dict[str, T.List[str]] = {
    'int': ['0', '1', '7', '-3', '2', '10'],
    'bool': ['true', 'false'],
    'str': ["'a'", "''", "'abc'", "'1'", "'a/b'"],
    'array': ['[]', '[1]', "[1, 'a', true]", '[[1]]', '[true]', "['a']"],
    'dict': ['{}', "{'a': 1}", "{'a': 1, 'b': [2]}"],
}
BINOPS = ['+', '-', '*', '/', '%', '==', '!=', '<', '<=', '>', '>=', 'in', 'not in', 'and', 'or']


def matrix_cells(rng: random.Random, per_cell: int = 1) -> T.List[T.Tuple[str, str]]:
    """(label, expression) for every binary operator x left type x right type, unary operators, indexing,
    conditions, and every documented method with good and bad arguments."""
    cells: T.List[T.Tuple[str, str]] = []
    for op in BINOPS:
        for lt in TYPES:
            for rt in TYPES:
                for _ in range(per_cell):
                    l, r = rng.choice(SAMPLES[lt]), rng.choice(SAMPLES[rt])
                    if l.startswith('-'):
                        l = f'({l})'
                    cells.append((f'op:{op}:{lt}:{rt}', f'{l} {op} {r}'))
    for t in TYPES:
        for _ in range(per_cell):
            v = rng.choice(SAMPLES[t])
            v9 = f'({v})' if v.startswith('-') else v
            cells.append((f'op:neg:{t}', f'-{v9}'))
            cells.append((f'op:not:{t}', f'not {v9}'))
            cells.append((f'op:ternary-cond:{t}', f'{v9} ? 1 : 2'))
            for it in TYPES:
                cells.append((f'op:index:{t}:{it}', f'{v9}[{rng.choice(SAMPLES[it])}]'))
    # += cells use a statement; handled by the caller through 'pluseq:' labels
    for lt in TYPES:
        for rt in TYPES:
            for _ in range(per_cell):
                cells.append((f'pluseq:{lt}:{rt}', f'{rng.choice(SAMPLES[lt])}|{rng.choice(SAMPLES[rt])}'))
    methods = {
        'str': [('format', ['', "'x'", '1, true', "[1], {'a': 'b'}"]), ('replace', ["'a', 'b'", "'a'", "'a', 1", '']),
                ('strip', ['', "'a'", '1', "'a', 'b'"]), ('to_lower', ['', '1']), ('to_upper', ['', "'a'"]),
                ('to_int', ['', '1']), ('contains', ["'a'", '', '1', "'a', 'b'"]), ('startswith', ["'a'", '1', '']),
                ('endswith', ["'c'", 'true', '']), ('substring', ['', '1', '1, 2', '-2', "'a'", '1, 2, 3']),
                ('split', ['', "'b'", '1', "'a', 'b'"]), ('splitlines', ['', "'a'"]),
                ('join', ["['x', 'y']", "'x', 'y'", '[1]', '1', '[]', '']), ('underscorify', ['', '1']),
                ('length', ['']), ('keys', [''])],
        'int': [('is_even', ['', '1']), ('is_odd', ['', "'a'"]), ('to_string', ['', 'fill: 3', "fill: 'a'", '1', 'pad: 2']),
                ('to_int', ['']), ('abs', [''])],
        'bool': [('to_int', ['', '1']), ('to_string', ['', "'y', 'n'", "'y'", '1, 2', "'a', 'b', 'c'"]),
                 ('is_even', [''])],
        'array': [('contains', ['1', "'a'", '', '1, 2', '[1]', 'true']), ('get', ['0', '-1', '5', '5, 9', "'a'", '', '0, 1, 2']),
                  ('length', ['', '1']), ('slice', ['', '0, 1', '1', 'step: 2', 'step: 0', "'a', 'b'"]),
                  ('flatten', ['', '1']), ('keys', ['']), ('join', ["','"])],
        'dict': [('has_key', ["'a'", '1', '', "'a', 'b'"]), ('get', ["'a'", "'zz'", "'zz', 5", '1', '']),
                 ('keys', ['', '1']), ('values', ['', "'a'"]), ('length', ['']), ('contains', ["'a'"])],
    }
    for t, ms in methods.items():
        for name, arglists in ms:
            for args in arglists:
                for _ in range(per_cell):
                    recv = rng.choice(SAMPLES[t])
                    recv = f'({recv})' if recv.startswith('-') else recv
                    cells.append((f'method:{t}.{name}({args})', f'{recv}.{name}({args})'))
    funcs = ["range(3)[1]", "range(1, 5)[-1]", "range(0, 10, 3)[3]", "range(-1)[0]", "range(3, 1)[0]", "range(1, 2, 0)[0]",
             "range('a')[0]", "range(3)[3]", "range(3)['a']", "range()[0]", "range(1, 2, 3, 4)[0]", "range(2) == range(2)",
             "get_variable('nope')", "get_variable('nope', 3)", "get_variable(1)", "get_variable()", "is_variable('nope')",
             "is_variable(1)", "is_variable()", "no_such_function(1)", "[1, 2][0]", "[1, 2][2]", "[1, 2][-2]", "[1, 2][-3]",
             "'ab'[1]", "'ab'[2]", "'ab'[-3]", "{'a': 1}['a']", "{'a': 1}['b']", "{'a': 1, 'a': 2}", "{1: 2}", "{'a' + 'b': 2}['ab']",
             "[1, 2].get(2)", "{'a': 1}.get('b')", "1 / 0", "1 % 0", "-7 / 2", "7 / -2", "-7 % 3", "7 % -3", "-7 % -3",
             "0 / 5", "2 * 3 + 4", "2 + 3 * 4", "10 - 4 - 3", "100 / 10 / 5", "100 / (10 / 5)", "7 % 4 * 2", "- 2 * 3",
             "1 - -1", "-(1 + 2)", "not (true and false)", "not true and false", "not true == false", "1 + 2 == 3",
             "1 < 2 == true", "true == 1 < 2", "1 == 1 and 2 == 2 or 1 / 0 == 1", "false and true or true",
             "true or false and false", "true ? 1 : 2", "false ? 1 : 2", "(true ? 1 : 2) + 1", "true ? 1 : 2 + 1",
             "1 ? 2 : 3", "true ? false ? 1 : 2 : 3", "true ? (false ? 1 : 2) : 3", "true ? 1 : false ? 2 : 3",
             "[true ? 1 : 2, false ? 3 : 4]", "1 < 2 < 3", "1 == 1 == true", "1 < 2 != false", "- - 1", "not not true",
             "- not true", "not - 1", "1 in [1]", "true in [1]", "1 in [true]", "[1] in [[1]]", "'a' in {'a': 1}",
             "1 in {'a': 1}", "'a' in 'cat'", "1 in 'cat'", "'a' not in 'cat'", "[1] == [true]", "1 == true",
             "{'a': 1} == {'a': true}", "[1, [2]] == [1, [2]]", "{'a': 1, 'b': 2} == {'b': 2, 'a': 1}",
             "'@0@'.format('@1@', 'x')", "'@0@@1@'.format('a', 'b')", "'@0@'.format()", "'@1@'.format('a')", "'@a@'.format('a')",
             "'@1@0@'.format('a', 'b')", "'@0@1@'.format('a', 'b')", "'@0@ then @1@'.format('@1@', 'x')", "'@1@ @0@'.format('@1@', '@0@')",
             "'@01@'.format('a', 'b')", "'@2@'.format('@0@', '@1@', '@2@')",
             "'a' 'b'", "1.5", "010", "0x", "1_000", "'a'.b", "1 +", "* 2", "(1", "[1, 2", "{'a' 1}", "{'a': }", "f'@x'",
             "'/a' / 'b'", "'a' / '/b'", "'a' / 'b' / 'c'", "'a/' / 'b'", "'a' + 1", "1 + 'a'", "[1] + 2", "[1] + [2]",
             "{'a': 1} + {'a': 2, 'b': 3}", "true.to_string('', 'x')", "false.to_string('x', '')"]
    for f in funcs:
        cells.append(('probe:' + f, f))
    return cells


# ------------------------------------------------------------------------------------------------------
# argument passing: every method / function called with VARIABLES (and aliases of them) as receiver and arguments

ARGPASS_SETUP = ("a1 = ['x', 'y']\na2 = a1\nn1 = [['p'], 'q']\nn2 = n1\ns1 = 'sep'\nd1 = {'k': ['v'], 'x': 1}\nd2 = d1\n"
                 "i1 = 1\nb1 = true\ne1 = []\ne2 = e1\n")
ARGPASS_OBSERVE = "message('after', a1, a2, n1, n2, s1, d1, d2, i1, b1, e1, e2)\n"
ARGPASS_SHAPES = ['a1, {L}', '[a1, {L}]', '{L}, a1', 'n1, a1', 'a1', 'a1, a2', '[[a1], {L}]', 'e1, {L}', 'd1, {L}', 'a1, n1, {L}',
                  '[e1, a1, {L}]', 's1, a1']
ARGPASS_METHODS = {
    'str': ['format', 'replace', 'strip', 'to_lower', 'to_upper', 'to_int', 'contains', 'startswith', 'endswith', 'substring', 'split',
            'splitlines', 'join', 'underscorify', 'version_compare'],
    'int': ['is_even', 'is_odd', 'to_string'],
    'bool': ['to_int', 'to_string'],
    'array': ['contains', 'get', 'length', 'slice', 'flatten'],
    'dict': ['has_key', 'get', 'keys', 'values'],
}
ARGPASS_FUNCS = ['message', 'assert', 'set_variable', 'get_variable', 'is_variable', 'unset_variable', 'range']
_ARGPASS_RECV = {'str': 's1', 'int': 'i1', 'bool': 'b1', 'array': 'a1', 'dict': 'd1'}


def argpass_cases(rng: random.Random, n_shapes: int = 4) -> T.List[T.Tuple[str, str]]:
    """(label, main file text): ONE call whose receiver and arguments are variables that have aliases -- array
    first and followed by more arguments, inside an array literal, nested, empty, after a literal ... -- for every
    documented method and function, whatever the documents say about that call (value, error or nothing).  The
    point is not the result of the call: no variable may have another value afterwards (alias monitor)."""
    out: T.List[T.Tuple[str, str]] = []
    head = PROJECT_LINE + "\nmessage('BEGIN')\n" + ARGPASS_SETUP
    calls: T.List[T.Tuple[str, str]] = []
    for t, names in ARGPASS_METHODS.items():
        for m in names:
            calls.append((f'{t}.{m}', f'{_ARGPASS_RECV[t]}.{m}'))
    for f in ARGPASS_FUNCS:
        calls.append((f, f))
    for label, callee in calls:
        shapes = ARGPASS_SHAPES[:3] + rng.sample(ARGPASS_SHAPES[3:], max(0, n_shapes - 3)) if n_shapes < len(ARGPASS_SHAPES) else ARGPASS_SHAPES
        for sh in shapes:
            args = sh.format(L=rng.choice(["'z'", "'x'", '0', "['z']", 'true']))
            stmt = rng.choice(['r = {c}({a})', '{c}({a})', 'r = [{c}({a})]', "message({c}({a}))"]).format(c=callee, a=args)
            out.append((f'argpass:{label}({sh})', head + stmt + '\n' + ARGPASS_OBSERVE + "message('END')\n"))
    return out


# ------------------------------------------------------------------------------------------------------
# single-fault mutation operators

def _prefix(rng: random.Random, n: int = 4) -> T.Tuple[str, T.Dict[str, T.Any]]:
    """A small valid program prefix providing variables of every type; returns (text, env)."""
    text = (PROJECT_LINE + "\nmessage('BEGIN')\n"
            "i1 = 7\ni2 = -3\nb1 = true\nb2 = false\ns1 = 'abc'\ns2 = 'it\\'s @0@'\n"
            "a1 = [1, 'two', [3], true]\na2 = []\nd1 = {'a': 1, 'b': 'x'}\nd2 = {}\n")
    pg = ProgramGen(rng, 2)
    pg.reuse_names = False        # the faulty statements rely on the types of i1, b1, s1, a1, d1 ...
    o = R.Evaluator({'meson.build': text}).run()
    pg.env = dict(o.variables)
    for _ in range(n):
        for _try in range(20):
            t, f = pg.chunk_assign() if rng.random() < 0.7 else pg.chunk_message()
            oo = ref_exec(strip_markers(t), pg.env, f)
            if oo.ok:
                pg.env = dict(oo.variables)
                text += t
                break
    return text, pg.env


def _wrong_type(rng: random.Random, env: T.Dict[str, T.Any]) -> str:
    ops = BINOPS + ['index', 'neg', 'not', 'if']
    for _ in range(200):
        op = rng.choice(ops)
        lt, rt = rng.choice(TYPES), rng.choice(TYPES)
        l = rng.choice([k for k, v in env.items() if R.tname(v) == lt] or SAMPLES[lt])
        r = rng.choice([k for k, v in env.items() if R.tname(v) == rt] or SAMPLES[rt])
        if op == 'index':
            e = f'{l}[{r}]'
        elif op == 'neg':
            e = f'-{l}'
        elif op == 'not':
            e = f'not {l}'
        elif op == 'if':
            e = f'{l} ? 1 : 2'
        else:
            e = f'{l} {op} {r}'
        try:
            R.evaluate_expression(e, env)
        except R.RefRuntimeError:
            return e
        except R.RefError:
            continue
    return "1 + 'a'"


FAULTS: T.Dict[str, T.List[T.Union[str, T.Callable]]] = {
    # operator name -> list of faulty statement texts (single line unless stated) ; '{...}' filled from env
    'index-range': ["x = a1[4]", "x = a1[-5]", "x = a2[0]", "x = s1[3]", "x = s1[-4]", "x = range(3)[3]", "x = d1['zz']",
                    "x = d2['a']", "x = a1.get(4)", "x = d1.get('zz')", "x = a1[2][1]", "x = a1[1][3]"],
    'div-zero': ["x = i1 / 0", "x = i1 % 0", "x = 1 / (i1 - 7)", "x = i1 % (i2 + 3)", "x = [1 / 0]", "message(1 / 0)"],
    'unknown-name': ["x = nope", "x = i1 + nope", "x = s1.nope()", "x = a1.nope()", "x = i1.nope()", "x = b1.nope()",
                     "x = d1.nope()", "nope()", "x = nope(1)", "x = get_variable('nope')", "x = f'@nope@'",
                     "nope += 1", "message(nope)", "x = [nope]", "x = {'k': nope}", "x = s1.to_upper().nope()"],
    'use-after-unset': ["unset_variable('i1')\nx = i1", "unset_variable('a1')\nmessage(a1)",
                        "unset_variable('s1')\nx = f'@s1@'", "unset_variable('d1')\nd1 += {}"],
    'chained-comparison': ["x = 1 < 2 < 3", "x = i1 == i1 == true", "x = 1 < 2 == true", "x = 1 == 1 != false",
                           "x = 1 in [1] == true", "x = i1 <= i2 >= 0", "if 1 < i1 < 9\nendif", "x = 1 not in [2] in [true]"],
    'stacked-unary': ["x = - - 1", "x = not not b1", "x = - not b1", "x = not - i1", "x = 1 - - - 1", "x = --i1"],
    'nested-ternary': ["x = b1 ? b2 ? 1 : 2 : 3", "x = b1 ? 1 : b2 ? 2 : 3", "x = b1 ? (b2 ? 1 : 2) : 3",
                       "x = b1 ? 1 : (b2 ? 2 : 3)", "x = b1 ? [b2 ? 1 : 2] : 3", "message(b1 ? 1 : b2 ? 2 : 3)",
                       "x = b1 ? 'a'.contains(b2 ? 'a' : 'b') : false"],
    'kwarg-order': ["x = i1.to_string(fill: 3, 1)", "message(a: 1, 2)", "x = a1.slice(step: 1, 0, 1)"],
    'assign-in-args': ["message(x = 1)", "x = [y = 1]", "x = s1.contains(y = 'a')", "x = (y = 1)", "x = y = 1"],
    'dup-dict-key': ["x = {'a': 1, 'a': 2}", "x = {'a': 1, 'b': 2, 'a': 1}", "x = {'a' + 'b': 1, 'ab': 2}", "x = {s1: 1, 'abc': 2}"],
    'nonstr-dict-key': ["x = {1: 2}", "x = {i1: 2}", "x = {true: 2}", "x = {[]: 2}", "x = {'a': 1, b1: 2}"],
    'jump-outside-loop': ["break", "continue", "if b1\n  break\nendif", "if b1\n  continue\nendif"],
    'void-use': ["x = set_variable('q', 1)", "x = [set_variable('q', 1)]", "x = unset_variable('i1')",
                 "x = {'k': set_variable('q', 1)}", "if set_variable('q', 1)\nendif", "x = set_variable('q', 1) + 1",
                 "x = not set_variable('q', 1)", "x = set_variable('q', 1) == 1", "x = set_variable('q', 1).foo()",
                 "x = a1[set_variable('q', 1)]", "x = assert(true)", "x = b1 ? set_variable('q', 1) : 2"],
    'nonbool-condition': ["if i1\nendif", "if s1\nendif", "if a1\nendif", "if d1\nendif", "x = i1 and b1", "x = b1 and i1",
                          "x = b2 or s1", "x = s1 or b1", "x = not i1", "x = not a2", "x = i1 ? 1 : 2", "x = '' ? 1 : 2",
                          "if b2\nelif 0\nendif", "x = [] or true", "assert(1)", "assert('true')", "assert([])"],
    'lexical': ['x = "a"', "x = 010", "x = 1.5", "x = 'a' 'b'", "x = 'abc", "x = 0x", "x = $i1", "x = 1 +", "x = * 2",
                "x = (1", "x = [1, 2", "x = {'a' 1}", "x = {'a': }", "= 1", "x + = 1", "x = ", "x = 1 2", "x = i1 i2",
                "x = 1)", "x = ]", "x = 12ab", "x = 0b2", "x = 0o8", "x = a1.", "x = a1.[0]", "x = .5", "x = 1 !! 2",
                "x = 1 <> 2", "x = 1 === 1", "x = ~i1", "x = i1 ** 2", "x = i1 // 2", "x = i1 && b1", "x = !b1",
                "x = `a`", "x = 'a\\'", "x == = 1", "x = 1,", "x = 1;"],
    'block-structure': ["if b1\nx = 1", "foreach q : a1\nx = 1", "endif", "endforeach", "else", "elif b1",
                        "if b1\nelse\nelif b2\nendif", "if b1\nelse\nelse\nendif", "if b1\nendforeach",
                        "foreach q : a1\nendif", "if\nendif", "foreach : a1\nendforeach", "foreach q a1\nendforeach",
                        "foreach q :\nendforeach", "foreach q, r, s : d1\nendforeach", "foreach 1 : a1\nendforeach",
                        "if b1 x = 1\nendif", "foreach q : a1 message('in header', q)\nendforeach",
                        "foreach q : a2 nope\nendforeach", "foreach q : a1 x = q\nendforeach"],
    'missing-operand-unevaluated': ["x = true ? 1 :", "x = b2 and", "x = b1 or", "if b1\nelif\nendif", "if b2\n  x = 1 +\nendif",
                                    "foreach q : a2\n  x = * 2\nendforeach", "x = b2 ? : 2", "x = b2 and or b1",
                                    "if b2\n  x = \nendif", "x = b1 ? 1 : 2 +" ],
    'keyword-on-statement-line': ["if b1\n  x = 1 endif", "foreach q : a1\n  x = q endforeach", "if b1\n  x = 1 else\n  y = 2\nendif",
                                  "if b2\n  x = 1 elif b1\n  y = 2\nendif"],
    'method-args': ["x = s1.strip(1)", "x = s1.startswith()", "x = a1.length(1)", "x = i1.is_even(1)", "x = b1.to_string('a')",
                    "x = 'abc'.to_int()", "x = ''.to_int()", "x = '1.5'.to_int()", "x = range(-1)", "x = range(5, 2)",
                    "x = range(1, 2, 0)", "x = range('a')", "x = range()", "x = s1.replace('a')", "x = s1.substring('a')",
                    "x = a1.get('a')", "x = d1.has_key(1)", "x = d1.get(1)", "x = s1.join([1])", "x = s1.join(1)",
                    "x = s1.contains(1)", "x = s1.split(1)", "x = i1.to_string(fill: 'a')", "x = i1.to_string(1)",
                    "x = a1.slice(1)", "x = a1.slice(step: 0)", "x = s1.to_upper(foo: 1)", "x = a1.contains()",
                    "x = b1.to_int(1)", "x = d1.keys(1)", "x = s1.underscorify(1)", "x = b1.to_string('a', 'b', 'c')",
                    "x = b1.to_string(1, 2)", "set_variable('x')", "set_variable(1, 2)", "x = is_variable()", "x = get_variable()",
                    "unset_variable()", "unset_variable(1)", "assert()", "assert(true, 1)", "assert(true, 'm', 'n')",
                    "message(range(3))", "x = f'@r@'", "x = '@0@'.format(r)"],
    'foreach-target': ["foreach q, r : a1\nendforeach", "foreach q : d1\nendforeach", "foreach q : i1\nendforeach",
                       "foreach q : s1\nendforeach", "foreach q : b1\nendforeach", "foreach q, r : range(3)\nendforeach",
                       "foreach q : nope\nendforeach", "foreach q : set_variable('q', 1)\nendforeach"],
    'assert-false': ["assert(false)", "assert(b2)", "assert(i1 == 8)", "assert(not b1, 'msg')", "assert(s1 == 'abd')",
                     "assert(a1 == [1, 'two', [3], 1])", "assert(1 in [true])", "assert(d1 == {'a': 1})"],
    'assign-target': ["a1[0] = 1", "s1[2] = 'C'", "'x' = 1", "1 = 1", "nope() = 1", "s1.to_upper() = 1", "d1['a'] = 1",
                      "(x) = 1", "[x] = [1]", "a1[0] += 1", "true = 1", "b1 += true", "i1 += 'a'", "s1 += 1", "d1 += [1]",
                      "d1 += 1", "i1 += [1]", "s1 += ['a']", "b1 += 1"],
}
FAULT_OPS = [k for k, v in FAULTS.items() if v] + ['wrong-type', 'subdir', 'subproject']

_SUBDIR_FAULTS = [
    # (main statement(s), extra files, faulting file, line in that file, cls)
    ("subdir('nodir')", {}, None, None),
    ("subdir('d')\nsubdir('d')", {'d/meson.build': "z = 1\n"}, None, 2),
    ("subdir('d/..')", {'d/meson.build': "z = 1\n"}, None, None),
    ("subdir('d')", {'d/meson.build': "message('in d')\nz = i1 + 1\nq = z / 0\nmessage('not here')\n"}, 'd/meson.build', 3),
    ("subdir('d')", {'d/meson.build': "message('in d')\nz = 1 < 2 < 3\n"}, 'd/meson.build', 2),
    ("subdir('d')", {'d/meson.build': "message('in d')\nz = nope\n"}, 'd/meson.build', 2),
    ("subdir('d')", {'d/meson.build': "subdir('e')\n", 'd/e/meson.build': "message('in e', i1)\nz = [1][1]\n"}, 'd/e/meson.build', 2),
    ("subdir('d')\nx = zz", {'d/meson.build': "zz = 1\nunset_variable('zz')\n"}, None, 2),
    ("subdir('d')", {'d/meson.build': "unset_variable('i1')\n", }, None, None),   # then use below
    ("subdir(1)", {}, None, None),
    ("subdir()", {}, None, None),
    ("x = subdir('d')", {'d/meson.build': "z = 1\n"}, None, None),
]
_SUBPROJECT_FAULTS = [
    ("sp = subproject('nosuch')", {}, None, None),
    ("sp = subproject('s')\nx = spvar", {'subprojects/s/meson.build': "project('s')\nspvar = 1\n"}, None, 2),
    ("sp = subproject('s')\nx = sp.get_variable('nope')", {'subprojects/s/meson.build': "project('s')\nspvar = 1\n"}, None, 2),
    ("sp = subproject('s')", {'subprojects/s/meson.build': "project('s')\nmessage('in s')\nx = i1\n"}, 'subprojects/s/meson.build', 3),
    ("sp = subproject('s')", {'subprojects/s/meson.build': "project('s')\nmessage('in s')\nx = 1 / 0\n"}, 'subprojects/s/meson.build', 3),
    ("sp = subproject('s')", {'subprojects/s/meson.build': "project('s')\nx = - - 1\n"}, 'subprojects/s/meson.build', 2),
    ("sp = subproject('s')", {'subprojects/s/meson.build': "x = 1\n"}, 'subprojects/s/meson.build', 1),
    ("sp = subproject('s')\nx = sp.spvar", {'subprojects/s/meson.build': "project('s')\nspvar = 1\n"}, None, 2),
    ("sp = subproject('s')\nmessage(sp)", {'subprojects/s/meson.build': "project('s')\nspvar = 1\n"}, None, 2),
    ("sp = subproject('s')\nx = sp.get_variable()", {'subprojects/s/meson.build': "project('s')\nspvar = 1\n"}, None, 2),
    ("sp = subproject(1)", {}, None, None),
]


def fault_catalog() -> T.List[T.Tuple[str, int]]:
    """Every (operator, variant) of the fixed single-fault pools; 'wrong-type' is random and unbounded."""
    out: T.List[T.Tuple[str, int]] = []
    for op, pool in FAULTS.items():
        out += [(op, i) for i in range(len(pool))]
    out += [('subdir', i) for i in range(len(_SUBDIR_FAULTS))]
    out += [('subproject', i) for i in range(len(_SUBPROJECT_FAULTS))]
    return out


def faulty_program(rng: random.Random, op: str, variant: int = 0) -> Program:
    """A valid prefix, ONE faulty statement, and a tail that must never run.  The reference decides where and
    how the program must fail; fault['stmt'] only documents what was injected."""
    prefix, env = _prefix(rng, rng.randint(1, 4))
    extra: T.Dict[str, str] = {}
    if op == 'wrong-type':
        stmt = 'x = ' + _wrong_type(rng, env)
        if rng.random() < 0.3:
            stmt = 'message(' + stmt[4:] + ')'
    elif op == 'subdir':
        stmt, extra, _f, _l = _SUBDIR_FAULTS[variant % len(_SUBDIR_FAULTS)]
        if "unset_variable('i1')" in ''.join(extra.values()):
            stmt += "\nx = i1"
    elif op == 'subproject':
        stmt, extra, _f, _l = _SUBPROJECT_FAULTS[variant % len(_SUBPROJECT_FAULTS)]
    else:
        pool = FAULTS[op]
        stmt = pool[variant % len(pool)]
        if 'r@' in stmt or '(r)' in stmt:
            prefix += 'r = range(3)\n'
    if rng.random() < 0.3 and '\n' not in stmt and op not in ('lexical', 'block-structure', 'jump-outside-loop', 'assign-target'):
        wrap = rng.choice(['if', 'foreach', 'else'])      # vary the context of the fault
        if wrap == 'if':
            stmt = 'if b1\n  ' + stmt + '\nendif'
        elif wrap == 'else':
            stmt = 'if b2\n  x = 0\nelse\n  ' + stmt + '\nendif'
        else:
            stmt = 'foreach q : [1, 2]\n  ' + stmt + '\nendforeach'
    text = prefix + stmt + "\nmessage('AFTER')\nmessage('END')\n"
    files = dict(extra)
    files['meson.build'] = text
    files = finalize(files)
    fault = {'op': op, 'variant': variant, 'stmt': stmt, 'first_line': prefix.count('\n') + 1}
    return Program(files, 'faulty', text.count('\n'), fault, f'{op}:{stmt[:60]}')
